"""Scratch directories under /dev/shm (never /tmp, never /repo, never /verif)."""
import contextlib
import os
import shutil
import tempfile

BASE = "/dev/shm"


@contextlib.contextmanager
def scratch(tag="case"):
    d = tempfile.mkdtemp(prefix="verif-%d-%s-" % (os.getpid(), tag), dir=BASE)
    try:
        yield d
    finally:
        shutil.rmtree(d, ignore_errors=True)


def mkscratch(tag="unit"):
    return tempfile.mkdtemp(prefix="verif-%d-%s-" % (os.getpid(), tag), dir=BASE)
