"""C18 helpers: typed JSON encoding of plays, structural fingerprint, reference model of the
exclusion rule, YAML renderer, collision classifier.  No insights imports at module level.

Typed encoding (order- and type-preserving, survives json.dump(sort_keys=True)):
    ["z"] null | ["b", bool] | ["i", int] | ["f", "repr"] | ["s", text]
    ["l", [value...]] | ["m", [[key, value]...]]        (keys are scalar encodings)
"""
import collections
import datetime
import json
import re

EXC = "insights_signature_exclude"
SIG = "insights_signature"
LABELS = ("hosts", "vars")


# ---- encoding -------------------------------------------------------------------------------

def enc(x):
    """Python object -> typed encoding.  Distinguishes bool/int/float/str/None, keeps key order.
    Loader classes (CommentedMap, ScalarInt, SingleQuotedScalarString...) are mapped to their base
    type: the YAML spelling of a value is not part of the play's content."""
    if x is None:
        return ["z"]
    if isinstance(x, bool) or type(x).__name__ == "ScalarBoolean":
        # the loader turns an anchored `&a true` into ScalarBoolean, an int subclass: its content is a boolean
        return ["b", bool(x)]
    if isinstance(x, int):
        return ["i", int(x)]
    if isinstance(x, float):
        return ["f", repr(float(x))]
    if isinstance(x, str):
        return ["s", str(x)]
    if isinstance(x, dict):
        return ["m", [[enc(k), enc(v)] for k, v in x.items()]]
    if isinstance(x, list):
        return ["l", [enc(v) for v in x]]
    if isinstance(x, tuple):
        return ["t", [enc(v) for v in x]]
    if isinstance(x, (bytes, bytearray)):
        return ["o", "bytes", bytes(x).hex()]
    if isinstance(x, (datetime.date, datetime.datetime)):
        return ["o", "datetime" if isinstance(x, datetime.datetime) else "date", x.isoformat()]
    if type(x).__name__ == "TaggedScalar":          # `!unsafe text`: content = tag + text
        tag = getattr(x, "tag", None)
        return ["o", "tagged", str(getattr(tag, "value", tag)), str(getattr(x, "value", ""))]
    return ["o", type(x).__name__, re.sub(r" at 0x[0-9a-f]+", "", str(x))]


def dec(e, mk=dict):
    """Typed encoding -> fresh Python objects; mappings are built with `mk` (dict / OrderedDict)."""
    t = e[0]
    if t == "z":
        return None
    if t == "b":
        return bool(e[1])
    if t == "i":
        return int(e[1])
    if t == "f":
        return float(e[1])
    if t == "s":
        return e[1]
    if t == "l":
        return [dec(v, mk) for v in e[1]]
    if t == "m":
        d = mk()
        for k, v in e[1]:
            kk = dec(k, mk)
            if kk in d:
                raise ValueError("encoding has keys that are equal as dict keys: %r" % (e,))
            d[kk] = dec(v, mk)
        return d
    if t == "t":
        return tuple(dec(v, mk) for v in e[1])
    if t == "o" and e[1] == "bytes":
        return bytes.fromhex(e[2])
    if t == "o" and e[1] == "date":
        return datetime.date.fromisoformat(e[2])
    if t == "o" and e[1] == "datetime":
        return datetime.datetime.fromisoformat(e[2])
    raise ValueError("cannot decode %r" % (e,))


# ---- shared containers: ["def", name, value] places a container and names it, ["ref", name] places the SAME object again

def has_sharing(e):
    t = e[0]
    if t in ("def", "ref"):
        return True
    if t == "l":
        return any(has_sharing(v) for v in e[1])
    if t == "m":
        return any(has_sharing(k) or has_sharing(v) for k, v in e[1])
    return False


def expand(e, env=None):
    """The content of an encoding with def / ref nodes: every reference written out (document order)."""
    env = {} if env is None else env
    t = e[0]
    if t == "def":
        v = expand(e[2], env)
        env[e[1]] = v
        return v
    if t == "ref":
        return json.loads(json.dumps(env[e[1]]))
    if t == "l":
        return ["l", [expand(v, env) for v in e[1]]]
    if t == "m":
        return ["m", [[expand(k, env), expand(v, env)] for k, v in e[1]]]
    return e


def dec_shared(e, mk=dict, env=None):
    """Objects for an encoding with def / ref nodes; a ref yields the very object its def produced."""
    env = {} if env is None else env
    t = e[0]
    if t == "def":
        v = dec_shared(e[2], mk, env)
        env[e[1]] = v
        return v
    if t == "ref":
        return env[e[1]]
    if t == "l":
        return [dec_shared(v, mk, env) for v in e[1]]
    if t == "m":
        d = mk()
        for k, v in e[1]:
            d[dec(k, mk)] = dec_shared(v, mk, env)
        return d
    return dec(e, mk)


def fp(e):
    """Structural fingerprint of an *encoding* (canonical text; order, types, nesting all count)."""
    return json.dumps(e, ensure_ascii=True, separators=(",", ":"))


def fp_obj(x):
    return fp(enc(x))


# shorthand constructors used by the enumerators
def S(t):
    return ["s", t]


def I(n):
    return ["i", n]


def B(b):
    return ["b", b]


Z = ["z"]


def F(x):
    return ["f", repr(float(x))]


def L(*vs):
    return ["l", list(vs)]


def M(*pairs):
    return ["m", [[k, v] for k, v in pairs]]


def dict_key_id(kenc):
    """Two keys with the same id cannot live in one Python dict (1 == True == 1.0)."""
    t = kenc[0]
    if t in ("b", "i"):
        return ("n", float(kenc[1]))
    if t == "f":
        return ("n", float(kenc[1]))
    if t == "z":
        return ("z",)
    if t == "o":
        return ("o", kenc[1], kenc[2])
    return ("s", kenc[1])


def valid_mapping(pairs):
    ids = [dict_key_id(k) for k, _ in pairs]
    return len(set(ids)) == len(ids)


def m_get(e, key):
    """value encoding of str key `key` in mapping encoding e, or None"""
    if e[0] != "m":
        return None
    for k, v in e[1]:
        if k == ["s", key]:
            return v
    return None


# ---- reference model of the exclusion rule -------------------------------------------------------
#
# What the statement says, nothing more:
#   * only 'hosts' and 'vars', or a direct child of them, can be excluded; any other request is an error
#   * a missing exclusion list, a missing signature (and, through verify_play, a missing vars section) is an error
# Left open by the statement and therefore accepted either way ("either"): an empty request (empty string,
# trailing comma), a request in non-canonical path syntax that would be valid when empty components are dropped
# (`hosts//x`, `vars/x`, `/hosts/`), a valid request whose target does not exist, blanks around a request or label that would be valid without them.

def parse_request(req):
    comps = [c for c in req.split("/") if c != ""]
    canonical = "/" + "/".join(comps)
    return comps, (req == canonical)


def ref_exclusion(play_e):
    """play_e: typed encoding of a play (mapping).
    Returns (status, reason, remainder_encoding_or_None)
       status 'ok'      the exclusion must succeed and leave exactly `remainder`
              'error'   PlaybookVerificationError is required (reason names the rule)
              'reject'  some exception is required (ill-typed input: the class of the error is not stated)
              'either'  error or success-with-`remainder` are both acceptable
    """
    vars_e = m_get(play_e, "vars")
    if vars_e is None:
        return ("error", "missing_vars", None)
    if vars_e[0] != "m":
        return ("reject", "vars_not_mapping", None)
    sig = m_get(vars_e, SIG)
    exc = m_get(vars_e, EXC)
    if sig is None:
        return ("error", "missing_signature", None)
    if exc is None:
        return ("error", "missing_exclusion_list", None)
    if exc[0] != "s":
        return ("reject", "exclusion_list_not_string", None)
    if sig == Z:
        # "a missing signature is a verification error": a null signature is no signature; the play must not get
        # through verify_play, the class of the error is left open (tightened from 'either' in the audit)
        return ("reject", "null_signature", None)
    soft = None
    work = json.loads(json.dumps(play_e))          # deep copy of the encoding
    for req in exc[1].split(","):
        comps, canonical = parse_request(req)
        if not comps:
            soft = soft or "empty_request"
            continue
        if comps[0] not in LABELS or len(comps) > 2:
            # the statement is silent about blanks around a request or a label: an implementation that strips them
            # and then finds a valid request may accept it; anything else is an error
            loose = [c.strip() for c in req.strip().split("/") if c.strip() != ""]
            if loose != comps and loose and loose[0] in LABELS and len(loose) <= 2:
                soft = soft or "blanks_around_labels"
                _delete(work, loose)
                continue
            if comps[0] not in LABELS:
                return ("error", "parent_not_dynamic_label", None)
            return ("error", "deeper_than_direct_child", None)
        if not canonical:
            soft = soft or "non_canonical_path"
        if not _delete(work, comps):
            soft = soft or "target_absent"
    if soft:
        return ("either", soft, work)
    return ("ok", "valid", work)


def _delete(work, comps):
    cur = work
    for c in comps[:-1]:
        nxt = m_get(cur, c)
        if nxt is None or nxt[0] != "m":
            return False
        cur = nxt
    if cur[0] != "m":
        return False
    for idx, (k, _) in enumerate(cur[1]):
        if k == ["s", comps[-1]]:
            del cur[1][idx]
            return True
    return False


# ---- YAML rendering -----------------------------------------------------------------------------

_PLAIN_OK = set("abcdefghijklmnopqrstuvwxyz")
_RESERVED_PLAIN = {"y", "n", "yes", "no", "on", "off", "true", "false", "null"}


def _yscalar(e, style):
    t = e[0]
    if t == "z":
        return "null" if style != "block" else "~"
    if t == "b":
        return "true" if e[1] else "false"
    if t == "i":
        return str(e[1])
    if t == "f":
        x = float(e[1])
        if x != x:
            return ".nan"
        if x in (float("inf"), float("-inf")):
            return ".inf" if x > 0 else "-.inf"
        return repr(x)
    if t == "s":
        s = e[1]
        if style == "block":
            if s and set(s) <= _PLAIN_OK and s not in _RESERVED_PLAIN:
                return s                                              # plain scalar -> str
            if all(32 <= ord(c) < 127 for c in s):
                return "'" + s.replace("'", "''") + "'"               # SingleQuotedScalarString
        return json.dumps(s, ensure_ascii=True).replace("\x7f", "\\x7f")      # DoubleQuotedScalarString
    if t == "o" and e[1] == "bytes":
        import base64
        return "!!binary " + base64.b64encode(bytes.fromhex(e[2])).decode()
    if t == "o" and e[1] in ("date", "datetime"):
        return e[2]
    raise ValueError("no YAML rendering for %r" % (e,))


def _yflow(e, style):
    t = e[0]
    if t == "def":
        return "&%s %s" % (e[1], _yflow(e[2], style))
    if t == "ref":
        return "*%s" % e[1]
    if t == "l":
        return "[" + ", ".join(_yflow(v, style) for v in e[1]) + "]"
    if t == "m":
        return "{" + ", ".join("%s: %s" % (_yscalar(k, style), _yflow(v, style)) for k, v in e[1]) + "}"
    return _yscalar(e, style)


def to_yaml(play_e, style="flow"):
    """One-play playbook text.  style 'flow': the play is one flow mapping, strings double-quoted.
    style 'block': block mapping at the top and for the vars section, flow below; plain / single-quoted strings
    where YAML allows."""
    assert play_e[0] == "m"
    if style == "flow" or not play_e[1]:
        return "- " + _yflow(play_e, "flow") + "\n"
    out = []
    first = True
    for k, v in play_e[1]:
        lead = "- " if first else "  "
        first = False
        if v[0] == "m" and v[1] and k == ["s", "vars"]:
            out.append("%s%s:" % (lead, _yscalar(k, style)))
            for k2, v2 in v[1]:
                out.append("    %s: %s" % (_yscalar(k2, style), _yflow(v2, style)))
        else:
            out.append("%s%s: %s" % (lead, _yscalar(k, style), _yflow(v, style)))
    return "\n".join(out) + "\n"


# ---- collision classifier (produces the narrow `features` of a digest:injective violation) -----------

def _san(e, full):
    """Same structure with every mapping key replaced by a delimiter-free token.
    full=True : token determined by (type, text) -> keys become injective and harmless
    full=False: token determined by the text str.format() gives the key -> type differences stay invisible"""
    t = e[0]
    if t == "l":
        return ["l", [_san(v, full) for v in e[1]]]
    if t == "m":
        out = []
        for k, v in e[1]:
            text = format(dec(k))
            tag = (k[0] + ":" if full else "") + text
            out.append([["s", "K" + tag.encode("utf-8").hex()], _san(v, full)])
        return ["m", out]
    return e


def _first_diff(a, b):
    if a[0] != b[0]:
        return "value_type_%s_vs_%s" % tuple(sorted([_tn(a), _tn(b)]))
    t = a[0]
    if t == "l":
        if len(a[1]) != len(b[1]):
            return "list_length_or_nesting"
        for x, y in zip(a[1], b[1]):
            d = _first_diff(x, y)
            if d:
                return d
        return None
    if t == "m":
        ka, kb = [k for k, _ in a[1]], [k for k, _ in b[1]]
        if ka != kb:
            if len(ka) != len(kb):
                return "mapping_size_or_nesting"
            if sorted(map(fp, ka)) == sorted(map(fp, kb)):
                return "mapping_order"
            return "mapping_keys"
        for (_, x), (_, y) in zip(a[1], b[1]):
            d = _first_diff(x, y)
            if d:
                return d
        return None
    if a == b:
        return None
    if t == "s":
        both = a[1] + b[1]
        if any(ord(c) < 0x20 or 0x7f <= ord(c) < 0xa0 for c in both):
            return "string_control_character_escaping"
        if "\\" in both:
            return "string_backslash_escaping"
        if "'" in both or '"' in both:
            return "string_quote_escaping"
        return "string_text"
    return "scalar_value_%s" % _tn(a)


def _tn(e):
    if e[0] == "o":
        return "other_" + e[1]
    return _TN.get(e[0], e[0])


_TN = {"z": "null", "b": "bool", "i": "int", "f": "float", "s": "str", "l": "list", "m": "mapping", "o": "other", "t": "tuple"}



def _nonstr_key_types(e, acc):
    if e[0] == "l":
        for v in e[1]:
            _nonstr_key_types(v, acc)
    elif e[0] == "m":
        for k, v in e[1]:
            if k[0] != "s":
                acc.add(_tn(k))
            _nonstr_key_types(v, acc)
    return acc


def classify_collision(ra, rb, digest_of_remainder):
    """ra, rb: encodings of two structurally different remainders with equal digests.
    digest_of_remainder(encoding) runs the real serialiser + hash on a remainder.
    The classification is causal: the collision is attributed to key rendering iff it disappears when
    keys are replaced by harmless injective tokens (using the real code again)."""
    try:
        full = digest_of_remainder(_san(ra, True)) != digest_of_remainder(_san(rb, True))
    except Exception:
        full = False
    if full:
        try:
            typed_only = digest_of_remainder(_san(ra, False)) == digest_of_remainder(_san(rb, False))
        except Exception:
            typed_only = False
        if typed_only:
            kt = sorted(_nonstr_key_types(ra, set()) | _nonstr_key_types(rb, set()))
            return {"collision_via": "key_type_nonstr_vs_str", "key_types": "+".join(kt)}
        return {"collision_via": "unquoted_key_text"}
    return {"collision_via": _first_diff(ra, rb) or "unknown"}


def odict():
    return collections.OrderedDict()
