"""Child side of the C10 hash-seed sweep: started as `/venv/bin/python harness/c10_child.py` with
PYTHONHASHSEED=<k> in the environment, reads {"repo", "verif", "cases"} as JSON from the file named by argv[1], cleans
every case with a fresh Cleaner (plain str keys - the order is this interpreter's own set order)
and prints {"hashseed", "results": [{"observed", "out", "calls"}, ...]} as JSON on stdout."""
import json
import logging
import os
import sys


def main():
    with open(sys.argv[1]) as fh:
        doc = json.load(fh)
    sys.dont_write_bytecode = True
    sys.path.insert(0, doc["verif"])
    sys.path.insert(0, doc["repo"])
    logging.disable(logging.CRITICAL)
    from harness import c10_lib
    results = [c10_lib.run_plain(case) for case in doc["cases"]]
    sys.stdout.write(json.dumps({"hashseed": os.environ.get("PYTHONHASHSEED"), "results": results}))


if __name__ == "__main__":
    main()
