"""Child side of the C10 hash-seed sweep: started as `/venv/bin/python harness/c10_child.py` with
PYTHONHASHSEED=<k> in the environment, reads {"repo", "verif", "cases"} as JSON from the file named by argv[1], cleans
every case with a fresh Cleaner (plain str keys - the order is this interpreter's own set order)
and prints {"hashseed", "results": [{"observed", "out", "calls"}, ...]} as JSON on stdout.

With {"histories": [[step, ...], ...]} instead of "cases" (part D): this interpreter imports the cleaner package and never
builds a Cleaner itself; every history is executed in its own fork()ed copy of this PRISTINE interpreter (so a history sees
exactly the process state its own steps produced, nothing of another history) - every step on a fresh Cleaner - and
"results" is the list of [output per step] in the order of the histories."""
import json
import logging
import os
import sys


def _in_fork(fn):
    """fn() in a forked copy of this process -> its JSON-serialisable result (an exception there is raised here)."""
    r, w = os.pipe()
    pid = os.fork()
    if pid == 0:
        code = 0
        try:
            os.close(r)
            try:
                data = json.dumps({"ok": fn()})
            except BaseException:
                import traceback
                data = json.dumps({"error": traceback.format_exc()})
            with os.fdopen(w, "w") as fh:
                fh.write(data)
        except BaseException:
            code = 3
        finally:
            os._exit(code)
    os.close(w)
    with os.fdopen(r) as fh:
        data = fh.read()
    _, status = os.waitpid(pid, 0)
    if status != 0 or not data:
        raise RuntimeError("forked history process ended with status %r" % (status,))
    doc = json.loads(data)
    if "error" in doc:
        raise RuntimeError("history failed in the forked process:\n%s" % doc["error"])
    return doc["ok"]


def main():
    with open(sys.argv[1]) as fh:
        doc = json.load(fh)
    sys.dont_write_bytecode = True
    sys.path.insert(0, doc["verif"])
    sys.path.insert(0, doc["repo"])
    logging.disable(logging.CRITICAL)
    from harness import c10_lib
    if "histories" in doc:
        import insights.cleaner  # noqa: F401  (loaded once; no Cleaner object exists before a history starts)
        results = [_in_fork(lambda h=h: c10_lib.run_history(h)) for h in doc["histories"]]
    else:
        results = [c10_lib.run_plain(case) for case in doc["cases"]]
    sys.stdout.write(json.dumps({"hashseed": os.environ.get("PYTHONHASHSEED"), "results": results}))


if __name__ == "__main__":
    main()
