"""C06 helpers: directory universes with symlinks, file-system snapshots, a process-wide audit
hook (installed once), a recording HostContext (never executes anything) and clean-up of the
global registries the spec factories write into.  Nothing here decides a verdict."""
import contextlib
import os
import sys

# ---------------------------------------------------------------------------------------------
# directory universe  T/{root, root2, other}
# ---------------------------------------------------------------------------------------------

FILES = ["root/f", "root/d/f", "root2/secret", "other/secret", "secret"]
LINK_LOCS = ["l", "d/l"]           # relative to root
HERMETIC = ["q1", "q2", "q3", "q4", "q5", "q6"]


def marker(rel):
    """Content of the file at T/<rel>: names its own physical location (second, independent
    formulation of 'which file was served')."""
    return "AT %s" % rel


def build_universe(base, links=(), extra_files=()):
    """Creates base/q1/../q6/T/... ; links = [[location-relative-to-root, target], ...] where the target may use
    the placeholders {T} and {B} (= parent directory of T). Returns (T, root)."""
    # T sits six levels below the scratch base so that no path within the enumeration bounds ('..' segments,
    # links to ancestors) can ever leave the scratch area: the universe is hermetic and machine independent.
    P = os.path.join(base, *HERMETIC)
    T = os.path.join(P, "T")
    for d in ("root/d", "root2", "other"):
        os.makedirs(os.path.join(T, d))
    for rel in list(FILES) + list(extra_files):
        p = os.path.join(T, rel)
        os.makedirs(os.path.dirname(p), exist_ok=True)
        with open(p, "w") as fh:
            fh.write(marker(rel) + "\nsecond line\n")
    root = os.path.join(T, "root")
    os.symlink("root", os.path.join(T, "rootlink"))        # the root can be handed to a context as a symlink
    for loc, target in links:
        os.symlink(target.replace("{T}", T).replace("{B}", P), os.path.join(root, loc))
    return T, root


def snapshot(top):
    """{relative path: kind} of everything below top, links not followed."""
    out = {}
    for dp, dns, fns in os.walk(top, followlinks=False):
        for n in dns + fns:
            p = os.path.join(dp, n)
            rel = os.path.relpath(p, top)
            if os.path.islink(p):
                out[rel] = "link"
            elif os.path.isdir(p):
                out[rel] = "dir"
            else:
                out[rel] = "file"
    return out


def snapshot_full(top):
    """{relative path: (kind, payload)} below top, links not followed; payload = link target / file bytes / None."""
    out = {}
    for dp, dns, fns in os.walk(top, followlinks=False):
        for n in dns + fns:
            p = os.path.join(dp, n)
            rel = os.path.relpath(p, top)
            if os.path.islink(p):
                out[rel] = ("link", os.readlink(p))
            elif os.path.isdir(p):
                out[rel] = ("dir", None)
            else:
                try:
                    with open(p, "rb") as fh:
                        out[rel] = ("file", fh.read(65536))
                except OSError as ex:
                    out[rel] = ("file", "unreadable:%s" % type(ex).__name__)
    return out


@contextlib.contextmanager
def quiet_stderr():
    """Child processes started by the code under test (`cp` of RawFileProvider.write) inherit fd 2; their complaints
    (e.g. destination is not a directory) must not end up in the check's output."""
    sys.stderr.flush()
    saved = os.dup(2)
    devnull = os.open(os.devnull, os.O_WRONLY)
    try:
        os.dup2(devnull, 2)
        yield
    finally:
        os.dup2(saved, 2)
        os.close(saved)
        os.close(devnull)


def beneath(path, top):
    """Component-wise containment of two *real* (already resolved / normalised) absolute paths."""
    try:
        return os.path.commonpath([path, top]) == top
    except ValueError:
        return False


# ---------------------------------------------------------------------------------------------
# audit hook: open(), directory listings and process creation, reported to the active sink
# ---------------------------------------------------------------------------------------------

_A = {"installed": False, "sink": None, "prefix": None}


def _hook(event, args):
    sink = _A["sink"]
    if sink is None:
        return
    try:
        if event == "open":
            p = args[0]
            if isinstance(p, bytes):
                p = os.fsdecode(p)
            if isinstance(p, str) and p.startswith(_A["prefix"]):
                sink.append(("open", p))
        elif event == "subprocess.Popen":
            sink.append(("exec", [os.fsdecode(a) if isinstance(a, bytes) else str(a) for a in (args[1] or [])]))
        elif event in ("os.system", "os.exec", "os.posix_spawn", "os.spawn"):
            sink.append(("exec", [repr(a) for a in args]))
    except Exception:       # an audit hook must never interfere
        pass


@contextlib.contextmanager
def audit(prefix):
    if not _A["installed"]:
        sys.addaudithook(_hook)
        _A["installed"] = True
    sink = []
    _A["prefix"] = prefix
    _A["sink"] = sink
    try:
        yield sink
    finally:
        _A["sink"] = None
        _A["prefix"] = None


# ---------------------------------------------------------------------------------------------
# recording execution context
# ---------------------------------------------------------------------------------------------

CANNED = "canned line one\ncanned line two\n"
_REC = {}


def recording_context_class():
    """HostContext subclass whose shell_out / check_output / connect / stream log their argument
    and return canned output.  Nothing is ever executed through it."""
    if "cls" in _REC:
        return _REC["cls"]
    from insights.core.context import HostContext

    class RecordingHostContext(HostContext):
        def __init__(self, root="/", timeout=30, all_files=None, log=None):
            super(RecordingHostContext, self).__init__(root=root, timeout=timeout, all_files=all_files)
            self.log = log if log is not None else []

        def check_output(self, cmd, timeout=None, keep_rc=False, env=None, signum=None):
            self.log.append(("check_output", cmd))
            return (0, CANNED) if keep_rc else CANNED

        def shell_out(self, cmd, split=True, timeout=None, keep_rc=False, env=None, signum=None):
            self.log.append(("shell_out", cmd))
            out = CANNED.splitlines() if split else CANNED
            return (0, out) if keep_rc else out

        @contextlib.contextmanager
        def connect(self, *args, **kwargs):
            self.log.append(("connect", list(args)))
            yield iter(CANNED.splitlines(True))

        @contextlib.contextmanager
        def stream(self, *args, **kwargs):
            self.log.append(("stream", list(args)))
            yield iter(CANNED.splitlines(True))

    _REC["cls"] = RecordingHostContext
    return RecordingHostContext


def logged_command_lines(log):
    """Command lines (strings) and argument vectors found in a recording-context log.
    A logged command is a list of argv lists (pipeline) or one argv list or a string."""
    lines = []
    argvs = []
    for _how, cmd in log:
        stages = cmd
        if isinstance(cmd, str):
            stages = [cmd.split()]
        elif cmd and not isinstance(cmd[0], (list, tuple)):
            stages = [cmd]
        for st in stages:
            st = [str(x) for x in st]
            argvs.append(st)
            lines.append(" ".join(st))
    return lines, argvs


# ---------------------------------------------------------------------------------------------
# global registries
# ---------------------------------------------------------------------------------------------

def purge_components(comps, names=()):
    """Removes freshly created components from every dr / filters registry."""
    from insights.core import dr, filters
    for c in comps:
        d = dr.DELEGATES.pop(c, None)
        deps = set(dr.DEPENDENCIES.pop(c, ()) or ())
        if d is not None:
            deps |= set(d.dependencies)
        for dep in deps:
            s = dr.DEPENDENTS.get(dep)
            if s is not None:
                s.discard(c)
        dr.DEPENDENTS.pop(c, None)
        for g in dr.COMPONENTS.values():
            g.pop(c, None)
        for s in dr.COMPONENTS_BY_TYPE.values():
            s.discard(c)
        dr.MODULE_NAMES.pop(c, None)
        dr.BASE_MODULE_NAMES.pop(c, None)
        dr.ENABLED.pop(c, None)
        dr.IGNORE.pop(c, None)
        dr.HIDDEN.discard(c)
        for tbl in _filter_dicts(filters):      # FILTERS and whatever look-up caches the module keeps
            tbl.pop(c, None)
    for n in names:
        dr.COMPONENTS_BY_NAME.pop(n, None)
        dr.COMPONENT_IMPORT_CACHE.pop(n, None)


def _module_tables(mod):
    """Module-level mutable containers (set / list / dict), found generically: no private name is spelled out here,
    so a refactoring that renames or adds a table does not break the snapshot."""
    out = {}
    for k, v in vars(mod).items():
        if k.startswith("__"):
            continue
        if isinstance(v, (set, list, dict)):
            out[k] = v
    return out


_FD = []


def _filter_dicts(filters):
    """dict-typed tables of the filters module, looked up once per process (hot path of the containment part; a stale
    entry keyed by a dead harness component is harmless)."""
    if not _FD:
        _FD.extend(t for t in _module_tables(filters).values() if isinstance(t, dict))
    return _FD


def _copy(v):
    if isinstance(v, dict):
        return dict((k, (_copy(x) if isinstance(x, (set, list, dict)) else x)) for k, x in v.items())
    return type(v)(v)


def _restore(tbl, old):
    if isinstance(tbl, dict):
        tbl.clear()
        tbl.update(_copy(old))
    elif isinstance(tbl, set):
        tbl.clear()
        tbl.update(old)
    else:
        del tbl[:]                      # in place: other modules import the same list object
        tbl.extend(old)


class GlobalState(object):
    """Snapshot / restore of every module-level table of insights.core.blacklist and insights.core.filters
    (deny tables, BLACKLISTED_SPECS, filter registry and caches), of dr.ENABLED and of the by-name look-up caches."""

    def __enter__(self):
        from insights.core import blacklist, dr, filters
        self.saved = []
        for mod in (blacklist, filters):
            for k, tbl in _module_tables(mod).items():
                self.saved.append((tbl, _copy(tbl)))
        self.enabled_obj = dr.ENABLED           # insights.apply_default_enabled REBINDS dr.ENABLED to a new defaultdict
        self.enabled = dict(dr.ENABLED)
        self.by_name = set(dr.COMPONENTS_BY_NAME)
        self.imp = set(dr.COMPONENT_IMPORT_CACHE)
        return self

    def __exit__(self, *exc):
        from insights.core import dr
        for tbl, old in self.saved:
            _restore(tbl, old)
        dr.ENABLED = self.enabled_obj
        dr.ENABLED.clear()
        dr.ENABLED.update(self.enabled)
        for n in set(dr.COMPONENTS_BY_NAME) - self.by_name:
            dr.COMPONENTS_BY_NAME.pop(n, None)
        for n in set(dr.COMPONENT_IMPORT_CACHE) - self.imp:
            dr.COMPONENT_IMPORT_CACHE.pop(n, None)
        return False
