"""C11 builder: generated spec components (registry point + implementation), a recording host
context, real collection with the Hydration persister into a scratch archive, real loading with
insights.core.hydration.initialize_broker, and removal of everything from the global registries.

A *spec descriptor* is plain JSON:

    {"kind": K, "save_as": "none"|"rename"|"dir", "elems": [{"n": name, "lines": [token, ...]}, ...]}

kinds with exactly one element (single-output registry point):
    text      simple_file -> TextFileProvider            raw       simple_file(kind=RawFileProvider)
    cmd_args  command_with_args (provider value = the element's "arg")
    cmd       simple_command (recorded context answers)  cmd_real  simple_command("/bin/cat <file>") really executed
    ds_list   @datasource -> DatasourceProvider(list)    ds_str    @datasource -> DatasourceProvider(str)
kinds with 1..n elements (multi_output registry point), element order = order of "elems":
    m_cmd     foreach_execute, str args                  m_cmd2    foreach_execute, tuple args
    m_text    foreach_collect -> TextFileProvider        m_raw     foreach_collect(kind=RawFileProvider)
    m_glob    glob_file (order = sorted path, the descriptor's elems are given in that order)
    m_ds      @datasource -> [DatasourceProvider, ...]
    cfile     container_collect -> ContainerFileProvider ccmd      container_execute -> ContainerCommandProvider
    fail      implementation raises ("exc": "value"|"content"|"called") - a failed component

Elements of m_cmd / m_cmd2 / ccmd / cmd_args may carry "arg": the value the argument provider yields for them
(any JSON value, a list stands for a tuple; default: the element name), "placeholders": number of %s in the template.

A line token is the literal line, except "@LONG" = a 70 000 character line.  Files and command
outputs are rendered with every line terminated by "\\n".
"""
import contextlib
import itertools
import json
import os
import shlex
import shutil

LONG = ("abcdefghi" + "ü") * 7000          # 70 000 characters, 77 000 bytes; a 2-byte character straddles byte 32768
TOKENS = ["", "a", " lead", "trail ", "tab\tx", "ü", "日本", "\U0001d11e", "\x0c", "\ufeffbom", "@LONG"]
# "\ufeffbom": U+FEFF is neither a line break nor a surrogate; a reader using a BOM-stripping codec loses it on a first line
SINGLE = ("text", "raw", "cmd", "cmd_real", "cmd_args", "ds_list", "ds_str")
MODULE = "verif_c11"

_SERIAL = itertools.count(1)
_ENV = None


def expand(tok):
    return LONG if tok == "@LONG" else tok


def text_of(lines):
    return "".join(expand(l) + "\n" for l in lines)


class Env(object):
    pass


def env():
    """Imports insights lazily and builds the helper classes once per process."""
    global _ENV
    if _ENV is not None:
        return _ENV
    from insights.core import dr, filters, serde, spec_factory as sf
    from insights.core import hydration
    from insights.core.context import HostContext, SerializedArchiveContext
    from insights.core.exceptions import ContentException
    from insights.core.plugins import datasource
    from insights.util.subproc import CalledProcessError

    import sys
    import types
    sys.modules.setdefault(MODULE, types.ModuleType(MODULE))     # inspect.getmodule() of generated components is then O(1)
    e = Env()
    e.dr, e.filters, e.serde, e.sf, e.hydration = dr, filters, serde, sf, hydration
    e.HostContext, e.SerializedArchiveContext = HostContext, SerializedArchiveContext
    e.ContentException, e.datasource, e.CalledProcessError = ContentException, datasource, CalledProcessError

    class RecCtx(HostContext):
        """Host context whose commands never execute: the answer comes from a per-archive table.
        Commands that are not in the table (cmd_real) are executed for real."""

        def __init__(self, root, table):
            super(RecCtx, self).__init__(root=root)
            self.table = table

        def check_output(self, cmd, timeout=None, keep_rc=False, env=None, signum=None):
            key = " | ".join(" ".join(c) for c in cmd)
            if key not in self.table:
                return super(RecCtx, self).check_output(cmd, timeout=timeout, keep_rc=keep_rc, env=env, signum=signum)
            out = self.table[key]
            if isinstance(out, tuple):
                raise CalledProcessError(out[1], key, "recorded failure")
            return (0, out) if keep_rc else out

    e.RecCtx = RecCtx
    e.calls = {}

    def counted(cls):
        def __call__(self, broker):
            e.calls[self] = e.calls.get(self, 0) + 1
            return cls.__call__(self, broker)
        return type(cls.__name__, (cls,), {"__call__": __call__})

    for n in ("first_of", "simple_file", "simple_command", "command_with_args", "foreach_execute", "foreach_collect", "glob_file",
              "container_collect", "container_execute"):
        setattr(e, n, counted(getattr(sf, n)))
    _ENV = e
    return e


class OrderedPool(object):
    """Deterministic stand-in for the executor handed to Hydration (serde.marshal calls `pool.map`).

    Like concurrent.futures.Executor.map it takes all tasks at call time and hands the results back in INPUT order;
    the tasks themselves are EXECUTED (and therefore complete) in the order `perm` says: perm[k] is the submission
    index of the task that runs k-th. Every completion order a real pool can produce for n tasks is one such
    permutation, so enumerating the permutations owns what is timing in a real ThreadPoolExecutor. Single-threaded:
    it models completion order, not data races inside a serializer. submit() queues; the queue is run (in perm
    order) when a result is first asked for."""

    def __init__(self, perm):
        self.perm = list(perm)
        self.log = []            # (number of tasks, execution order) per map call
        self._queue = []

    def _order(self, n):
        order = [i for i in self.perm if i < n]
        return order + [i for i in range(n) if i not in order]

    def map(self, fn, *iterables, **kw):
        tasks = list(zip(*iterables))
        out = [None] * len(tasks)
        order = self._order(len(tasks))
        self.log.append((len(tasks), order))
        for i in order:
            try:
                out[i] = (True, fn(*tasks[i]))
            except BaseException as ex:      # delivered when the consumer reaches it, as the real API does
                out[i] = (False, ex)

        def results():
            for ok, val in out:
                if not ok:
                    raise val
                yield val
        return results()

    def submit(self, fn, *a, **kw):
        from concurrent.futures import Future
        pool = self

        class F(Future):
            def result(self, timeout=None):
                pool._flush()
                return Future.result(self, timeout)

            def exception(self, timeout=None):
                pool._flush()
                return Future.exception(self, timeout)

            def done(self):
                pool._flush()
                return Future.done(self)
        f = F()
        self._queue.append((f, fn, a, kw))
        return f

    def _flush(self):
        q, self._queue = self._queue, []
        for i in self._order(len(q)):
            f, fn, a, kw = q[i]
            if f.set_running_or_notify_cancel():
                try:
                    f.set_result(fn(*a, **kw))
                except BaseException as ex:
                    f.set_exception(ex)

    def shutdown(self, wait=True, **kw):
        self._flush()

    def __enter__(self):
        return self

    def __exit__(self, *a):
        self.shutdown()
        return False


class Built(object):
    def __init__(self):
        self.specs = []
        self.points = []
        self.impls = []
        self.comps = []          # every generated component (for registry clean-up)
        self.classes = []
        self.table = {}
        self.vanish = []         # files removed after evaluation and before the persister sees their provider
        self.originals = None    # per spec: list of (content | None, cmd, args) captured after collection
        self.brokers = None      # per spec: the host broker that collected it
        self.hydration = None
        self.docs = None
        self.host_broker = None
        self.loaded_broker = None


def _arg_of(el, default):
    if "arg" not in el:
        return default
    a = el["arg"]
    return tuple(a) if isinstance(a, list) else a


def _answer(b, command, lines, raises=False):
    """Registers the recorded output of `command` (keyed the way RecCtx sees it: shlex words joined by blanks)."""
    key = " ".join(shlex.split(command))
    if key in b.table:
        raise ValueError("two elements produce the same command %r" % key)
    b.table[key] = ("raise", 3) if raises else text_of(lines)


def _save_as(mode, sid, n):
    if mode == "empty":          # falsy but given: behaves like "no save_as"
        return ""
    if mode == "slash":          # everything is stripped by the factories / normalised by the serializers
        return "/"
    if mode == "rename":
        return "ren/%s/out_%s" % (sid, n)
    if mode == "dir":
        return "dir/%s/" % sid
    return None


def build(specs, top, pool=None, cls_suffix=""):
    """Creates the host root, the generated components and the output directory. Nothing runs yet."""
    e = env()
    sf, datasource, HostContext = e.sf, e.datasource, e.HostContext
    b = Built()
    b.specs = specs
    b.top = top
    b.root = os.path.join(top, "root")
    b.out = os.path.join(top, "out")
    os.makedirs(b.root)
    os.makedirs(b.out)
    with open(os.path.join(b.out, "insights_archive.txt"), "w"):
        pass
    b.pool = pool
    serial = next(_SERIAL)
    points, impls, attrs, helpers = {}, {}, [], {}

    def write_file(rel, lines):
        p = os.path.join(b.root, rel.lstrip("/"))
        os.makedirs(os.path.dirname(p), exist_ok=True)
        with open(p, "wb") as fh:
            fh.write(text_of(lines).encode("utf-8"))
        return p

    def source(values, scalar=False):
        def src(broker):
            return values if scalar else list(values)
        src.__name__ = "src"
        src.__module__ = MODULE
        datasource(HostContext)(src)
        b.comps.append(src)
        return src

    def counted_fn(fn):
        def impl(broker):
            e.calls[impl] = e.calls.get(impl, 0) + 1
            return fn(broker)
        impl.__name__ = "impl"
        impl.__module__ = MODULE
        datasource(HostContext)(impl)
        return impl

    def make(spec, sid):
        """One datasource for a spec descriptor (the implementation of a registry point, or an alternative of first_of)."""
        kind, mode, elems = spec["kind"], spec.get("save_as", "none"), spec.get("elems", [])
        if kind in SINGLE and len(elems) != 1:
            raise ValueError("kind %s takes exactly one element" % kind)
        names = [el["n"] for el in elems]
        if kind == "first_of":
            alts = [make(a, "%sa%d" % (sid, k)) for k, a in enumerate(spec["alts"])]
            for k, a in enumerate(alts):
                helpers["h_%s_a%d" % (sid, k)] = a
            return e.first_of(alts)
        if kind in ("text", "raw"):
            if not spec.get("missing"):          # "missing": the file does not exist -> the datasource fails when evaluated
                fp = write_file("/src/%s/%s" % (sid, names[0]), elems[0]["lines"])
            impl = e.simple_file("/src/%s/%s" % (sid, names[0]), save_as=_save_as(mode, sid, names[0]), context=HostContext,
                                 kind=sf.RawFileProvider if kind == "raw" else sf.TextFileProvider)
            if spec.get("vanish") and not spec.get("missing"):
                b.vanish.append((impl, fp))      # "vanish": present when evaluated, gone when the persister reads it
        elif kind == "cmd":
            # "raises": the command fails (exit 3) when its output is first read, i.e. while the persister writes it
            b.table["/bin/echo %s" % sid] = ("raise", 3) if spec.get("raises") else text_of(elems[0]["lines"])
            impl = e.simple_command("/bin/echo %s" % sid, save_as=_save_as(mode, sid, names[0]), context=HostContext,
                                    keep_rc=bool(spec.get("keep_rc")), split=bool(spec.get("split", True)))
        elif kind == "cmd_real":
            p = write_file("/src/%s/%s" % (sid, names[0]), elems[0]["lines"])
            impl = e.simple_command("/bin/cat %s" % p, save_as=_save_as(mode, sid, names[0]), context=HostContext)
        elif kind in ("ds_list", "ds_str"):
            lines = [expand(l) for l in elems[0]["lines"]]
            content = lines if kind == "ds_list" else text_of(elems[0]["lines"])
            impl = counted_fn(lambda broker, content=content, sid=sid, n=names[0], mode=mode, with_ctx=bool(spec.get("ctx")): sf.DatasourceProvider(
                content=list(content) if isinstance(content, list) else content,
                relative_path="ds/%s/%s_%s" % (sid, n, sid), save_as=_save_as(mode, sid, n),     # base name unique per spec:
                ctx=broker[HostContext] if with_ctx else None))                                 # save_as "/" keeps only the base name
        elif kind == "m_ds":
            impl = counted_fn(lambda broker, elems=elems, sid=sid, mode=mode: [sf.DatasourceProvider(
                content=[expand(l) for l in el["lines"]], relative_path="ds/%s/%s" % (sid, el["n"]),
                save_as=_save_as(mode, sid, el["n"])) for el in elems])
        elif kind in ("m_cmd", "m_cmd2"):
            # an element may carry an explicit "arg" (JSON value; a list stands for a tuple); "placeholders" is the
            # number of %s in the command template (0 only makes sense with the empty tuple as argument)
            nph = spec.get("placeholders", 2 if kind == "m_cmd2" else 1)
            template = "/bin/echo %s" % sid + " %s" * nph
            vals = []
            for el in elems:
                a = _arg_of(el, (el["n"], "x") if kind == "m_cmd2" else el["n"])
                vals.append(a)
                _answer(b, template % a, el["lines"], raises=bool(el.get("raises")))
            src = source(vals)
            impl = e.foreach_execute(src, template, context=HostContext, keep_rc=bool(spec.get("keep_rc")))
        elif kind == "cmd_args":
            a = _arg_of(elems[0], names[0])
            template = "/bin/echo %s" % sid + " %s" * spec.get("placeholders", 1)
            _answer(b, template % a, elems[0]["lines"])
            src = source(a, scalar=True)
            impl = e.command_with_args(template, src, save_as=_save_as(mode, sid, names[0]), context=HostContext)
        elif kind in ("m_text", "m_raw"):
            for el in elems:
                write_file("/src/%s/%s" % (sid, el["n"]), el["lines"])
            src = source(names)
            impl = e.foreach_collect(src, "/src/%s/%%s" % sid, save_as=_save_as(mode, sid, "") if mode == "dir" else None,
                                     context=HostContext, kind=sf.RawFileProvider if kind == "m_raw" else sf.TextFileProvider)
        elif kind == "m_glob":
            if names != sorted(names):
                raise ValueError("m_glob elements must be listed in sorted name order")
            for el in elems:
                write_file("/src/%s/%s" % (sid, el["n"]), el["lines"])
            nested = [("/" in n) for n in names]
            if any(nested) and not all(nested):
                raise ValueError("m_glob: either all or no element names are nested")
            impl = e.glob_file("/src/%s/%s" % (sid, "*/*" if any(nested) else "*"), save_as=_save_as(mode, sid, "") if mode == "dir" else None, context=HostContext)
        elif kind == "cfile":
            for el in elems:
                b.table["/usr/bin/env exec cid%s%s cat /cpath/%s/%s" % (sid, el["n"], sid, el["n"])] = text_of(el["lines"])
            src = source([("img", "env", "cid%s%s" % (sid, n), "/cpath/%s/%s" % (sid, n)) for n in names])
            impl = e.container_collect(src, context=HostContext)
        elif kind == "ccmd":
            vals = []
            for el in elems:
                a = _arg_of(el, el["n"])
                cid = "cid%s%s" % (sid, el["n"])
                _answer(b, "/usr/bin/env exec %s %s" % (cid, ("/bin/echo %s %%s" % sid) % (a,)), el["lines"])
                vals.append(("img", "env", cid, a))
            src = source(vals)
            impl = e.container_execute(src, "/bin/echo %s %%s" % sid, context=HostContext)
        elif kind == "fail":
            def boom(broker, exc=spec.get("exc", "value"), sid=sid, msg=spec.get("msg", "")):
                # "msg": extra text of the exception (e.g. a file name that is not valid UTF-8)
                if exc == "content":
                    raise e.ContentException("boom-content-%s%s" % (sid, msg))
                if exc == "called":
                    raise e.CalledProcessError(3, "boom-cmd-%s%s" % (sid, msg), "boom-output%s" % msg)
                raise ValueError("boom-value-%s%s" % (sid, msg))
            impl = counted_fn(boom)
        else:
            raise ValueError("unknown kind %r" % kind)
        return impl

    def is_multi(spec):
        if spec["kind"] == "first_of":
            return is_multi(spec["alts"][0])
        return spec["kind"] not in SINGLE and spec["kind"] != "fail"

    for i, spec in enumerate(specs):
        kind = spec["kind"]
        attr = spec.get("attr") or "p%02d" % i
        if attr in points:
            raise ValueError("duplicate attribute name %r" % attr)
        attrs.append(attr)
        impl = make(spec, "s%02d" % i)
        points[attr] = sf.RegistryPoint(multi_output=is_multi(spec), raw=kind in ("raw", "m_raw") or not spec.get("split", True))
        impls[attr] = impl

    pts = dict(points)
    pts["__module__"] = MODULE
    S = type("S%06d%s" % (serial, cls_suffix), (sf.SpecSet,), pts)
    imp = dict(impls)
    imp.update(helpers)                  # alternatives of first_of: datasources of the class that implement no registry point
    b.comps.extend(helpers.values())
    imp["__module__"] = MODULE
    D = type("D%06d%s" % (serial, cls_suffix), (S,), imp)
    b.classes = [S, D]
    for attr in attrs:
        b.points.append(points[attr])
        b.impls.append(impls[attr])
    b.comps.extend(b.points)
    b.comps.extend(b.impls)
    return b


def graph_of(b):
    dr = env().dr
    g = {}
    for p in b.points:
        g.update(dr.get_dependency_graph(p))
    return g


def _content(e, prov):
    """The lines collection holds for a provider; None when reading them raises (empty under HostContext)."""
    try:
        c = prov.content
    except Exception:            # empty on a host, command failed, file vanished: collection holds no content
        return None
    return c if isinstance(c, (bytes, str)) else list(c)      # str: unsplit command output (split=False)


def collect(b, only=None):
    """Real evaluation with the Hydration persister observing the broker, as insights.collect does.
    only = spec indices to evaluate and persist in this run (default all); several runs may share the archive."""
    e = env()
    dr = e.dr
    idx = list(range(len(b.points))) if only is None else list(only)
    ctx = e.RecCtx(b.root, b.table)
    broker = dr.Broker()
    broker[e.HostContext] = ctx
    h = e.serde.Hydration(b.out, ctx, pool=b.pool)
    if b.vanish:
        def vanish(comp, broker):
            # fires right after the file's own datasource was evaluated, i.e. before its registry point is persisted
            for owner, fp in b.vanish:
                if owner is comp and os.path.exists(fp):
                    os.remove(fp)
        broker.add_observer(vanish)
    broker.add_observer(h.make_persister(set(b.points[i] for i in idx)))
    g = {}
    for i in idx:
        g.update(dr.get_dependency_graph(b.points[i]))
    dr.run(g, broker)
    b.ctx = ctx
    b.host_broker = broker
    b.hydration = h
    if b.originals is None:
        b.originals = [None] * len(b.points)
        b.docs = [None] * len(b.points)
        b.brokers = [None] * len(b.points)
    for i in idx:
        v = broker.get(b.points[i])
        provs = v if isinstance(v, list) else ([] if v is None else [v])
        b.originals[i] = {"is_list": isinstance(v, list),
                          "elems": [(_content(e, q), q.cmd, q.args) for q in provs]}
        b.brokers[i] = broker
    read_docs(b)
    return b


def read_docs(b):
    for i in range(len(b.points)):
        path = meta_path(b, i)
        doc = None
        if os.path.isfile(path):
            with open(path) as fh:
                doc = json.load(fh)
        b.docs[i] = doc


def expected_errors(b, i):
    """Tracebacks of every exception the collecting broker holds for spec i's registry point."""
    broker = b.brokers[i]
    if broker is None:
        return []
    return [broker.tracebacks.get(ex) for ex in broker.exceptions.get(b.points[i], [])]


def meta_path(b, i, out=None):
    return os.path.join(out or b.out, "meta_data", env().dr.get_name(b.points[i]) + ".json")


class _Scan(object):
    """What os.scandir returns (iterator + context manager + close), over a fixed list of DirEntry objects."""

    def __init__(self, entries):
        self._it = iter(entries)

    def __iter__(self):
        return self

    def __next__(self):
        return next(self._it)

    def close(self):
        pass

    def __enter__(self):
        return self

    def __exit__(self, *a):
        return False


@contextlib.contextmanager
def listing_order(directory, names_in_order):
    """Owns the directory iteration order of ONE directory: while active, os.scandir / os.listdir (and therefore
    glob.glob, os.walk) of `directory` yield the names in `names_in_order` first, in that order, then every other
    name sorted. The result is always a permutation of the real listing. tmpfs order depends on creation
    history, so without this a verdict could depend on how the archive copy was made."""
    real_scandir, real_listdir = os.scandir, os.listdir
    target = os.path.abspath(directory)
    rank = dict((n, k) for k, n in enumerate(names_in_order))

    def key(name):
        return (rank.get(name, len(rank)), name)

    def mine(path):
        return isinstance(path, str) and os.path.abspath(path) == target

    def scandir(path="."):
        if mine(path):
            with real_scandir(path) as it:
                return _Scan(sorted(it, key=lambda ent: key(ent.name)))
        return real_scandir(path)

    def listdir(path="."):
        if mine(path):
            return sorted(real_listdir(path), key=key)
        return real_listdir(path)

    os.scandir, os.listdir = scandir, listdir
    try:
        yield
    finally:
        os.scandir, os.listdir = real_scandir, real_listdir


def meta_names(b, order=None):
    """Names inside meta_data/ in the order hydrate is to see them: for each spec index of `order` an optional
    stray '<name>.junk' file directly followed by the spec's own entry."""
    dr = env().dr
    out = []
    for i in (range(len(b.points)) if order is None else order):
        n = dr.get_name(b.points[i])
        out.extend([n + ".junk", n + ".json"])
    return out


def load(b, out=None, order=None, broker=None, direct=False):
    """Real loading: archive detection + hydrate into a fresh (or the given) broker. The order in which hydrate
    meets the metadata entries is `order` (spec indices; default: index order).
    direct=True: Hydration(root, ctx).hydrate(broker) is called without initialize_broker."""
    e = env()
    out = out or b.out
    with listing_order(os.path.join(out, "meta_data"), meta_names(b, order)):
        if direct:
            ctx = e.SerializedArchiveContext(out)
            broker = e.serde.Hydration(root=out, ctx=ctx).hydrate(broker)
        else:
            ctx, broker = e.hydration.initialize_broker(out, broker=broker)
    return ctx, broker


def rerun(b, broker):
    """dr.run over the same graph on the hydrated broker; the host context is seeded additionally so
    that an implementation *could* run if the engine tried to. Returns the per-implementation call deltas."""
    e = env()
    before = dict(e.calls)
    broker[e.HostContext] = b.ctx
    e.dr.run(graph_of(b), broker)
    return [e.calls.get(impl, 0) - before.get(impl, 0) for impl in b.impls]


def _table(mod, name):
    return getattr(mod, name, None)


def cleanup(b):
    """Removes every generated component from every global table it may have reached. Tables are looked up by
    name and skipped when a refactoring removed them."""
    e = env()
    dr, filters = e.dr, e.filters
    comps = list(b.comps)
    cs = set(comps)
    dicts = [_table(dr, n) for n in ("DELEGATES", "DEPENDENCIES", "DEPENDENTS", "MODULE_NAMES", "BASE_MODULE_NAMES",
                                     "ENABLED", "IGNORE")]
    dicts += [_table(filters, n) for n in ("_CACHE", "FILTERS")]
    groups = _table(dr, "COMPONENTS")
    if isinstance(groups, dict):
        dicts += list(groups.values())
    for d in dicts:
        if isinstance(d, dict):
            for c in comps:
                d.pop(c, None)
    hidden = _table(dr, "HIDDEN")
    if isinstance(hidden, set):
        hidden -= cs
    by_type = _table(dr, "COMPONENTS_BY_TYPE")
    if isinstance(by_type, dict):
        for st in by_type.values():
            st -= cs
    deps = _table(dr, "DEPENDENTS")
    if isinstance(deps, dict) and e.HostContext in deps:
        deps[e.HostContext] -= cs
    by_name = _table(dr, "COMPONENTS_BY_NAME")
    if isinstance(by_name, dict):
        for k in [k for k in by_name if isinstance(k, str) and k.startswith(MODULE + ".")]:
            del by_name[k]
    for c in comps:
        e.calls.pop(c, None)
    b.comps = []
    b.host_broker = None
    b.brokers = None
    b.hydration = None


def copy_archive(b, dst):
    shutil.copytree(b.out, dst)
    return dst
