"""Component graphs built from JSON descriptors with the REAL decorators (C01-C04).

Descriptor
----------
{"nodes": [node, ...], "store_skips": bool}      nodes are listed in topological index order
node = {"t":   "plain" | "component" | "datasource" | "parser" | "combiner" | "rule" | "condition",
        "decl": [item, ...]        item = int (required dependency on node #i) | [int, ...] (at-least-one group)
        "opt":  [int, ...]         optional dependencies
        "out":  outcome            "value" | "none" | "list:<n>" (datasource/plain returning a list of n element values)
                                   | "skip" | "content" | "cpe" | "timeout" | "error" | "uneq"
        "elems": [outcome, ...]    multi-output parser only: outcome per element of the list it is fed
        "coe":  bool               parser only: continue_on_error (default True)
        "en":   bool               enabled (default True)
        "seed": bool               a value for the node is placed in the broker before evaluation
        "treq": [item, ...]        optional key: dependencies declared on the component TYPE (class attribute `requires` of an
                                   ad-hoc subclass of the node's type; items as in "decl"); they precede "decl" in declaration order
        "topt": [int, ...]         optional key: class attribute `optional` of that ad-hoc type; precedes "opt"}
Nodes with equal ("t", "treq", "topt") share ONE ad-hoc type (Graph.types[i] is the type object of node i).

Bodies are callable objects with a harness-chosen __hash__ (mc.forcedhash idea) so that every
iteration order of the engine's sets can be forced.  Each body appends ("invoke", idx, args) to
the graph's event log and then produces its outcome; a value is the tuple ("v", name, args) so
what a component would have produced is a pure function of its inputs.  DELEGATES[c].process is
wrapped per instance to log ("attempt", idx) / ("attempt-end", idx); a broker observer logs
("turn", idx).
"""
import sys
import types

from insights.core import dr
from insights.core import plugins
from insights.core.exceptions import (CalledProcessError, ContentException, SkipComponent,
                                      TimeoutException)

MODNAME = "verifgen"
if MODNAME not in sys.modules:
    sys.modules[MODNAME] = types.ModuleType(MODNAME)


_FALSY_SEEDS = {"zero": 0, "empty": "", "false": False}

class needs(dr.ComponentType):
    """A plain ComponentType subclass, as a user of the framework would define."""
    pass


TYPES = {"plain": needs, "component": plugins.component, "datasource": plugins.datasource,
         "parser": plugins.parser, "combiner": plugins.combiner, "rule": plugins.rule,
         "condition": plugins.condition}
POSITIONAL = ("plain", "component", "combiner", "rule", "condition")
FAULTS = ("skip", "content", "cpe", "timeout", "error", "uneq", "badstr", "blacklisted")


class UnEq(Exception):
    """An 'arbitrary exception': its class defines __eq__ (hence instances are unhashable)."""

    def __eq__(self, other):
        return isinstance(other, UnEq) and self.args == other.args


class BadStr(Exception):
    """An exception whose __str__ itself raises (logging / traceback formatting must cope)."""

    def __str__(self):
        raise RuntimeError("__str__ failed")


def make_exc(kind, name):
    if kind == "badstr":
        return BadStr("badstr %s" % name)
    if kind == "blacklisted":
        from insights.core.exceptions import BlacklistedSpec
        return BlacklistedSpec("blacklisted %s" % name)
    if kind == "skip":
        return SkipComponent("skip %s" % name)
    if kind == "content":
        return ContentException("content %s" % name)
    if kind == "cpe":
        return CalledProcessError(1, "cmd-%s" % name, "out")
    if kind == "timeout":
        return TimeoutException("timeout %s" % name)
    if kind == "error":
        return ValueError("boom %s" % name)
    if kind == "uneq":
        return UnEq("uneq %s" % name)
    raise ValueError(kind)


_counter = [0]


class Comp(object):
    """Callable component body with a forced hash."""

    def __init__(self, g, idx, name, h):
        self.g = g
        self.idx = idx
        self.__name__ = name
        self.__qualname__ = name
        self.__module__ = MODNAME
        self.__doc__ = None
        self._h = h

    def __hash__(self):
        return self._h

    def __eq__(self, other):
        return self is other

    def __ne__(self, other):
        return self is not other

    def __repr__(self):
        return "<%s>" % self.__name__

    def __call__(self, *args):
        return self.g._body(self, args)


def context_class(kind):
    from insights.core.context import HostContext, HostArchiveContext
    return {"host": HostContext, "archive": HostArchiveContext}[kind]


def make_registry_point(g, idx, name, h, nd):
    from insights.core import spec_factory

    class RegistryPoint(spec_factory.RegistryPoint):      # dr.is_registry_point() goes by the class NAME
        def __hash__(self):
            return self._h

        def __eq__(self, other):
            return self is other

        def __ne__(self, other):
            return self is not other
    RegistryPoint._h = h        # needed while the base __init__ registers the instance
    rp = RegistryPoint(multi_output=bool(nd.get("multi_output")), filterable=bool(nd.get("filterable")),
                       raw=bool(nd.get("raw")), prio=int(nd.get("prio", 0)))
    rp._h = h
    rp.__name__ = name
    rp.__qualname__ = name
    rp.__module__ = MODNAME
    rp.idx = idx
    rp.g = g
    return rp


class Graph(object):
    def __init__(self, desc, hashes=None, name_tag=None, name_order=None):
        self.desc = desc
        self.log = []              # ("attempt"|"attempt-end"|"invoke"|"turn"|"raise", idx, ...)
        self.raised = []           # (idx, exception instance, kind) for every exception a body raised
        self.nodes = []
        self.hook = None           # optional callable(event_tuple) used by the schedule explorer
        self.types = []            # per node: the ComponentType (sub)class it was decorated with (None for registry points)
        self._adhoc = {}           # (t, treq, topt) -> ad-hoc subclass carrying class-level requires / optional
        _counter[0] += 1
        tag = name_tag if name_tag is not None else "g%d" % _counter[0]
        n = len(desc["nodes"])
        hashes = list(hashes) if hashes is not None else list(range(n))
        for i, nd in enumerate(desc["nodes"]):
            if nd["t"] == "rp":
                rp = make_registry_point(self, i, "%s_n%d" % (tag, i), hashes[i], nd)
                self.nodes.append(rp)
                for j in nd.get("impl", []):
                    dr.add_dependency(rp, self.nodes[j])      # what SpecSetMeta does for an implementation
                if nd.get("en", True) is False:
                    dr.set_enabled(rp, False)
                self._wrap_process(rp, i)
                self.types.append(None)
                continue
            # name_order lets a driver make the lexicographic name order differ from the index
            # (= a topological) order, so "sorted by name" is not accidentally a valid schedule
            name = "%s_%s_n%d" % (tag, "zyxwvutsrq"[name_order[i]], i) if name_order else "%s_n%d" % (tag, i)
            c = Comp(self, i, name, hashes[i])
            self.nodes.append(c)
            T = TYPES[nd["t"]]
            if nd.get("treq") or nd.get("topt"):
                T = self._adhoc_type(T, nd)
            self.types.append(T)
            args = []
            for it in nd.get("decl", []):
                if isinstance(it, list):
                    args.append([self.nodes[j] for j in it])
                else:
                    args.append(self.nodes[it])
            if nd.get("ctx"):
                args.insert(0, context_class(nd["ctx"]))      # bound to an execution context, like a real spec
            kw = {}
            if nd.get("opt"):
                kw["optional"] = [self.nodes[j] for j in nd["opt"]]
            if nd["t"] == "parser":
                # parser.__init__ forwards only group to ComponentType.__init__ (no optional kw)
                deleg = T(*args, continue_on_error=nd.get("coe", True))
            else:
                deleg = T(*args, **kw)
            deleg(c)
            if nd.get("en", True) is False:
                dr.set_enabled(c, False)
            self._wrap_process(c, i)

    def _adhoc_type(self, base, nd):
        """A subclass of the node's component type that declares dependencies at CLASS level ("a list of components
        that all components decorated with this type will implicitly require / depend on optionally")."""
        key = repr((nd["t"], nd.get("treq") or [], nd.get("topt") or []))
        T = self._adhoc.get(key)
        if T is None:
            requires = []
            for it in nd.get("treq") or []:
                requires.append([self.nodes[j] for j in it] if isinstance(it, list) else self.nodes[it])
            optional = [self.nodes[j] for j in nd.get("topt") or []]
            T = type("typed_%s_%d" % (nd["t"], len(self._adhoc)), (base,), {"requires": requires, "optional": optional})
            self._adhoc[key] = T
        return T

    # ---- instrumentation ---------------------------------------------------------------------
    def _emit(self, ev):
        self.log.append(ev)
        if self.hook is not None:
            self.hook(ev)

    def _wrap_process(self, c, i):
        deleg = dr.DELEGATES[c]
        orig = deleg.process
        g = self

        def process(broker):
            g._emit(("attempt", i))
            try:
                return orig(broker)
            finally:
                g._emit(("attempt-end", i))
        deleg.process = process

    def _body(self, comp, args):
        i = comp.idx
        nd = self.desc["nodes"][i]
        t = nd["t"]
        if t == "datasource":
            broker = args[0]
            seen = tuple(broker.get(d) for d in dr.DELEGATES[comp].deps if getattr(d, "g", None) is self)
            logged = ("broker", seen)
        else:
            logged = args
        self._emit(("invoke", i, logged))
        out = nd.get("out", "value")
        if t == "parser" and nd.get("elems") is not None and self._is_element(args):
            k = args[0][3]
            out = nd["elems"][k] if k < len(nd["elems"]) else "value"
        if out == "value":
            return ("v", comp.__name__, logged) if t != "rule" else plugins.make_pass("K%d" % i, n=i)
        if out == "none":
            return None
        if out == "zero":
            return 0                         # a produced value that is falsy (not None)
        if out == "empty":
            return []
        if out.startswith("list:"):
            n = int(out.split(":")[1])
            return [("elem", comp.__name__, logged, k) for k in range(n)]
        ex = make_exc(out, comp.__name__)
        self.raised.append((i, ex, out))
        self._emit(("raise", i, out))
        raise ex

    @staticmethod
    def _is_element(args):
        return (len(args) == 1 and isinstance(args[0], tuple) and len(args[0]) == 4 and args[0][0] == "elem")

    # ---- running -------------------------------------------------------------------------------
    def seed_value(self, i):
        if self.desc["nodes"][i].get("seed") == "none":
            return None                      # a supplied value that happens to be None is still a supplied value
        if self.desc["nodes"][i].get("seed") in _FALSY_SEEDS:
            return _FALSY_SEEDS[self.desc["nodes"][i]["seed"]]    # falsy but real supplied values
        return ("seed", self.nodes[i].__name__)

    def make_broker(self, store_skips=None, observers=True, seeds=True, extra=None):
        b = dr.Broker()
        b.store_skips = bool(self.desc.get("store_skips", False) if store_skips is None else store_skips)
        if seeds:
            for i, nd in enumerate(self.desc["nodes"]):
                if nd.get("seed"):
                    b[self.nodes[i]] = self.seed_value(i)
        if extra:
            for k, v in extra.items():
                b[k] = v
        if observers:
            self.attach_observer(b)
        return b

    def attach_observer(self, b):
        g = self
        index = dict((c, i) for i, c in enumerate(self.nodes))

        def obs(comp, broker):
            if comp in index:
                g._emit(("turn", index[comp]))
        b.add_observer(obs)
        return obs

    def dep_graph(self, targets=None):
        """Dependency graph as the library computes it for the given target node indices
        (default: all nodes)."""
        targets = range(len(self.nodes)) if targets is None else targets
        graph = {}
        for t in targets:
            graph.update(dr.get_dependency_graph(self.nodes[t]))
        return graph

    def explicit_graph(self):
        return dict((c, set(dr.get_dependencies(c))) for c in self.nodes)

    def index(self, comp):
        return comp.idx if getattr(comp, "g", None) is self else None

    def cleanup(self):
        cleanup_components(self.nodes)
        for T in self._adhoc.values():
            dr.COMPONENTS_BY_TYPE.pop(T, None)
        self._adhoc = {}
        self.nodes = []


def cleanup_components(comps):
    cs = list(comps)
    for kind in ("host", "archive"):
        deps = dr.DEPENDENTS.get(context_class(kind))
        if deps:
            deps.difference_update(cs)
    for c in cs:
        deleg = dr.DELEGATES.get(c)
        for reg in (dr.DELEGATES, dr.DEPENDENCIES, dr.DEPENDENTS, dr.MODULE_NAMES,
                    dr.BASE_MODULE_NAMES, dr.ENABLED, dr.IGNORE):
            reg.pop(c, None)
        for grp in list(dr.COMPONENTS.keys()):
            dr.COMPONENTS[grp].pop(c, None)
        for v in dr.COMPONENTS_BY_TYPE.values():
            v.discard(c)
        dr.HIDDEN.discard(c)
        if deleg is not None:
            deleg.component = None
    # fresh nodes only ever appear as dependents of other fresh nodes or of nothing else


# ============================================================================================
# Reference evaluator of the documented dr semantics (boring on purpose)
# ============================================================================================

def flat_deps(nd):
    if nd["t"] == "rp":
        return list(nd.get("impl", []))
    out = []
    for it in list(nd.get("treq") or []) + list(nd.get("decl", [])):
        if isinstance(it, list):
            out.extend(it)
        else:
            out.append(it)
    out.extend(nd.get("topt") or [])
    out.extend(nd.get("opt", []) if nd["t"] != "parser" else [])
    return out


def all_deps(nd):
    return set(flat_deps(nd))


class RefNode(object):
    __slots__ = ("status", "present", "value", "args", "missing", "invocations", "faults")

    def __init__(self):
        self.status = None        # seeded | disabled | fired | missing | failed | outside
        self.present = False      # has an entry in the broker
        self.value = None         # expected structural value when present (None for a None return)
        self.args = None          # expected positional args of the (single) invocation
        self.missing = None       # (required idx list, [group idx lists])
        self.invocations = 0
        self.faults = []          # fault kinds the body raises, in order


def ref_value(name, logged):
    return ("v", name, logged)


def ref_eval(desc, names, in_graph=None):
    """Evaluates the descriptor by the documented rules. names[i] = component name of node i.
    in_graph: set of node indices that take part in the evaluation (default all)."""
    nodes = desc["nodes"]
    R = [RefNode() for _ in nodes]
    for i, nd in enumerate(nodes):
        r = R[i]
        t = nd["t"]
        if in_graph is not None and i not in in_graph:
            r.status = "outside"
            if nd.get("seed"):
                r.present = True
                r.value = (None if nd.get("seed") == "none" else _FALSY_SEEDS[nd["seed"]] if nd.get("seed") in _FALSY_SEEDS
                       else ("seed", names[i]))
            continue
        if nd.get("seed"):
            r.status = "seeded"
            r.present = True
            r.value = (None if nd.get("seed") == "none" else _FALSY_SEEDS[nd["seed"]] if nd.get("seed") in _FALSY_SEEDS
                       else ("seed", names[i]))
            continue
        if nd.get("en", True) is False:
            r.status = "disabled"
            continue
        if t == "rp":
            impl = list(nd.get("impl", []))
            live = [j for j in impl if R[j].present]
            if not live:
                r.status = "missing"
                r.missing = ([], [impl])
            else:
                r.status = "fired"
                r.present = True
                r.value = R[live[-1]].value        # the last declared implementation that produced a value
            continue
        declared = list(nd.get("treq") or []) + list(nd.get("decl", []))
        req = [it for it in declared if not isinstance(it, list)]
        grp = [it for it in declared if isinstance(it, list)]
        miss_req = [j for j in req if not R[j].present]
        miss_grp = [g for g in grp if not any(R[j].present for j in g)]
        if miss_req or miss_grp:
            r.status = "missing"
            r.missing = (miss_req, miss_grp)
            if t == "rule":
                r.present = True          # a rule reports through a skip response in the broker
                r.value = ("skip-response", MODNAME + "." + names[i])
            continue
        vals = [R[j].value if R[j].present else None for j in flat_deps(nd)]
        out = nd.get("out", "value")
        if t == "datasource":
            logged = ("broker", tuple(vals))
            r.args = logged
        elif t == "parser":
            dep = req[0] if req else None
            dv = R[dep].value if dep is not None else None
            if isinstance(dv, list):
                _ref_multi_parser(nd, names[i], dv, r)
                continue
            logged = (dv,)
            r.args = logged
        else:
            logged = tuple(vals)
            r.args = logged
        r.invocations = 1
        if out == "value":
            r.status = "fired"
            r.present = True
            r.value = ("rule-response", "pass", "K%d" % i) if t == "rule" else ref_value(names[i], logged)
        elif out == "none":
            r.status = "fired"
            r.present = True
            r.value = ("rule-response", "none", "NONE_KEY") if t == "rule" else None
        elif out in ("zero", "empty") and t != "rule":
            r.status = "fired"
            r.present = True
            r.value = 0 if out == "zero" else []
        elif out.startswith("list:"):
            n = int(out.split(":")[1])
            r.status = "fired"
            r.present = True
            r.value = [("elem", names[i], logged, k) for k in range(n)]
        else:
            r.status = "failed"
            r.faults = [out]
            if t == "rule" and False:
                pass
    return R


def _ref_multi_parser(nd, name, elements, r):
    """Documented behaviour for a parser fed a list: one instance per element; failing elements are
    dropped (continue_on_error) or the whole parser fails; no surviving element -> no value."""
    elems = nd.get("elems") or []
    coe = nd.get("coe", True)
    results = []
    failed_all = False
    r.args = None
    for k, el in enumerate(elements):
        out = elems[k] if k < len(elems) else "value"
        if nd.get("elems") is None:
            out = nd.get("out", "value")
        r.invocations += 1
        if out == "value":
            results.append(("v", name, (el,)))
        elif out == "none":
            pass
        elif out.startswith("list:"):
            n = int(out.split(":")[1])
            results.append([("elem", name, (el,), j) for j in range(n)])
        else:
            r.faults.append(out)
            if out != "skip" and not coe:
                failed_all = True
                break
    if failed_all or not results:
        r.status = "failed"
    else:
        r.status = "fired"
        r.present = True
        r.value = results


def closure(desc, targets):
    """Transitive dependency closure (node indices) of the target indices."""
    seen = set()
    stack = list(targets)
    while stack:
        i = stack.pop()
        if i in seen:
            continue
        seen.add(i)
        stack.extend(all_deps(desc["nodes"][i]))
    return seen


def canon_value(v, g=None):
    """Structural, JSON-able rendering of a broker value (Response objects by type/key)."""
    from insights.core.plugins import Response
    if isinstance(v, Response):
        if v.get("type") == "skip":
            return ["skip-response", v.get("rule_fqdn")]
        return ["rule-response", v.get("type"), v.get(v.key_name) if v.key_name else None]
    if isinstance(v, (list, tuple)):
        return [canon_value(x) for x in v]
    if isinstance(v, dict):
        return dict((str(k), canon_value(x)) for k, x in v.items())
    if v is None or isinstance(v, (str, int, float, bool)):
        return v
    return repr(v)


def canon_ref_value(v):
    if isinstance(v, (list, tuple)):
        return [canon_ref_value(x) for x in v]
    return v
