"""Input contexts for parsers, built directly from insights.core.context.Context
(insights.tests is never imported: importing it monkey-patches filters.add_filter)."""
from insights.core.context import Context


def make_context(lines, path="path", **kw):
    """What the test helper context_wrap does, minus its side effects."""
    if isinstance(lines, str):
        lines = lines.strip().splitlines() if kw.pop("strip", True) else lines.splitlines()
    return Context(content=list(lines), path=path, **kw)
