"""C10 helpers: building a fresh Cleaner from a JSON case, forcing / observing the iteration order of
the obfuscator table, running a batch of cases in a child interpreter under a real PYTHONHASHSEED,
and the spec / provider scaffolding of the order-derivation-emptiness part.

Nothing here decides a verdict; the oracles live in props/c10.py.
"""
import json
import os
import subprocess
import sys

from mc.forcedhash import HStr

HERE = os.path.dirname(os.path.dirname(os.path.abspath(__file__)))
CHILD = os.path.join(HERE, "harness", "c10_child.py")
CHILD_PARALLEL = 4        # child interpreters started at a time by one work unit


class Cfg(object):
    """The attributes Cleaner.__init__ reads from the client configuration."""

    def __init__(self, off=()):
        self.obfuscate = "all" not in off
        self.obfuscate_hostname = "hostname" not in off
        self.obfuscate_ipv6 = "ipv6" not in off
        self.obfuscate_mac = "mac" not in off


def build_cleaner(case):
    """case: {"keywords": [...], "patterns": [...] | {"regex": [...]} | None, "fqdn": str, "off": [...]}"""
    from insights.cleaner import Cleaner
    rm_conf = {}
    if case.get("keywords"):
        rm_conf["keywords"] = list(case["keywords"])
    if case.get("patterns"):
        rm_conf["patterns"] = case["patterns"]
    return Cleaner(Cfg(case.get("off") or ()), rm_conf, fqdn=case.get("fqdn") or "web01.corp.test")


def enabled_names(case):
    """Names of the obfuscators that will be applied for this case, sorted."""
    c = build_cleaner(case)
    no = set(case.get("no_obfuscate") or [])
    return sorted(k for k, v in c.obfuscate.items() if v and k not in no)


def instrument(cleaner):
    """Wraps parse_line of every configured obfuscator with a pass-through logger.
    Returns the log: list of (name, text_changed)."""
    log = []
    for key, ob in cleaner.obfuscate.items():
        if not ob:
            continue

        def wrap(f, n=str(key)):
            def logged(line, **kw):
                r = f(line, **kw)
                log.append((n, r != line))
                return r
            return logged
        ob.parse_line = wrap(ob.parse_line)
    return log


def _observed(log, n_enabled, n_lines):
    """Order of the first application block; every later block (one per line) must repeat it
    (the parser list is built once per clean_content call)."""
    if n_enabled == 0 or not log:
        return []
    first = [n for n, _ in log[:n_enabled]]
    for i in range(0, len(log), n_enabled):
        if [n for n, _ in log[i:i + n_enabled]] != first:
            raise RuntimeError("obfuscator call order changed between lines: %r" % (log,))
    if len(log) != n_enabled * n_lines:
        raise RuntimeError("expected %d applications, logged %d" % (n_enabled * n_lines, len(log)))
    return first


def run_forced(case, order):
    """Fresh cleaner; keys of cleaner.obfuscate replaced by HStr objects whose hashes make
    set(keys) iterate in `order` (the remaining, not applied names come afterwards).
    Returns {"forced", "set_order", "observed", "out", "calls", "changed"}."""
    c = build_cleaner(case)
    keys = list(c.obfuscate.keys())
    rest = sorted(k for k in keys if k not in order)
    if sorted(order) != sorted(k for k in keys if k not in rest):
        raise RuntimeError("order %r names unknown obfuscators (have %r)" % (order, keys))
    hmap = dict((n, i) for i, n in enumerate(list(order) + rest))
    hs = dict((k, HStr(k, hmap[k])) for k in keys)
    c.obfuscate = dict((hs[k], v) for k, v in c.obfuscate.items())
    noobf = [hs.get(k, k) for k in (case.get("no_obfuscate") or [])]
    # the forcing itself is checked at the CPython level, independent of what the code does with it
    set_order = [str(x) for x in (set(c.obfuscate.keys()) - set(noobf)) if c.obfuscate[x]]
    if set_order != list(order):
        raise RuntimeError("forced hashes did not produce the requested set order: %r != %r" % (set_order, order))
    log = instrument(c)
    lines = list(case["lines"])
    out = c.clean_content(lines, no_obfuscate=noobf, width=bool(case.get("width")))
    obs = _observed(log, len(order), len(lines))
    return {"forced": list(order), "set_order": set_order, "observed": obs, "out": out,
            "calls": len(log), "changed": sorted(set(n for n, ch in log if ch)),
            "max_changed_on_one_line": _max_changed(log, len(order))}


def _max_changed(log, n):
    best = 0
    if n:
        for i in range(0, len(log), n):
            best = max(best, sum(1 for _, ch in log[i:i + n] if ch))
    return best


def run_plain(case):
    """Fresh cleaner with its own plain str keys: the order is whatever this interpreter's hash
    seed gives.  Used inside the child interpreters."""
    c = build_cleaner(case)
    no = list(case.get("no_obfuscate") or [])
    n_enabled = len([k for k, v in c.obfuscate.items() if v and k not in no])
    log = instrument(c)
    lines = list(case["lines"])
    out = c.clean_content(lines, no_obfuscate=no, width=bool(case.get("width")))
    return {"observed": _observed(log, n_enabled, len(lines)), "out": out, "calls": len(log)}


def run_children(cases, seeds, repo=None, parallel=CHILD_PARALLEL):
    """Runs the whole batch of cases once per seed, each time in a fresh /venv/bin/python with
    PYTHONHASHSEED=<seed>.  Returns {seed: [run_plain result per case]}."""
    repo = repo or os.environ.get("VERIF_REPO", "/repo")
    payload = json.dumps({"repo": repo, "verif": HERE, "cases": cases}).encode("utf-8")
    if len(payload) > 60000:
        raise RuntimeError("case batch too large for one pipe write (%d bytes): make the work units smaller" % len(payload))
    out = {}
    seeds = list(seeds)
    for i in range(0, len(seeds), parallel):
        procs = []
        for k in seeds[i:i + parallel]:
            env = dict(os.environ)
            env["PYTHONHASHSEED"] = str(k)
            env["PYTHONDONTWRITEBYTECODE"] = "1"
            p = subprocess.Popen([sys.executable, CHILD], env=env, stdin=subprocess.PIPE, stdout=subprocess.PIPE,
                                 stderr=subprocess.PIPE)
            p.stdin.write(payload)      # a few KB: fits the pipe buffer, so the children really run side by side
            p.stdin.close()
            p.stdin = None
            procs.append((k, p))
        for k, p in procs:
            try:
                so, se = p.communicate(timeout=300)
            except subprocess.TimeoutExpired:
                for _, q in procs:
                    q.kill()
                raise RuntimeError("child interpreter (seed %s) timed out" % k)
            if p.returncode != 0:
                raise RuntimeError("child interpreter (seed %s) failed: %s" % (k, se.decode("utf-8", "replace")[-1500:]))
            doc = json.loads(so.decode("utf-8"))
            if doc.get("hashseed") != str(k):
                raise RuntimeError("child did not run under the requested seed: %r" % (doc.get("hashseed"),))
            out[k] = doc["results"]
    return out


# ---- part B scaffolding ------------------------------------------------------------------------

_SPECS = None


def specs():
    """One real SpecSet with a plain and a filterable registry point, a simple_file implementation
    of each, and a real function datasource returning a DatasourceProvider. Created once per
    process (workers are forked; nothing else uses these names)."""
    global _SPECS
    if _SPECS is None:
        from insights.core.context import HostContext
        from insights.core.plugins import datasource
        from insights.core.spec_factory import SpecSet, RegistryPoint, simple_file, DatasourceProvider

        class VerifC10Specs(SpecSet):
            plain = RegistryPoint()
            filt = RegistryPoint(filterable=True)

        class VerifC10Impl(VerifC10Specs):
            plain = simple_file("c10/plain.txt", context=HostContext)
            filt = simple_file("c10/filt.txt", context=HostContext)

        @datasource(HostContext)
        def verif_c10_lines(broker):
            return DatasourceProvider(list(broker["verif_c10_content"]), "c10/ds.txt", ds=verif_c10_lines,
                                      ctx=broker[HostContext], cleaner=broker.get("cleaner"))

        _SPECS = {"registry": VerifC10Specs, "impl": VerifC10Impl, "ds": verif_c10_lines}
    return _SPECS


class filters_set(object):
    """Context manager: the filterable registry point carries exactly `allow` ({pattern: max}),
    registered through the real add_filter; tables restored afterwards."""

    def __init__(self, allow):
        self.allow = allow

    def __enter__(self):
        from insights.core import filters
        self.filters = filters
        rp = specs()["registry"].filt
        self.saved = (dict(filters.FILTERS.get(rp, {})) if rp in filters.FILTERS else None, dict(filters._CACHE))
        filters.FILTERS.pop(rp, None)
        filters._CACHE.clear()
        for k, v in sorted((self.allow or {}).items()):
            filters.add_filter(rp, k, max_match=v)
        return self

    def __exit__(self, *a):
        filters = self.filters
        rp = specs()["registry"].filt
        filters.FILTERS.pop(rp, None)
        if self.saved[0] is not None:
            filters.FILTERS[rp] = self.saved[0]
        filters._CACHE.clear()
        filters._CACHE.update(self.saved[1])
        return False


def list_files(root):
    out = []
    for d, _, fs in os.walk(root):
        for f in fs:
            out.append(os.path.relpath(os.path.join(d, f), root))
    return sorted(out)
