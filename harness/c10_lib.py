"""C10 helpers: building a fresh Cleaner from a JSON case, forcing / observing the iteration order of
the obfuscator table, running a batch of cases in a child interpreter under a real PYTHONHASHSEED,
and the spec / provider scaffolding of the order-derivation-emptiness part.

Nothing here decides a verdict; the oracles live in props/c10.py.
"""
import json
import os
import subprocess
import sys

from mc.forcedhash import HStr

HERE = os.path.dirname(os.path.dirname(os.path.abspath(__file__)))
CHILD = os.path.join(HERE, "harness", "c10_child.py")
CHILD_PARALLEL = 4        # child interpreters started at a time by one work unit


class Cfg(object):
    """The attributes Cleaner.__init__ reads from the client configuration."""

    def __init__(self, off=()):
        self.obfuscate = "all" not in off
        self.obfuscate_hostname = "hostname" not in off
        self.obfuscate_ipv6 = "ipv6" not in off
        self.obfuscate_mac = "mac" not in off


def build_cleaner(case):
    """case: {"keywords": [...], "patterns": [...] | {"regex": [...]} | None, "fqdn": str, "off": [...]}"""
    from insights.cleaner import Cleaner
    rm_conf = {}
    if case.get("keywords"):
        rm_conf["keywords"] = list(case["keywords"])
    if case.get("patterns"):
        rm_conf["patterns"] = case["patterns"]
    return Cleaner(Cfg(case.get("off") or ()), rm_conf, fqdn=case.get("fqdn") or "web01.corp.test")


def enabled_names(case):
    """Names of the obfuscators that will be applied for this case, sorted."""
    c = build_cleaner(case)
    no = set(case.get("no_obfuscate") or [])
    return sorted(k for k, v in c.obfuscate.items() if v and k not in no)


def instrument(cleaner):
    """Wraps parse_line of every configured obfuscator with a pass-through logger.
    Returns the log: list of (name, text_changed)."""
    log = []
    for key, ob in cleaner.obfuscate.items():
        if not ob:
            continue

        def wrap(f, n=str(key)):
            def logged(line, **kw):
                r = f(line, **kw)
                log.append((n, r != line))
                return r
            return logged
        ob.parse_line = wrap(ob.parse_line)
    return log


def _blocks(log):
    """Splits the application log into blocks, one per cleaned line: a block ends when a name repeats."""
    blocks, cur, seen = [], [], set()
    for n, ch in log:
        if n in seen:
            blocks.append(cur)
            cur, seen = [], set()
        cur.append((n, ch))
        seen.add(n)
    if cur:
        blocks.append(cur)
    return blocks


def _observed(log):
    """Order in which the obfuscators were applied: names by first application.  Every block that applies
    all of them must show the same order (the parser list is built once per clean_content call); nothing
    else about the call pattern is assumed, so a refactoring that skips calls for empty lines is fine."""
    first = []
    for n, _ in log:
        if n not in first:
            first.append(n)
    return first


def _max_changed(log):
    return max([sum(1 for _, ch in b if ch) for b in _blocks(log)] or [0])


def _steps(c, case, noobf):
    """The cleaning history of one case on ONE cleaner: every content of case["pre"] first, then
    case["lines"] (as a single string when case["as_string"]).  Returns the single output for a plain
    case, else the list of all outputs in order."""
    width = bool(case.get("width"))
    outs = []
    for pre in (case.get("pre") or []):
        outs.append(c.clean_content(list(pre), no_obfuscate=noobf, width=width))
    if case.get("as_string"):
        outs.append([c.clean_content(case["lines"][0], no_obfuscate=noobf, width=width)])
    else:
        outs.append(c.clean_content(list(case["lines"]), no_obfuscate=noobf, width=width))
    return outs[0] if len(outs) == 1 else outs


def run_forced(case, order):
    """Fresh cleaner; keys of cleaner.obfuscate replaced by HStr objects whose hashes make
    set(keys) iterate in `order` (the remaining, not applied names come afterwards).
    Returns {"forced", "set_order", "observed", "out", "calls", "changed"}."""
    c = build_cleaner(case)
    keys = list(c.obfuscate.keys())
    rest = sorted(k for k in keys if k not in order)
    if sorted(order) != sorted(k for k in keys if k not in rest):
        raise RuntimeError("order %r names unknown obfuscators (have %r)" % (order, keys))
    hmap = dict((n, i) for i, n in enumerate(list(order) + rest))
    hs = dict((k, HStr(k, hmap[k])) for k in keys)
    c.obfuscate = dict((hs[k], v) for k, v in c.obfuscate.items())
    noobf = [hs.get(k, k) for k in (case.get("no_obfuscate") or [])]
    # the forcing itself is checked at the CPython level, independent of what the code does with it
    set_order = [str(x) for x in (set(c.obfuscate.keys()) - set(noobf)) if c.obfuscate[x]]
    if set_order != list(order):
        raise RuntimeError("forced hashes did not produce the requested set order: %r != %r" % (set_order, order))
    log = instrument(c)
    out = _steps(c, case, noobf)
    return {"forced": list(order), "set_order": set_order, "observed": _observed(log), "out": out,
            "calls": len(log), "changed": sorted(set(n for n, ch in log if ch)),
            "max_changed_on_one_line": _max_changed(log)}


def run_plain(case):
    """Fresh cleaner with its own plain str keys: the order is whatever this interpreter's hash
    seed gives.  Used inside the child interpreters."""
    if case.get("kind") == "allow":
        return run_allow(case)
    c = build_cleaner(case)
    no = list(case.get("no_obfuscate") or [])
    log = instrument(c)
    out = _steps(c, case, no)
    return {"observed": _observed(log), "out": out, "calls": len(log)}


def run_children(cases, seeds, repo=None, parallel=CHILD_PARALLEL):
    """Runs the whole batch of cases once per seed, each time in a fresh /venv/bin/python with
    PYTHONHASHSEED=<seed>.  Returns {seed: [run_plain result per case]}."""
    import tempfile
    repo = repo or os.environ.get("VERIF_REPO", "/repo")
    fd, path = tempfile.mkstemp(prefix="verif-%d-c10batch-" % os.getpid(), suffix=".json", dir="/dev/shm")
    with os.fdopen(fd, "w") as fh:
        json.dump({"repo": repo, "verif": HERE, "cases": cases}, fh)
    out = {}
    seeds = list(seeds)
    try:
        for i in range(0, len(seeds), parallel):
            procs = []
            for k in seeds[i:i + parallel]:
                env = dict(os.environ)
                env["PYTHONHASHSEED"] = str(k)
                env["PYTHONDONTWRITEBYTECODE"] = "1"
                p = subprocess.Popen([sys.executable, CHILD, path], env=env, stdin=subprocess.DEVNULL,
                                     stdout=subprocess.PIPE, stderr=subprocess.PIPE)
                procs.append((k, p))
            for k, p in procs:
                try:
                    so, se = p.communicate(timeout=600)
                except subprocess.TimeoutExpired:
                    for _, q in procs:
                        q.kill()
                    raise RuntimeError("child interpreter (seed %s) timed out" % k)
                if p.returncode != 0:
                    raise RuntimeError("child interpreter (seed %s) failed: %s" % (k, se.decode("utf-8", "replace")[-1500:]))
                doc = json.loads(so.decode("utf-8"))
                if doc.get("hashseed") != str(k):
                    raise RuntimeError("child did not run under the requested seed: %r" % (doc.get("hashseed"),))
                out[k] = doc["results"]
    finally:
        try:
            os.remove(path)
        except OSError:
            pass
    return out


# ---- part D: histories of several fresh cleaners in ONE pristine interpreter ------------------------

def run_history(steps):
    """Every step on a FRESH Cleaner, one after the other in this process.
    step = {"cleaner": build_cleaner case, "lines": [...], "allow": {..} | None, "no_obf": [...] | None, "no_redact": bool}.
    -> [output of clean_content per step]"""
    outs = []
    for st in steps:
        c = build_cleaner(st["cleaner"])
        allow = None if st.get("allow") is None else dict(st["allow"])
        outs.append(c.clean_content(list(st["lines"]), no_obfuscate=st.get("no_obf"), no_redact=bool(st.get("no_redact")),
                                    allowlist=allow))
    return outs


def run_histories(histories, repo=None):
    """One child interpreter (PYTHONHASHSEED as pinned by the runner, 0 when unset); every history in its own fork of the
    pristine child (see harness/c10_child.py).  -> [[output per step] per history]"""
    import tempfile
    repo = repo or os.environ.get("VERIF_REPO", "/repo")
    fd, path = tempfile.mkstemp(prefix="verif-%d-c10hist-" % os.getpid(), suffix=".json", dir="/dev/shm")
    with os.fdopen(fd, "w") as fh:
        json.dump({"repo": repo, "verif": HERE, "histories": histories}, fh)
    try:
        env = dict(os.environ)
        env.setdefault("PYTHONHASHSEED", "0")
        env["PYTHONDONTWRITEBYTECODE"] = "1"
        p = subprocess.Popen([sys.executable, CHILD, path], env=env, stdin=subprocess.DEVNULL,
                             stdout=subprocess.PIPE, stderr=subprocess.PIPE)
        try:
            so, se = p.communicate(timeout=900)
        except subprocess.TimeoutExpired:
            p.kill()
            raise RuntimeError("child interpreter (histories) timed out")
        if p.returncode != 0:
            raise RuntimeError("child interpreter (histories) failed: %s" % se.decode("utf-8", "replace")[-1500:])
        res = json.loads(so.decode("utf-8"))["results"]
        if len(res) != len(histories):
            raise RuntimeError("child returned %d results for %d histories" % (len(res), len(histories)))
        return res
    finally:
        try:
            os.remove(path)
        except OSError:
            pass


# ---- owning set iteration order INSIDE the obfuscators ----------------------------------------

INSIDE_MODULES = ("hostname", "ip", "keyword", "mac", "password", "pattern", "filters", "utilities")
INSIDE_MAX_N = 5          # a set of up to 5 elements is iterated in every one of its n! orders


class SetSchedule(object):
    """Choice sequence of one execution: the j-th *distinct content* that is iterated as a set takes the
    prefix[j]-th permutation (lexicographic over the canonically sorted elements), 0 beyond the prefix.
    Sets with equal content iterate identically within one execution and a set keeps its order while it
    is not modified - as in CPython - so nothing is explored that no interpreter could do for that reason."""

    def __init__(self, prefix=()):
        self.prefix = list(prefix)
        self.trace = []           # [(chosen, number of options)]
        self.by_content = {}
        self.too_big = 0

    def choose(self, key, nopt):
        if key in self.by_content:
            return self.by_content[key]
        i = len(self.trace)
        c = self.prefix[i] if i < len(self.prefix) else 0
        if c >= nopt:
            raise RuntimeError("set schedule diverged: choice %d of %d options at point %d" % (c, nopt, i))
        self.trace.append((c, nopt))
        self.by_content[key] = c
        return c


def _canon(x):
    return (type(x).__name__, repr(x))


def make_set_type(sched):
    import itertools
    import math

    class PermSet(set):
        """Stand-in for the builtin `set` as seen by the cleaner modules: a real set (subclass), whose
        iteration order is the permutation the schedule chooses for its content."""

        def __iter__(self):
            n = set.__len__(self)
            if n < 2:
                return set.__iter__(self)
            items = sorted(set.__iter__(self), key=_canon)
            if n > INSIDE_MAX_N:
                sched.too_big += 1
                return iter(items)
            k = sched.choose(tuple(_canon(x) for x in items), math.factorial(n))
            return iter(next(itertools.islice(itertools.permutations(items), k, None)))

    def keep_type(name):
        base = getattr(set, name)

        def method(self, *a):
            r = base(self, *a)
            return PermSet(r) if type(r) is set else r
        method.__name__ = name
        return method

    for name in ("__sub__", "__rsub__", "__or__", "__ror__", "__and__", "__rand__", "__xor__", "__rxor__",
                 "difference", "union", "intersection", "symmetric_difference", "copy"):
        setattr(PermSet, name, keep_type(name))
    return PermSet


class set_stand_in(object):
    """Context manager: the name `set` in the given modules is the schedule-driven stand-in."""

    def __init__(self, module_names, prefix=()):
        import importlib
        self.sched = SetSchedule(prefix)
        self.mods = [importlib.import_module(m) for m in module_names]

    def __enter__(self):
        stand_in = make_set_type(self.sched)
        for m in self.mods:
            if "set" in m.__dict__:
                raise RuntimeError("%s already defines a global named set" % m.__name__)
        for m in self.mods:
            m.set = stand_in
        return self.sched

    def __exit__(self, *a):
        for m in self.mods:
            m.__dict__.pop("set", None)
        return False


def run_scheduled(fn, module_names, prefix=()):
    """fn() executed with the stand-in in place -> {"out": fn(), "trace": [[choice, options]], "too_big"}."""
    with set_stand_in(module_names, prefix) as sched:
        out = fn()
    if len(sched.trace) < len(sched.prefix):
        raise RuntimeError("set schedule prefix %r longer than the execution's %d choice points" % (sched.prefix, len(sched.trace)))
    return {"out": out, "trace": [list(t) for t in sched.trace], "too_big": sched.too_big}


def explore_scheduled(fn, module_names, cap=3000):
    """Stateless depth-first exploration of every set schedule of fn.
    Returns (runs = [{"choices", "out", "trace"}], complete: bool)."""
    runs = []
    stack = [[]]
    complete = True
    while stack:
        if len(runs) >= cap:
            complete = False
            break
        prefix = stack.pop()
        r = run_scheduled(fn, module_names, prefix)
        choices = [c for c, _ in r["trace"]]
        if r["too_big"]:
            complete = False
        runs.append({"choices": choices, "out": r["out"], "trace": r["trace"]})
        for j in range(len(r["trace"]) - 1, len(prefix) - 1, -1):
            for c in range(r["trace"][j][1] - 1, 0, -1):
                stack.append(choices[:j] + [c])
    return runs, complete


CLEANER_MODULES = tuple("insights.cleaner." + m for m in INSIDE_MODULES)


def _inside_fn(case):
    def fn():
        c = build_cleaner(case)
        return _steps(c, case, list(case.get("no_obfuscate") or []))
    return fn


def run_inside(case, prefix=()):
    """Fresh cleaner with plain keys (the obfuscator order is whatever the code and this interpreter give),
    while the name `set` in insights.cleaner.{hostname, ip, keyword, mac, ...} is the schedule-driven
    stand-in.  Returns {"out", "trace": [(choice, options)], "too_big"}."""
    return run_scheduled(_inside_fn(case), CLEANER_MODULES, prefix)


def explore_inside(case, cap=3000):
    return explore_scheduled(_inside_fn(case), CLEANER_MODULES, cap)


# ---- part B / C scaffolding: real specs, registered through the public API only ----------------

_SPEC_CACHE = {}
_SPEC_N = [0]
CMD = '/bin/sh -c "cat $VERIF_C10_FILE"'       # the input file is named by an inherited environment variable


ALL_OBFUSCATIONS = ["hostname", "ip", "ipv6", "keyword", "mac", "password"]


def make_specs(allow=None, one_call=True, cache=True, decl=None):
    """A fresh real SpecSet: registry points plain / filt (filterable) / cmd / cmdfilt (filterable), one
    implementation each (simple_file x2, simple_command x2), and a function datasource `ds` returning a
    DatasourceProvider.  `allow` ({pattern: max_match} or None) is registered on the filterable registry
    points through the real add_filter - in ONE call (list of patterns, common max) or one call per pattern.
    `decl` ({"no_redact": bool, "no_obfuscate": [...]}) is the spec DECLARATION: it is given to every registry
    point (RegistryPoint(no_redact=..., no_obfuscate=...)), from where the library copies it to the implementations.
    Nothing is ever removed from the registries: every distinct filter configuration gets its own components
    (cached per process), so no private table of insights.core.filters is touched."""
    decl = dict(decl or {})
    key = json.dumps([allow, one_call, decl], sort_keys=True)
    if cache and key in _SPEC_CACHE:
        return _SPEC_CACHE[key]
    from insights.core import filters
    from insights.core.context import HostContext
    from insights.core.plugins import datasource
    from insights.core.spec_factory import SpecSet, RegistryPoint, simple_file, simple_command, DatasourceProvider
    _SPEC_N[0] += 1
    n = _SPEC_N[0]
    meta = type(SpecSet)
    def verif_c10_lines(broker):
        return DatasourceProvider(list(broker["verif_c10_content"]), "c10/ds.txt", ds=impl.ds,
                                  ctx=broker[HostContext], cleaner=broker.get("cleaner"))
    verif_c10_lines.__name__ = "verif_c10_lines%d" % n
    verif_c10_lines = datasource(HostContext)(verif_c10_lines)
    reg = meta("VerifC10Specs%d" % n, (SpecSet,), {
        "__module__": __name__, "plain": RegistryPoint(**decl), "filt": RegistryPoint(filterable=True, **decl),
        "cmd": RegistryPoint(**decl), "cmdfilt": RegistryPoint(filterable=True, **decl), "ds": RegistryPoint(**decl)})
    impl = meta("VerifC10Impl%d" % n, (reg,), {
        "__module__": __name__,
        "plain": simple_file("c10/plain.txt", context=HostContext),
        "filt": simple_file("c10/filt.txt", context=HostContext),
        "cmd": simple_command(CMD, context=HostContext, inherit_env=["VERIF_C10_FILE"]),
        "cmdfilt": simple_command(CMD, context=HostContext, inherit_env=["VERIF_C10_FILE"]),
        "ds": verif_c10_lines})
    if allow:
        for rp in (reg.filt, reg.cmdfilt):
            if one_call:
                maxes = sorted(set(allow.values()))
                if len(maxes) != 1:
                    raise ValueError("one add_filter call needs one common max_match: %r" % (allow,))
                filters.add_filter(rp, sorted(allow), max_match=maxes[0])
            else:
                for k in sorted(allow):
                    filters.add_filter(rp, k, max_match=allow[k])
    sp = {"plain": impl.plain, "filt": impl.filt, "cmd": impl.cmd, "cmdfilt": impl.cmdfilt, "ds": impl.ds}
    if cache:
        _SPEC_CACHE[key] = sp
    return sp


def list_files(root):
    out = []
    for d, _, fs in os.walk(root):
        for f in fs:
            out.append(os.path.relpath(os.path.join(d, f), root))
    return sorted(out)


def attempt_write(p, dst):
    """p.write(dst) -> ("raised", exception class name) | ("stored", text).  Only the library's own two
    signals for 'this spec yields nothing' are caught; anything else propagates (harness error)."""
    from insights.core.exceptions import ContentException, CalledProcessError, NoFilterException
    try:
        p.write(dst)
    except (ContentException, CalledProcessError, NoFilterException) as ex:
        stored = None
        if os.path.exists(dst):
            with open(dst, newline="") as fh:
                stored = fh.read()
        return ("raised", type(ex).__name__, stored)
    if not os.path.exists(dst):
        return ("nothing", None, None)
    with open(dst, newline="") as fh:
        return ("stored", None, fh.read())


def make_provider(sp, kind, indir, lines, cleaner_case):
    """A fresh broker (HostContext rooted at indir, a fresh Cleaner) and the provider the spec `kind` yields."""
    from insights.core import dr
    from insights.core.context import HostContext
    from insights.core.exceptions import ContentException, CalledProcessError, NoFilterException
    comp = sp[kind]
    os.makedirs(os.path.join(indir, "c10"), exist_ok=True)
    fname = os.path.join(indir, "c10", ("filt" if kind == "filt" else "plain") + ".txt")
    if kind != "ds":
        with open(fname, "w", newline="") as fh:
            fh.write("".join(l + "\n" for l in lines))
        os.environ["VERIF_C10_FILE"] = fname
    b = dr.Broker()
    b[HostContext] = HostContext(root=indir)
    b["cleaner"] = build_cleaner(cleaner_case)
    b["verif_c10_content"] = list(lines)
    try:
        p = comp(b)
    except (ContentException, CalledProcessError, NoFilterException) as ex:
        # the spec refuses to yield a provider: an outcome ("dropped at construction"), judged by the oracle
        return b, comp, Refused(ex)
    b[comp] = p
    return b, comp, p


class Refused(object):
    """Stands for a provider the datasource refused to build; behaves as 'nothing to write'."""

    def __init__(self, ex):
        self.ex = ex

    @property
    def content(self):
        raise self.ex

    def write(self, dst):
        raise self.ex


def run_allow(case, root=None):
    """Part C execution: fresh components, `case["allow"]` registered in one add_filter call, the filterable
    simple_file spec written under a HostContext.  -> {"out": ["raised"|"stored", text], "observed": [], "calls": 0}"""
    import shutil
    import tempfile
    own = root is None
    if own:
        root = tempfile.mkdtemp(prefix="verif-%d-c10c-" % os.getpid(), dir="/dev/shm")
    try:
        sp = make_specs(case["allow"], one_call=True, cache=False)
        _, _, p = make_provider(sp, "filt", os.path.join(root, "in"), case["lines"],
                                {"keywords": ["SECRETKW"], "patterns": ["REDACTME"], "fqdn": "web01.corp.test"})
        dst = os.path.join(root, "direct", "w.txt")
        shutil.rmtree(os.path.dirname(dst), ignore_errors=True)
        r = attempt_write(p, dst)
        shutil.rmtree(os.path.dirname(dst), ignore_errors=True)
        return {"out": [r[0], r[2]], "observed": [], "calls": 0}
    finally:
        if own:
            shutil.rmtree(root, ignore_errors=True)
