"""C10 helpers: building a fresh Cleaner from a JSON case, forcing / observing the iteration order of
the obfuscator table, running a batch of cases in a child interpreter under a real PYTHONHASHSEED,
and the spec / provider scaffolding of the order-derivation-emptiness part.

Nothing here decides a verdict; the oracles live in props/c10.py.
"""
import json
import os
import subprocess
import sys

from mc.forcedhash import HStr

HERE = os.path.dirname(os.path.dirname(os.path.abspath(__file__)))
CHILD = os.path.join(HERE, "harness", "c10_child.py")
CHILD_PARALLEL = 4        # child interpreters started at a time by one work unit


class Cfg(object):
    """The attributes Cleaner.__init__ reads from the client configuration."""

    def __init__(self, off=()):
        self.obfuscate = "all" not in off
        self.obfuscate_hostname = "hostname" not in off
        self.obfuscate_ipv6 = "ipv6" not in off
        self.obfuscate_mac = "mac" not in off


def build_cleaner(case):
    """case: {"keywords": [...], "patterns": [...] | {"regex": [...]} | None, "fqdn": str, "off": [...]}"""
    from insights.cleaner import Cleaner
    rm_conf = {}
    if case.get("keywords"):
        rm_conf["keywords"] = list(case["keywords"])
    if case.get("patterns"):
        rm_conf["patterns"] = case["patterns"]
    return Cleaner(Cfg(case.get("off") or ()), rm_conf, fqdn=case.get("fqdn") or "web01.corp.test")


def enabled_names(case):
    """Names of the obfuscators that will be applied for this case, sorted."""
    c = build_cleaner(case)
    no = set(case.get("no_obfuscate") or [])
    return sorted(k for k, v in c.obfuscate.items() if v and k not in no)


def instrument(cleaner):
    """Wraps parse_line of every configured obfuscator with a pass-through logger.
    Returns the log: list of (name, text_changed)."""
    log = []
    for key, ob in cleaner.obfuscate.items():
        if not ob:
            continue

        def wrap(f, n=str(key)):
            def logged(line, **kw):
                r = f(line, **kw)
                log.append((n, r != line))
                return r
            return logged
        ob.parse_line = wrap(ob.parse_line)
    return log


def _observed(log, n_enabled, n_lines):
    """Order of the first application block; every later block (one per line) must repeat it
    (the parser list is built once per clean_content call)."""
    if n_enabled == 0 or not log:
        return []
    first = [n for n, _ in log[:n_enabled]]
    for i in range(0, len(log), n_enabled):
        if [n for n, _ in log[i:i + n_enabled]] != first:
            raise RuntimeError("obfuscator call order changed between lines: %r" % (log,))
    if len(log) != n_enabled * n_lines:
        raise RuntimeError("expected %d applications, logged %d" % (n_enabled * n_lines, len(log)))
    return first


def run_forced(case, order):
    """Fresh cleaner; keys of cleaner.obfuscate replaced by HStr objects whose hashes make
    set(keys) iterate in `order` (the remaining, not applied names come afterwards).
    Returns {"forced", "set_order", "observed", "out", "calls", "changed"}."""
    c = build_cleaner(case)
    keys = list(c.obfuscate.keys())
    rest = sorted(k for k in keys if k not in order)
    if sorted(order) != sorted(k for k in keys if k not in rest):
        raise RuntimeError("order %r names unknown obfuscators (have %r)" % (order, keys))
    hmap = dict((n, i) for i, n in enumerate(list(order) + rest))
    hs = dict((k, HStr(k, hmap[k])) for k in keys)
    c.obfuscate = dict((hs[k], v) for k, v in c.obfuscate.items())
    noobf = [hs.get(k, k) for k in (case.get("no_obfuscate") or [])]
    # the forcing itself is checked at the CPython level, independent of what the code does with it
    set_order = [str(x) for x in (set(c.obfuscate.keys()) - set(noobf)) if c.obfuscate[x]]
    if set_order != list(order):
        raise RuntimeError("forced hashes did not produce the requested set order: %r != %r" % (set_order, order))
    log = instrument(c)
    lines = list(case["lines"])
    out = c.clean_content(lines, no_obfuscate=noobf, width=bool(case.get("width")))
    obs = _observed(log, len(order), len(lines))
    return {"forced": list(order), "set_order": set_order, "observed": obs, "out": out,
            "calls": len(log), "changed": sorted(set(n for n, ch in log if ch)),
            "max_changed_on_one_line": _max_changed(log, len(order))}


def _max_changed(log, n):
    best = 0
    if n:
        for i in range(0, len(log), n):
            best = max(best, sum(1 for _, ch in log[i:i + n] if ch))
    return best


def run_plain(case):
    """Fresh cleaner with its own plain str keys: the order is whatever this interpreter's hash
    seed gives.  Used inside the child interpreters."""
    c = build_cleaner(case)
    no = list(case.get("no_obfuscate") or [])
    n_enabled = len([k for k, v in c.obfuscate.items() if v and k not in no])
    log = instrument(c)
    lines = list(case["lines"])
    out = c.clean_content(lines, no_obfuscate=no, width=bool(case.get("width")))
    return {"observed": _observed(log, n_enabled, len(lines)), "out": out, "calls": len(log)}


def run_children(cases, seeds, repo=None, parallel=CHILD_PARALLEL):
    """Runs the whole batch of cases once per seed, each time in a fresh /venv/bin/python with
    PYTHONHASHSEED=<seed>.  Returns {seed: [run_plain result per case]}."""
    repo = repo or os.environ.get("VERIF_REPO", "/repo")
    payload = json.dumps({"repo": repo, "verif": HERE, "cases": cases}).encode("utf-8")
    if len(payload) > 60000:
        raise RuntimeError("case batch too large for one pipe write (%d bytes): make the work units smaller" % len(payload))
    out = {}
    seeds = list(seeds)
    for i in range(0, len(seeds), parallel):
        procs = []
        for k in seeds[i:i + parallel]:
            env = dict(os.environ)
            env["PYTHONHASHSEED"] = str(k)
            env["PYTHONDONTWRITEBYTECODE"] = "1"
            p = subprocess.Popen([sys.executable, CHILD], env=env, stdin=subprocess.PIPE, stdout=subprocess.PIPE,
                                 stderr=subprocess.PIPE)
            p.stdin.write(payload)      # a few KB: fits the pipe buffer, so the children really run side by side
            p.stdin.close()
            p.stdin = None
            procs.append((k, p))
        for k, p in procs:
            try:
                so, se = p.communicate(timeout=300)
            except subprocess.TimeoutExpired:
                for _, q in procs:
                    q.kill()
                raise RuntimeError("child interpreter (seed %s) timed out" % k)
            if p.returncode != 0:
                raise RuntimeError("child interpreter (seed %s) failed: %s" % (k, se.decode("utf-8", "replace")[-1500:]))
            doc = json.loads(so.decode("utf-8"))
            if doc.get("hashseed") != str(k):
                raise RuntimeError("child did not run under the requested seed: %r" % (doc.get("hashseed"),))
            out[k] = doc["results"]
    return out


# ---- owning set iteration order INSIDE the obfuscators ----------------------------------------

INSIDE_MODULES = ("hostname", "ip", "keyword", "mac", "password", "pattern", "filters", "utilities")
INSIDE_MAX_N = 5          # a set of up to 5 elements is iterated in every one of its n! orders


class SetSchedule(object):
    """Choice sequence of one execution: the j-th *distinct content* that is iterated as a set takes the
    prefix[j]-th permutation (lexicographic over the canonically sorted elements), 0 beyond the prefix.
    Sets with equal content iterate identically within one execution and a set keeps its order while it
    is not modified - as in CPython - so nothing is explored that no interpreter could do for that reason."""

    def __init__(self, prefix=()):
        self.prefix = list(prefix)
        self.trace = []           # [(chosen, number of options)]
        self.by_content = {}
        self.too_big = 0

    def choose(self, key, nopt):
        if key in self.by_content:
            return self.by_content[key]
        i = len(self.trace)
        c = self.prefix[i] if i < len(self.prefix) else 0
        if c >= nopt:
            raise RuntimeError("set schedule diverged: choice %d of %d options at point %d" % (c, nopt, i))
        self.trace.append((c, nopt))
        self.by_content[key] = c
        return c


def _canon(x):
    return (type(x).__name__, repr(x))


def make_set_type(sched):
    import itertools
    import math

    class PermSet(set):
        """Stand-in for the builtin `set` as seen by the cleaner modules: a real set (subclass), whose
        iteration order is the permutation the schedule chooses for its content."""

        def __iter__(self):
            n = set.__len__(self)
            if n < 2:
                return set.__iter__(self)
            items = sorted(set.__iter__(self), key=_canon)
            if n > INSIDE_MAX_N:
                sched.too_big += 1
                return iter(items)
            k = sched.choose(tuple(_canon(x) for x in items), math.factorial(n))
            return iter(next(itertools.islice(itertools.permutations(items), k, None)))

    def keep_type(name):
        base = getattr(set, name)

        def method(self, *a):
            r = base(self, *a)
            return PermSet(r) if type(r) is set else r
        method.__name__ = name
        return method

    for name in ("__sub__", "__rsub__", "__or__", "__ror__", "__and__", "__rand__", "__xor__", "__rxor__",
                 "difference", "union", "intersection", "symmetric_difference", "copy"):
        setattr(PermSet, name, keep_type(name))
    return PermSet


def run_inside(case, prefix=()):
    """Fresh cleaner with plain keys (the obfuscator order is whatever the code and this interpreter give),
    while the name `set` in insights.cleaner.{hostname, ip, keyword, mac, ...} is the schedule-driven
    stand-in.  Returns {"out", "trace": [(choice, options)], "too_big"}."""
    import importlib
    sched = SetSchedule(prefix)
    stand_in = make_set_type(sched)
    mods = [importlib.import_module("insights.cleaner." + m) for m in INSIDE_MODULES]
    for m in mods:
        if "set" in m.__dict__:
            raise RuntimeError("%s already defines a global named set" % m.__name__)
    try:
        for m in mods:
            m.set = stand_in
        c = build_cleaner(case)
        out = c.clean_content(list(case["lines"]), no_obfuscate=list(case.get("no_obfuscate") or []),
                              width=bool(case.get("width")))
    finally:
        for m in mods:
            m.__dict__.pop("set", None)
    if len(sched.trace) < len(sched.prefix):
        raise RuntimeError("set schedule prefix %r longer than the execution's %d choice points" % (sched.prefix, len(sched.trace)))
    return {"out": out, "trace": [list(t) for t in sched.trace], "too_big": sched.too_big}


def explore_inside(case, cap=3000):
    """Stateless depth-first exploration of every set schedule of one case.
    Returns (runs = [{"choices", "out", "trace"}], complete: bool)."""
    runs = []
    stack = [[]]
    complete = True
    while stack:
        if len(runs) >= cap:
            complete = False
            break
        prefix = stack.pop()
        r = run_inside(case, prefix)
        choices = [c for c, _ in r["trace"]]
        if r["too_big"]:
            complete = False
        runs.append({"choices": choices, "out": r["out"], "trace": r["trace"]})
        for j in range(len(r["trace"]) - 1, len(prefix) - 1, -1):
            for c in range(r["trace"][j][1] - 1, 0, -1):
                stack.append(choices[:j] + [c])
    return runs, complete


# ---- part B scaffolding ------------------------------------------------------------------------

_SPECS = None


def specs():
    """One real SpecSet with a plain and a filterable registry point, a simple_file implementation
    of each, and a real function datasource returning a DatasourceProvider. Created once per
    process (workers are forked; nothing else uses these names)."""
    global _SPECS
    if _SPECS is None:
        from insights.core.context import HostContext
        from insights.core.plugins import datasource
        from insights.core.spec_factory import SpecSet, RegistryPoint, simple_file, DatasourceProvider

        class VerifC10Specs(SpecSet):
            plain = RegistryPoint()
            filt = RegistryPoint(filterable=True)

        class VerifC10Impl(VerifC10Specs):
            plain = simple_file("c10/plain.txt", context=HostContext)
            filt = simple_file("c10/filt.txt", context=HostContext)

        @datasource(HostContext)
        def verif_c10_lines(broker):
            return DatasourceProvider(list(broker["verif_c10_content"]), "c10/ds.txt", ds=verif_c10_lines,
                                      ctx=broker[HostContext], cleaner=broker.get("cleaner"))

        _SPECS = {"registry": VerifC10Specs, "impl": VerifC10Impl, "ds": verif_c10_lines}
    return _SPECS


class filters_set(object):
    """Context manager: the filterable registry point carries exactly `allow` ({pattern: max}),
    registered through the real add_filter; tables restored afterwards."""

    def __init__(self, allow):
        self.allow = allow

    def __enter__(self):
        from insights.core import filters
        self.filters = filters
        rp = specs()["registry"].filt
        self.saved = (dict(filters.FILTERS.get(rp, {})) if rp in filters.FILTERS else None, dict(filters._CACHE))
        filters.FILTERS.pop(rp, None)
        filters._CACHE.clear()
        for k, v in sorted((self.allow or {}).items()):
            filters.add_filter(rp, k, max_match=v)
        return self

    def __exit__(self, *a):
        filters = self.filters
        rp = specs()["registry"].filt
        filters.FILTERS.pop(rp, None)
        if self.saved[0] is not None:
            filters.FILTERS[rp] = self.saved[0]
        filters._CACHE.clear()
        filters._CACHE.update(self.saved[1])
        return False


def list_files(root):
    out = []
    for d, _, fs in os.walk(root):
        for f in fs:
            out.append(os.path.relpath(os.path.join(d, f), root))
    return sorted(out)
