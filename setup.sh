#!/bin/sh
# setup_cmd: builds everything the checks need from files on disk only (offline).
set -e
cd "$(dirname "$0")"
mkdir -p ref/build evidence replays
gcc -O2 -shared -fPIC -o ref/build/librpmvercmp.so ref/rpmvercmp.c
/venv/bin/python -c "import sys; sys.path.insert(0,'.'); import mc.runner, mc.result, mc.enumx; print('mc ok')"
/venv/bin/python -c "import sys; sys.path.insert(0,'/repo'); import insights; print('insights importable from /repo')"
echo setup done
