"""C15 - reference model of the INI part of the statement, its renderer, and the stdlib cross-check.

A *document descriptor* is plain JSON:

    {"pre": [filler, ...],                       # lines before the first header (comments / blanks)
     "blocks": [{"name": "s1", "hpad": False,    # "[s1]"  (hpad: "[ s1 ]")
                 "entries": [["o", "key", "v", " = "],           # option line  key = v
                             ["o", "key", ["p", "q r"], " = "],  # value with an indented continuation line
                             ["o", "flag", None, ""],            # bare name, no separator (allow_no_value)
                             ["f", "# c"]]}]}                    # filler: comment or blank line

The model is the *statement*, nothing else:
  * sections are listed in document order (first appearance), excluding exactly "DEFAULT";
  * option names are case-insensitive (reported lower-cased);
  * a later duplicate overrides an earlier one;
  * a section's own option beats the default; options of DEFAULT are visible in every section;
  * comment lines ("#" / ";" as first non-blank character, indented or not - the grammar's own Comment
    rule and configparser both allow leading white space) and blank lines contribute nothing;
  * a bare option name (no separator) is data with value None when the reader enables allow_no_value
    and contributes nothing otherwise (class docstring of IniConfigFile);
  * a continuation line (indented deeper than its key) belongs to the value; how the pieces are
    joined is not stated, so values are compared after normalising runs of whitespace.
"""
import collections
import configparser

DEFAULT = "DEFAULT"


def render(doc):
    lines = list(doc.get("pre", []))
    for b in doc["blocks"]:
        lines.append("[ %s ]" % b["name"] if b.get("hpad") else "[%s]" % b["name"])
        for e in b["entries"]:
            if e[0] == "f":
                lines.append(e[1])
                continue
            _, name, value, sep = e
            if value is None:
                lines.append(name)
                continue
            parts = value if isinstance(value, list) else [value]
            lines.append((name + sep + parts[0]).rstrip(" ") if parts[0] == "" else name + sep + parts[0])
            for p in parts[1:]:
                lines.append("    " + p)
    return lines


def norm(v):
    """Whitespace-normalised value (the joining of continuation pieces is not specified)."""
    return None if v is None else " ".join(v.split())


def value_of(entry):
    v = entry[2]
    return " ".join(v) if isinstance(v, list) else v


def is_data(entry, allow_no_value):
    return entry[0] == "o" and (entry[2] is not None or allow_no_value)


def has_continuation(doc):
    return any(e[0] == "o" and isinstance(e[2], list) for b in doc["blocks"] for e in b["entries"])


class View(object):
    """What the statement says a reader of the document must see."""

    def __init__(self, doc, allow_no_value=False):
        own = collections.OrderedDict()
        for b in doc["blocks"]:
            d = own.setdefault(b["name"].strip(), collections.OrderedDict())
            for e in b["entries"]:
                if is_data(e, allow_no_value):
                    k = e[1].strip().lower()
                    d.pop(k, None)
                    d[k] = (value_of(e), isinstance(e[2], list))          # later duplicate wins
        dflt = own.get(DEFAULT, {})
        self.defaults = dict((k, v[0]) for k, v in dflt.items())
        self.loose_defaults = set(k for k, v in dflt.items() if v[1])
        self.section_names = [s for s in own if s != DEFAULT]
        self.items = collections.OrderedDict()
        self.loose = {}                   # section -> option names whose value has a continuation line
        for s in self.section_names:
            m = dict(dflt)
            m.update(own[s])                      # own beats default
            self.items[s] = dict((k, v[0]) for k, v in m.items())
            self.loose[s] = set(k for k, v in m.items() if v[1])

    def as_plain(self):
        return {"sections": list(self.section_names),
                "items": {s: {k: norm(v) for k, v in d.items()} for s, d in self.items.items()},
                "defaults": {k: norm(v) for k, v in self.defaults.items()}}


_MISSING = object()


def second_model(doc, allow_no_value=False):
    """Independent second formulation (per-query, scanning the document backwards) used to keep
    the View honest: value(section, option) = the last own occurrence, else the last occurrence in
    DEFAULT, else absent."""
    def last(secname, opt):
        for b in reversed(doc["blocks"]):
            if b["name"].strip() != secname:
                continue
            for e in reversed(b["entries"]):
                if is_data(e, allow_no_value) and e[1].strip().lower() == opt:
                    return norm(value_of(e))
        return _MISSING
    names = []
    for b in doc["blocks"]:
        n = b["name"].strip()
        if n != DEFAULT and n not in names:
            names.append(n)
    opts = set(e[1].strip().lower() for b in doc["blocks"] for e in b["entries"] if e[0] == "o")
    items = {}
    for s in names:
        items[s] = {}
        for o in opts:
            v = last(s, o)
            if v is _MISSING:
                v = last(DEFAULT, o)
            if v is not _MISSING:
                items[s][o] = v
    dflt = {}
    for o in opts:
        v = last(DEFAULT, o)
        if v is not _MISSING:
            dflt[o] = v
    return {"sections": names, "items": items, "defaults": dflt}


def stdlib_view(lines, allow_no_value=False):
    """configparser's reading of the same text, or None when configparser rejects it.
    Non-strict (duplicates allowed, later wins), no interpolation, '#'/';' full-line comments."""
    cp = configparser.RawConfigParser(strict=False, delimiters=("=", ":"), comment_prefixes=("#", ";"),
                                      inline_comment_prefixes=None, default_section=DEFAULT,
                                      allow_no_value=allow_no_value)
    try:
        cp.read_string("\n".join(lines) + "\n")
    except configparser.Error:
        return None
    names = []
    items = {}
    for s in cp.sections():
        n = s.strip()
        if n in items:
            return None                      # "[s]" and "[ s ]" are different sections to configparser
        names.append(n)
        items[n] = {k: norm(v) for k, v in cp.items(s)}
    return {"sections": names, "items": items, "defaults": {k: norm(v) for k, v in cp.defaults().items()}}


def stdlib_comparable(doc):
    """configparser keeps header padding and treats "[ DEFAULT ]" as an ordinary section; only
    unpadded documents are cross-checked."""
    return not any(b.get("hpad") for b in doc["blocks"])


# ---- structural facts used as violation features ------------------------------------------------

def own_spellings(doc, secname, opt_lower):
    return [e[1].strip() for b in doc["blocks"] if b["name"].strip() == secname
            for e in b["entries"] if e[0] == "o" and e[1].strip().lower() == opt_lower]


def default_values(doc, opt_lower):
    return [norm(value_of(e)) for b in doc["blocks"] if b["name"].strip() == DEFAULT
            for e in b["entries"] if e[0] == "o" and e[1].strip().lower() == opt_lower]


def is_indented_comment(text):
    return text[:1] in (" ", "\t") and text.strip()[:1] in ("#", ";")


def indented_comment_follows(doc, secname, opt_lower):
    """Structural fact: some value line of this option (an own occurrence in the section or an
    occurrence in DEFAULT) is followed - skipping blank lines - by an indented comment line."""
    for b in doc["blocks"]:
        if b["name"].strip() not in (secname, DEFAULT):
            continue
        ents = b["entries"]
        for i, e in enumerate(ents):
            if e[0] == "o" and e[2] is not None and e[1].strip().lower() == opt_lower:
                j = i + 1
                while j < len(ents) and ents[j][0] == "f" and ents[j][1].strip() == "":
                    j += 1
                if j < len(ents) and ents[j][0] == "f" and is_indented_comment(ents[j][1]):
                    return True
    return False


def comment_features(doc, secname, opt_lower, expected, observed):
    """True only when the structure is present and the observed value is the expected one with
    something appended (the comment line was glued to the value)."""
    glued = (isinstance(observed, str) and isinstance(expected, str) and observed != expected
             and (observed.startswith(expected) or norm(observed).startswith(norm(expected))))
    return {"indented_comment_line_after_option_value": bool(glued and indented_comment_follows(doc, secname, opt_lower))}


def option_features(doc, secname, opt_lower, observed, expected=None):
    """Narrow structural facts about one (section, option) whose observed value is wrong.
    Each is True only when the structure is present *and* the observed value is one that DEFAULT
    holds for this option (i.e. the discrepancy is the one the structure explains)."""
    blocks_of_sec = [b for b in doc["blocks"] if b["name"].strip() == secname]
    per_block = [[e[1].strip() for e in b["entries"] if e[0] == "o" and e[1].strip().lower() == opt_lower]
                 for b in blocks_of_sec]
    own = [sp for ob in per_block for sp in ob]
    dsp = own_spellings(doc, DEFAULT, opt_lower)
    from_default = (isinstance(observed, str) or observed is None) and norm(observed) in default_values(doc, opt_lower) \
        and observed != "<absent>"
    feats = {}
    # some block of the section owns the option while DEFAULT spells it in a way that block does not use
    feats["default_option_differs_in_case_from_own"] = bool(
        from_default and any(ob and any(d not in ob for d in dsp) for ob in per_block))
    # the same spelling twice inside DEFAULT, the section has no own option of that name
    feats["duplicate_option_in_DEFAULT"] = bool(
        from_default and not own and len(dsp) != len(set(dsp)))
    # the section header occurs more than once; a block owns the option and a later block of the section does not
    has = [bool(ob) for ob in per_block]
    rep = bool(dsp) and any(h and not all(has[i + 1:]) for i, h in enumerate(has[:-1]))
    feats["section_header_repeated_with_DEFAULT"] = bool(from_default and rep)
    feats.update(comment_features(doc, secname, opt_lower, expected, observed))
    return feats
