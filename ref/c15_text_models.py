"""C15 - renderers and boring reference models for the non-INI helpers.

Everything here is written from the *statement* (render -> parse gives back what was rendered),
never from the implementation.  Where the statement is loose the weaker reading is taken and
said so next to the code.
"""
import collections

def strict_eq(a, b):
    """Equality that does not confuse True with 1, 0 with False, "" with None, or a list with a tuple
    (dict subclasses compare as dicts: an OrderedDict result is a dict)."""
    if isinstance(a, dict) and isinstance(b, dict):
        return set(a) == set(b) and all(strict_eq(a[k], b[k]) for k in a)
    if isinstance(a, list) and isinstance(b, list):
        return len(a) == len(b) and all(strict_eq(x, y) for x, y in zip(a, b))
    return type(a) is type(b) and a == b


SUBST = ("C 1", "C_1")       # the one header that contains a space and needs header_substitute


# ---- fixed-width tables ---------------------------------------------------------------------------

def fixed_render(case):
    """case: headers, gaps (len n-1), rows (list of cell lists), indent, rstrip, tab, junk, footer.
    tab: the last padding character of every padded column is a TAB (same width, so positions are unchanged)."""
    hs = case["headers"]
    n = len(hs)
    widths = [len(hs[i]) + case["gaps"][i] for i in range(n - 1)]
    ind = " " * case.get("indent", 0)
    tab = case.get("tab")

    def pad(c, w):
        t = c.ljust(w)
        return t[:-1] + "\t" if (tab and len(c) < w) else t

    def line(cells):
        s = ind + "".join(pad(c, w) for c, w in zip(cells[:-1], widths)) + cells[-1]
        return s.rstrip() if case.get("rstrip") else s
    lines = []
    if case.get("junk") is not None:
        lines.append(case["junk"])
    lines.append(ind + "".join(pad(h, w) for h, w in zip(hs[:-1], widths)) + hs[-1])
    for r in case["rows"]:
        lines.append(line(r))
    if case.get("footer") is not None:
        lines.extend(case["footer"])
    return lines


def fixed_starts(case):
    """Rendered start column of every header."""
    hs = case["headers"]
    out = [case.get("indent", 0)]
    for i in range(len(hs) - 1):
        out.append(out[-1] + len(hs[i]) + case["gaps"][i])
    return out


def fixed_kwargs(case):
    kw = {}
    if case.get("heading_ignore"):
        kw["heading_ignore"] = [case["headers"][0]]
    if case.get("trailing_ignore"):
        kw["trailing_ignore"] = ["Total"]
    if case.get("subst"):
        kw["header_substitute"] = [SUBST]
    return kw


def keys_of(case):
    return [SUBST[1] if (h == SUBST[0] and case.get("subst")) else h for h in case["headers"]]


def fixed_expected(case):
    """The rendered cells, keys in header order.  A row whose cells are all empty renders as a
    blank line and the statement itself says "blank lines never contribute data": it is not
    expected back (decided by the statement, and documented by the helper)."""
    ks = keys_of(case)
    return [dict(zip(ks, r)) for r in case["rows"] if any(c != "" for c in r)]


def fixed_header_ambiguity(case):
    """Structural fact: the text of some later header occurs in the header line *before* its own
    rendered position but after the start of the previous header, i.e. inside an earlier header.
    (Computed on the header line as the helper sees it, after header_substitute.)"""
    hs = keys_of(case)
    starts = fixed_starts(case)
    line = fixed_render(dict(case, rows=[], junk=None, footer=None))[0]
    if case.get("subst"):
        line = line.replace(*SUBST)
    for j in range(1, len(hs)):
        p = line.find(hs[j], starts[j - 1] + 1)
        if p != starts[j]:
            return True
    return False


# ---- delimited tables -----------------------------------------------------------------------------

def delim_render(case):
    """case: headers, delim (None = white space), header_delim ("same" | None | str), pad, rows."""
    d = case["delim"]
    hd = d if case["header_delim"] == "same" else case["header_delim"]
    pad = " " if case.get("pad") else ""

    def join(cells, sep):
        if sep is None:
            return " ".join(cells) if not case.get("pad") else "  ".join(cells)
        return (pad + sep + pad).join(cells)
    lines = []
    if case.get("junk") is not None:
        lines.append(case["junk"])
    lines.append(join(case["headers"], hd))
    for r in case["rows"]:
        lines.append(join(r, d))
    if case.get("footer") is not None:
        lines.extend(case["footer"])
    return lines


def delim_kwargs(case):
    kw = {"delim": case["delim"], "max_splits": case["max_splits"], "strip": case["strip"]}
    if case["header_delim"] != "same":
        kw["header_delim"] = case["header_delim"]
    if case.get("raw_line_key"):
        kw["raw_line_key"] = case["raw_line_key"]
    if case.get("heading_ignore"):
        kw["heading_ignore"] = [case["headers"][0]]
    if case.get("trailing_ignore"):
        kw["trailing_ignore"] = ["Total"]
    if case.get("subst"):
        kw["header_substitute"] = [SUBST]
    return kw


def delim_expected(case):
    """Row i -> {heading: cell}; a row with fewer cells than headings gives only the leading
    headings ("lines may contain less than this number of fields"); a row that renders as a blank
    line contributes nothing."""
    ks = keys_of(case)
    lines = delim_render(dict(case, junk=None, footer=None))[1:]
    out = []
    for r, text in zip(case["rows"], lines):
        if text.strip() == "":
            continue
        o = dict(zip(ks, r))
        if case.get("raw_line_key"):
            o[case["raw_line_key"]] = text
        out.append(o)
    return out


# ---- active lines / key-value / unsplit / option lists ---------------------------------------------

def active_ref(lines, comment_char):
    out = []
    for l in lines:
        p = l.find(comment_char)
        if p >= 0:
            l = l[:p]
        l = l.strip()
        if l:
            out.append(l)
    return out


def kv_ref(case):
    """First separator splits, later duplicate wins, comments and blanks contribute nothing.
    Returns (dict, key order).  With `ordered` the pairs come back "in order" and a later duplicate
    "overrides" the earlier one, i.e. takes its place: the key keeps its first position (this is
    also what the documented OrderedDict return type does)."""
    cc = case["comment_char"]
    so = case["split_on"]
    lines = case["lines"]
    if cc is not None:
        lines = active_ref(lines, cc)
    pairs = []
    for l in lines:
        if not l.strip():
            continue                     # a blank line never contributes data (also when comment_char is None)
        if case["filter_string"] is not None and case["filter_string"] not in l:
            continue
        p = l.find(so)
        if p >= 0:
            pairs.append((l[:p].strip(), l[p + len(so):].strip()))
        elif case["use_partition"]:
            pairs.append((l.strip(), ""))
    d = {}
    first = []
    for k, v in pairs:
        if k not in d:
            first.append(k)
        d[k] = v
    return d, first


def unsplit_render(case):
    """logical lines -> physical lines: every piece but the last of a logical line is followed by
    the continuation character (and optional trailing white space)."""
    cc, trail = case["cont_char"], case.get("trail", "")
    out = []
    for li, pieces in enumerate(case["logical"]):
        for i, p in enumerate(pieces):
            lastpiece = i == len(pieces) - 1
            dangling = lastpiece and li == len(case["logical"]) - 1 and case.get("dangling")
            out.append(p + cc + trail if (not lastpiece or dangling) else p)
    return out


def unsplit_expected(case):
    cc = case["cont_char"]
    out = []
    for li, pieces in enumerate(case["logical"]):
        s = (cc if case["keep"] else "").join(pieces)
        if li == len(case["logical"]) - 1 and case.get("dangling") and case["keep"]:
            s += cc
        out.append(s)
    return out


def optlist_render(case):
    ks = case["kv_sep"]
    parts = []
    for k, v in case["opts"]:
        parts.append(k if v is None else k + (ks if ks is not None else "=") + v)
    return case["opt_sep"].join(parts)


def optlist_expected(case):
    """Names present -> True, key<sep>value -> the value text (matching surrounding quotes removed
    when strip_quotes); later duplicate wins."""
    ks = case["kv_sep"]
    d = {}
    for k, v in case["opts"]:
        if v is None:
            d[k] = True
        elif ks is None:
            d[k + "=" + v] = True
        else:
            if case["strip_quotes"] and len(v) >= 2 and v[0] in "\"'" and v[-1] == v[0]:
                v = v[1:-1]
            d[k] = v
    return d


# ---- keyword_search --------------------------------------------------------------------------------

MATCHERS = ("contains", "startswith", "endswith", "lower_value")


def norm_key(k):
    return k.replace(" ", "_").replace("-", "_")


def _pred(matcher, s, v):
    if matcher == "equals":
        return s == v
    if s is None or v is None:
        return False
    if matcher == "contains":
        return v in s
    if matcher == "startswith":
        return s[:len(v)] == v
    if matcher == "endswith":
        return len(v) == 0 or s[-len(v):] == v
    if matcher == "lower_value":
        return s.lower() == v.lower()
    raise ValueError(matcher)


def search_terms(kwargs):
    out = []
    for kw, v in kwargs:
        field, sep, suffix = kw.partition("__")
        if sep and suffix in MATCHERS:
            out.append((field, suffix, v))
        else:
            out.append((kw, "equals", v))      # unknown suffix: the whole keyword names the field
    return out


def search_defined(rows, kwargs):
    """String matchers are only defined on strings (None data never matches)."""
    for field, m, v in search_terms(kwargs):
        if m == "equals":
            continue
        if not isinstance(v, str):
            return False
        for r in rows:
            for k, s in r.items():
                if norm_key(k) == field and s is not None and not isinstance(s, str):
                    return False
    return True


def search_ref(rows, kwargs, known_keys=None):
    """Indices of the rows that satisfy the conjunction of all field conditions.
    known_keys = None: the literal statement (a field is whatever key a row has);
    known_keys = iterable: the documented restriction (only these row keys are searchable,
    a condition on any other field can never match)."""
    if not kwargs or not rows:
        return []
    terms = search_terms(kwargs)
    out = []
    for i, r in enumerate(rows):
        ok = True
        for field, m, v in terms:
            key = None
            for k in r:
                if norm_key(k) == field and (known_keys is None or k in known_keys):
                    key = k
            if key is None or not _pred(m, r[key], v):
                ok = False
                break
        if ok:
            out.append(i)
    return out


def search_expected(rows, kwargs, row_keys_change):
    """Acceptable answers.  With row_keys_change=False the documentation says only the first
    row's keys are searchable; the literal statement has no such restriction - both are accepted."""
    acc = [search_ref(rows, kwargs)]
    if rows:
        known = set(rows[0]) if not row_keys_change else set(k for r in rows for k in r)
        alt = search_ref(rows, kwargs, known)
        if alt not in acc:
            acc.append(alt)
    return acc


def ordered_type():
    return collections.OrderedDict
