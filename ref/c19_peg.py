"""Reference semantics for C19: a direct PEG interpreter over grammar *terms*, and a second,
independent formulation (bottom-up tabular evaluation) used to cross-check the first.

A term is a nested list / tuple  [kind, arg...]:

  leaves   ["char", c]  ["inset", chars]  ["string", chars, min]  ["lit", text, ignore_case]
           ["litv", text, value]  ["any"]  ["eof"]
  unary    ["many", x, lower]  ["opt", x, default]  ["map", x]  ["mapbt", x]  ["lift1bt", x]  ["wrap", x]
           ["mark", x]  ["named", x]  ["debug", x]  ["twice", x]  ["retry", x]
  binary   ["seq", x, y]  ["alt", x, y]  ["kl", x, y]  ["kr", x, y]  ["fb", x, y]  ["nfb", x, y]
           ["until", x, y]  ["lift", x, y]  ["liftbt", x, y]  ["sepby", x, y]  ["rec", x, y]

Meaning (s = input string, i = position; a result is FAIL or (end, value)):

  seq     x then y; value [vx, vy] - built with the library's `+`, which *accumulates* onto a left
          operand that is itself a `+` sequence, so the value is vx + [vy] when x is a "seq" term
  alt     ordered choice: the result of x if x succeeds, otherwise the result of y
  kl/kr   x then y, value of x / of y                      (x << y, x >> y)
  fb/nfb  x, then y must succeed / fail at the new position; y consumes nothing   (x & y, x / y)
  many    greedy repetition, FAIL when fewer than `lower` matches
  until   repeat x until y would succeed or x fails; y consumes nothing; never fails
  opt     x, or (i, default) when x fails
  map     value F_total(v) - a total function whose image contains None, 0 and "" besides ("m", v)
  mapbt   value ("g", v) unless the function backtracks (odd length of the matched text) -> FAIL
  lift    x then y, value F_lift(vx, vy) (image contains None and [])
  lift1bt / liftbt   Lift with one / two arguments whose function raises Backtrack (odd length of the
          matched text) -> FAIL, otherwise value ("h", v) / ("H", vx, vy)
  wrap    identity;  mark  value ("mark", line, col, v) of the start position (1-based; a new line
          starts after each "\n")
  named / debug   x % "name" and x.debug(): identity
  twice   the SAME parser object used twice: Lift(F_lift) * p * p   = lift(x, x)
  retry   the SAME parser object in two alternatives: (p << EOF) | p   = x in position and value
  sepby   x.sep_by(y) = "zero or more instances of x separated by instances of y" (its docstring):
          x (y x)* or nothing; value = list of the values of the matched instances of x.  A separator
          that is not preceded by an instance is NOT part of the match.
  rec     F where F <= (x + F) | y        (one self-recursive shape through Forward)

Quantifier of the property: "repetition only over consuming sub-terms".  Whenever a repetition
(many, until, the Many inside sepby, the recursion of rec) meets a body that succeeds without
consuming, LOOP is signalled and the (term, input) pair is outside the property.

Both evaluators are deliberately boring and share no code besides the constants and G.
"""

FAIL = None


class Loop(Exception):
    """The reference applied a repetition to a sub-term that succeeded without consuming."""


LOOP = ("<loop>",)

# sep_by modes. STRICT is the reference meaning. LEADING_SEP exists only to *attribute* an observed
# divergence (it never decides that something is a violation): the definitional expansion
# Opt(x) then Many(y >> x), which also consumes "y x" when no first instance matched.
STRICT, LEADING_SEP = 0, 1


def _head(t):
    """Kind of the parser OBJECT a term builds: `%` and debug() return the object they were applied to."""
    while t[0] == "named" or t[0] == "debug":
        t = t[1]
    return t[0]


def flat(v):
    """Concatenated text of a value (strings inside lists; tagged tuples contribute their payload)."""
    if isinstance(v, str):
        return v
    if isinstance(v, list):
        return "".join(flat(x) for x in v)
    if isinstance(v, tuple):
        return "".join(flat(x) for x in v[1:])
    if hasattr(v, "lineno") and hasattr(v, "value"):      # the library's Mark object
        return flat(v.value)
    return ""


def G_backtracks(v):
    """The total, deterministic function behind `mapbt`: backtracks iff the matched text has odd length."""
    return len(flat(v)) % 2 == 1


def F_total(v):
    """The total function behind `map`; falsy results on purpose."""
    t = flat(v)
    if t == "":
        return None
    if t == "a":
        return 0
    if t == "b":
        return ""
    return ("m", v)


def F_lift(a, b):
    """The total function behind `lift` / `twice`."""
    t = flat(a) + flat(b)
    if t == "":
        return None
    if t == "a":
        return []
    return ("L", a, b)


def H2_backtracks(a, b):
    return (len(flat(a)) + len(flat(b))) % 2 == 1


def line_col(s, i):
    """1-based line and column of position i; a line ends with its "\n"."""
    line = 1
    start = 0
    for j in range(i):
        if s[j] == "\n":
            line += 1
            start = j + 1
    return line, i - start + 1


class Stats(object):
    absorbed = 0        # failures absorbed by alt / opt / many / until / nfb / sepby / rec in the last evaluate()
    sep_leading = 0     # sepby without a first instance at a position where "separator, instance" would match


# ---------------------------------------------------------------------------------------------
# 1. direct recursive interpreter
# ---------------------------------------------------------------------------------------------

def ev(t, s, i, mode=STRICT, st=Stats):
    k = t[0]
    n = len(s)
    if k == "char":
        return (i + 1, t[1]) if i < n and s[i] == t[1] else FAIL
    if k == "inset":
        return (i + 1, s[i]) if i < n and s[i] in t[1] else FAIL
    if k == "any":
        return (i + 1, s[i]) if i < n else FAIL
    if k == "eof":
        return (i, None) if i == n else FAIL
    if k == "string":
        j = i
        while j < n and s[j] in t[1]:
            j += 1
        return (j, s[i:j]) if j - i >= t[2] else FAIL
    if k == "lit":
        lit = t[1]
        seg = s[i:i + len(lit)]
        if t[2]:
            return (i + len(lit), seg) if len(seg) == len(lit) and seg.lower() == lit.lower() else FAIL
        return (i + len(lit), lit) if seg == lit else FAIL
    if k == "litv":
        return (i + len(t[1]), t[2]) if s[i:i + len(t[1])] == t[1] else FAIL
    if k == "seq":
        r = ev(t[1], s, i, mode, st)
        if r is FAIL:
            return FAIL
        r2 = ev(t[2], s, r[0], mode, st)
        if r2 is FAIL:
            return FAIL
        return (r2[0], (r[1] + [r2[1]]) if _head(t[1]) == "seq" else [r[1], r2[1]])
    if k == "alt":
        r = ev(t[1], s, i, mode, st)
        if r is not FAIL:
            return r
        st.absorbed += 1
        return ev(t[2], s, i, mode, st)
    if k == "many":
        vals = []
        while True:
            r = ev(t[1], s, i, mode, st)
            if r is FAIL:
                st.absorbed += 1
                break
            if r[0] == i:
                raise Loop()
            i = r[0]
            vals.append(r[1])
        return (i, vals) if len(vals) >= t[2] else FAIL
    if k == "opt":
        r = ev(t[1], s, i, mode, st)
        if r is not FAIL:
            return r
        st.absorbed += 1
        return (i, t[2])
    if k == "kl":
        r = ev(t[1], s, i, mode, st)
        if r is FAIL:
            return FAIL
        r2 = ev(t[2], s, r[0], mode, st)
        return (r2[0], r[1]) if r2 is not FAIL else FAIL
    if k == "kr":
        r = ev(t[1], s, i, mode, st)
        if r is FAIL:
            return FAIL
        return ev(t[2], s, r[0], mode, st)
    if k == "fb":
        r = ev(t[1], s, i, mode, st)
        if r is FAIL:
            return FAIL
        return r if ev(t[2], s, r[0], mode, st) is not FAIL else FAIL
    if k == "nfb":
        r = ev(t[1], s, i, mode, st)
        if r is FAIL:
            return FAIL
        if ev(t[2], s, r[0], mode, st) is FAIL:
            st.absorbed += 1
            return r
        return FAIL
    if k == "until":
        vals = []
        while True:
            if ev(t[2], s, i, mode, st) is not FAIL:
                break
            st.absorbed += 1
            r = ev(t[1], s, i, mode, st)
            if r is FAIL:
                st.absorbed += 1
                break
            if r[0] == i:
                raise Loop()
            i = r[0]
            vals.append(r[1])
        return (i, vals)
    if k == "map":
        r = ev(t[1], s, i, mode, st)
        return (r[0], F_total(r[1])) if r is not FAIL else FAIL
    if k == "mapbt":
        r = ev(t[1], s, i, mode, st)
        if r is FAIL or G_backtracks(r[1]):
            return FAIL
        return (r[0], ("g", r[1]))
    if k == "lift1bt":
        r = ev(t[1], s, i, mode, st)
        if r is FAIL or G_backtracks(r[1]):
            return FAIL
        return (r[0], ("h", r[1]))
    if k == "wrap" or k == "named" or k == "debug":
        return ev(t[1], s, i, mode, st)
    if k == "mark":
        r = ev(t[1], s, i, mode, st)
        if r is FAIL:
            return FAIL
        line, col = line_col(s, i)
        return (r[0], ("mark", line, col, r[1]))
    if k == "retry":
        r = ev(t[1], s, i, mode, st)
        if r is not FAIL and r[0] != n:
            st.absorbed += 1            # (x << EOF) failed after x matched; x is tried again from i
        return r
    if k == "lift" or k == "liftbt" or k == "twice":
        r = ev(t[1], s, i, mode, st)
        if r is FAIL:
            return FAIL
        r2 = ev(t[1] if k == "twice" else t[2], s, r[0], mode, st)
        if r2 is FAIL:
            return FAIL
        if k == "liftbt":
            return FAIL if H2_backtracks(r[1], r2[1]) else (r2[0], ("H", r[1], r2[1]))
        return (r2[0], F_lift(r[1], r2[1]))
    if k == "sepby":
        start = i
        r = ev(t[1], s, i, mode, st)
        if r is FAIL:
            st.absorbed += 1
            vals = []
        else:
            i = r[0]
            vals = [r[1]]
        rounds = 0
        while True:
            # without a first instance the reference still walks through what the definitional
            # expansion Many(y >> x) would try, so that the LOOP quantifier stays aligned with the code
            r1 = ev(t[2], s, i, mode, st)
            if r1 is FAIL:
                st.absorbed += 1
                break
            r2 = ev(t[1], s, r1[0], mode, st)
            if r2 is FAIL:
                st.absorbed += 1
                break
            if r2[0] == i:
                raise Loop()
            i = r2[0]
            vals.append(r2[1])
            rounds += 1
        if r is FAIL and rounds:
            st.sep_leading += 1
            if mode == STRICT:
                return (start, [])       # a separator not preceded by an instance is not part of the match
        return (i, vals)
    if k == "rec":
        r = ev(t[1], s, i, mode, st)
        if r is not FAIL:
            if r[0] == i:
                raise Loop()            # F would be re-entered at the same position
            r2 = ev(t, s, r[0], mode, st)
            if r2 is not FAIL:
                return (r2[0], (r[1] + [r2[1]]) if _head(t[1]) == "seq" else [r[1], r2[1]])
        st.absorbed += 1
        return ev(t[2], s, i, mode, st)
    raise ValueError("unknown term kind %r" % (k,))


def evaluate(t, s, mode=STRICT):
    """-> LOOP | FAIL | (end, value); Stats holds the counters of this evaluation afterwards."""
    Stats.absorbed = 0
    Stats.sep_leading = 0
    try:
        r = ev(t, s, 0, mode)
    except Loop:
        return LOOP
    return r


# ---------------------------------------------------------------------------------------------
# 2. second formulation: bottom-up tabular evaluation (every sub-term at every position, from
#    the end of the input backwards; repetition written as right recursion  R = x R / eps)
# ---------------------------------------------------------------------------------------------

def _postorder(t, out, seen):
    """Children before parents; a sub-term object that occurs twice is listed once."""
    if id(t) in seen:
        return
    for c in t[1:]:
        if isinstance(c, (list, tuple)):
            _postorder(c, out, seen)
    seen.add(id(t))
    out.append(t)


def tabular(t, s):
    """Returns LOOP, FAIL or (end, value) for term t on all of s starting at 0 (STRICT mode)."""
    nodes = []
    _postorder(t, nodes, set())
    index = {}
    for idx, nd in enumerate(nodes):
        index[id(nd)] = idx
    n = len(s)
    # table[idx][pos]; many/until/sepby keep a second row for the unbounded repetition tail
    table = [[FAIL] * (n + 1) for _ in nodes]
    tail = [[FAIL] * (n + 1) for _ in nodes]

    def sub(nd, which):
        return table[index[id(nd[which])]]

    for pos in range(n, -1, -1):
        for idx, nd in enumerate(nodes):
            k = nd[0]
            res = FAIL
            if k == "char":
                if s[pos:pos + 1] == nd[1]:
                    res = (pos + 1, nd[1])
            elif k == "inset":
                if pos < n and nd[1].find(s[pos]) >= 0:
                    res = (pos + 1, s[pos])
            elif k == "any":
                if pos < n:
                    res = (pos + 1, s[pos])
            elif k == "eof":
                if pos == n:
                    res = (pos, None)
            elif k == "string":
                m = 0
                for ch in s[pos:]:
                    if ch not in nd[1]:
                        break
                    m += 1
                if m >= nd[2]:
                    res = (pos + m, s[pos:pos + m])
            elif k == "lit":
                piece = s[pos:pos + len(nd[1])]
                if nd[2]:
                    if piece.upper() == nd[1].upper() and len(piece) == len(nd[1]):
                        res = (pos + len(piece), piece)
                elif s.startswith(nd[1], pos):
                    res = (pos + len(nd[1]), nd[1])
            elif k == "litv":
                if s.startswith(nd[1], pos):
                    res = (pos + len(nd[1]), nd[2])
            elif k in ("seq", "kl", "kr", "lift", "liftbt", "twice", "fb", "nfb"):
                a = sub(nd, 1)[pos]
                if a is LOOP:
                    res = LOOP
                elif a is not FAIL:
                    b = sub(nd, 1 if k == "twice" else 2)[a[0]]
                    if b is LOOP:
                        res = LOOP
                    elif k == "fb":
                        res = a if b is not FAIL else FAIL
                    elif k == "nfb":
                        res = a if b is FAIL else FAIL
                    elif b is not FAIL:
                        if k == "seq":
                            res = (b[0], a[1] + [b[1]] if _head(nd[1]) == "seq" else [a[1], b[1]])
                        elif k == "kl":
                            res = (b[0], a[1])
                        elif k == "kr":
                            res = b
                        elif k == "liftbt":
                            if (len(flat([a[1], b[1]])) & 1) == 0:
                                res = (b[0], ("H", a[1], b[1]))
                        else:
                            res = (b[0], F_lift(a[1], b[1]))
            elif k == "alt":
                a = sub(nd, 1)[pos]
                res = a if a is not FAIL else sub(nd, 2)[pos]
            elif k == "opt":
                a = sub(nd, 1)[pos]
                res = a if a is not FAIL else (pos, nd[2])
            elif k in ("map", "mapbt", "lift1bt", "wrap", "named", "debug", "retry", "mark"):
                a = sub(nd, 1)[pos]
                if a is LOOP or a is FAIL:
                    res = a
                elif k == "map":
                    res = (a[0], F_total(a[1]))
                elif k == "mapbt" or k == "lift1bt":
                    res = FAIL if G_backtracks(a[1]) else (a[0], ("g" if k == "mapbt" else "h", a[1]))
                elif k == "mark":
                    before = s[:pos]
                    res = (a[0], ("mark", before.count("\n") + 1, pos - (before.rfind("\n") + 1) + 1, a[1]))
                else:
                    res = a             # wrap, named, debug; retry = (x << EOF) | x gives x's result either way
            elif k == "many":
                # R = x R / eps ; many = R with at least `lower` items
                a = sub(nd, 1)[pos]
                if a is LOOP:
                    r = LOOP
                elif a is FAIL:
                    r = (pos, [])
                elif a[0] == pos:
                    r = LOOP
                else:
                    rest = tail[idx][a[0]]
                    r = LOOP if rest is LOOP else (rest[0], [a[1]] + rest[1])
                tail[idx][pos] = r
                res = r if (r is LOOP or len(r[1]) >= nd[2]) else FAIL
            elif k == "until":
                # U = &y eps / x U / eps
                stop = sub(nd, 2)[pos]
                if stop is LOOP:
                    res = LOOP
                elif stop is not FAIL:
                    res = (pos, [])
                else:
                    a = sub(nd, 1)[pos]
                    if a is LOOP:
                        res = LOOP
                    elif a is FAIL:
                        res = (pos, [])
                    elif a[0] == pos:
                        res = LOOP
                    else:
                        rest = table[idx][a[0]]
                        res = LOOP if rest is LOOP else (rest[0], [a[1]] + rest[1])
            elif k == "sepby":
                # T = y x T / eps    (the tail after the optional first instance)
                sep = sub(nd, 2)[pos]
                if sep is LOOP:
                    r = LOOP
                elif sep is FAIL:
                    r = (pos, [])
                else:
                    item = sub(nd, 1)[sep[0]]
                    if item is LOOP:
                        r = LOOP
                    elif item is FAIL:
                        r = (pos, [])
                    elif item[0] == pos:
                        r = LOOP
                    else:
                        rest = tail[idx][item[0]]
                        r = LOOP if rest is LOOP else (rest[0], [item[1]] + rest[1])
                tail[idx][pos] = r
                first = sub(nd, 1)[pos]
                if first is LOOP:
                    res = LOOP
                elif first is FAIL:
                    res = LOOP if r is LOOP else (pos, [])     # no instance: nothing is matched
                else:
                    rest = tail[idx][first[0]]
                    res = LOOP if rest is LOOP else (rest[0], [first[1]] + rest[1])
            elif k == "rec":
                # F = x F / y
                a = sub(nd, 1)[pos]
                took = False
                if a is LOOP:
                    res = LOOP
                    took = True
                elif a is not FAIL:
                    if a[0] == pos:
                        res = LOOP
                        took = True
                    else:
                        f = table[idx][a[0]]
                        if f is LOOP:
                            res = LOOP
                            took = True
                        elif f is not FAIL:
                            res = (f[0], a[1] + [f[1]] if _head(nd[1]) == "seq" else [a[1], f[1]])
                            took = True
                if not took:
                    res = sub(nd, 2)[pos]
            else:
                raise ValueError("unknown term kind %r" % (k,))
            table[idx][pos] = res
    return table[len(nodes) - 1][0]
