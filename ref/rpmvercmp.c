/* Reference oracle for C13: transcription of rpmvercmp() from the rpm project
 * (lib/rpmvercmp.c, version with tilde and caret support). Character classes are rpm's own
 * ASCII-only risalnum/risalpha/risdigit, so every byte >= 0x80 is a separator.
 * Validated at start-up against the official rpmvercmp.at table (ref/rpmvercmp_at.txt). */
#include <string.h>
#include <stdlib.h>

static int risdigit(int c) { return c >= '0' && c <= '9'; }
static int risalpha(int c) { return (c >= 'a' && c <= 'z') || (c >= 'A' && c <= 'Z'); }
static int risalnum(int c) { return risalpha(c) || risdigit(c); }

int ref_rpmvercmp(const char *a, const char *b)
{
    if (strcmp(a, b) == 0) return 0;

    char oldch1, oldch2;
    size_t la = strlen(a), lb = strlen(b);
    char *abuf = malloc(la + 1), *bbuf = malloc(lb + 1);
    char *str1 = abuf, *str2 = bbuf;
    char *one, *two;
    int rc, isnum, result;

    strcpy(str1, a);
    strcpy(str2, b);
    one = str1;
    two = str2;

#define RET(x) do { result = (x); goto done; } while (0)

    while (*one || *two) {
        while (*one && !risalnum((unsigned char)*one) && *one != '~' && *one != '^') one++;
        while (*two && !risalnum((unsigned char)*two) && *two != '~' && *two != '^') two++;

        if (*one == '~' || *two == '~') {
            if (*one != '~') RET(1);
            if (*two != '~') RET(-1);
            one++;
            two++;
            continue;
        }

        if (*one == '^' || *two == '^') {
            if (!*one) RET(-1);
            if (!*two) RET(1);
            if (*one != '^') RET(1);
            if (*two != '^') RET(-1);
            one++;
            two++;
            continue;
        }

        if (!(*one && *two)) break;

        str1 = one;
        str2 = two;

        if (risdigit((unsigned char)*str1)) {
            while (*str1 && risdigit((unsigned char)*str1)) str1++;
            while (*str2 && risdigit((unsigned char)*str2)) str2++;
            isnum = 1;
        } else {
            while (*str1 && risalpha((unsigned char)*str1)) str1++;
            while (*str2 && risalpha((unsigned char)*str2)) str2++;
            isnum = 0;
        }

        oldch1 = *str1;
        *str1 = '\0';
        oldch2 = *str2;
        *str2 = '\0';

        if (one == str1) RET(-1);
        if (two == str2) RET(isnum ? 1 : -1);

        if (isnum) {
            size_t onelen, twolen;
            while (*one == '0') one++;
            while (*two == '0') two++;
            onelen = strlen(one);
            twolen = strlen(two);
            if (onelen > twolen) RET(1);
            if (twolen > onelen) RET(-1);
        }

        rc = strcmp(one, two);
        if (rc) RET(rc < 1 ? -1 : 1);

        *str1 = oldch1;
        one = str1;
        *str2 = oldch2;
        two = str2;
    }

    if ((!*one) && (!*two)) RET(0);
    if (!*one) RET(-1); else RET(1);

done:
    free(abuf);
    free(bbuf);
    return result;
}

/* batch entry: n pairs given as two arrays of C strings; results written to out */
void ref_rpmvercmp_batch(int n, const char **as, const char **bs, signed char *out)
{
    for (int i = 0; i < n; i++) out[i] = (signed char)ref_rpmvercmp(as[i], bs[i]);
}

/* all ordered pairs of one universe: out[i*n+j] = cmp(u[i], u[j]) */
void ref_rpmvercmp_matrix(int n, const char **u, int row_lo, int row_hi, signed char *out)
{
    for (int i = row_lo; i < row_hi; i++)
        for (int j = 0; j < n; j++)
            out[(size_t)(i - row_lo) * n + j] = (signed char)ref_rpmvercmp(u[i], u[j]);
}
