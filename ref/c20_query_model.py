"""Reference model of insights.parsr.query for C20 (boring on purpose; no insights imports).

Everything is defined over plain JSON descriptors.

Values          names are str, attributes are str or int; the UL universes add list / dict valued attributes (what
                from_dict produces for nested lists): a literal compares with ==, ordering predicates and str
                methods raise on them (=> not matching).  contains / isin are not asked about such values (the
                statement does not say whether `"x" in ["x"]` is "contains").
Predicate  B := ["p", family, arg] | ["not", B] | ["and", B, B+] | ["or", B, B+]      (and/or are n-ary)
Name query NQ := ["lit", s] | ["none"] | ["bool", B] | ["fn", kind]         (kind: a raw python callable)
Attr query AQ := ["lit", v] | ["bool", B] | ["fn", kind]
Entry query EQ := ["any", AQ] | ["all", AQ] | ["not", EQ] | ["and", EQ, EQ] | ["or", EQ, EQ]
Level      LQ := ["name", NQ] | ["tuple", NQ, AQ+] | ["tuple", NQ, ["entry", EQ]] | ["entry", EQ]
Where      WQ := ["q", LQ] | ["not", WQ] | ["and", WQ, WQ] | ["or", WQ, WQ] | ["fn", kind]
Forest        := [[name, [attr...], Forest], ...]

Readings fixed here (the weaker one wherever the property text is loose):

* A boolean combination is ONE predicate: it is evaluated with Python's short-circuit and/or/not and
  "a query whose predicate raises counts as not matching" means: if that evaluation raises, the whole
  predicate is False for that value.  A leaf that would raise but is skipped by short-circuiting did
  not raise.  (eval_compiled)
* Every element of a query tuple (the name query, each attribute query, the argument of any_/all_) is its
  own predicate in the above sense; their results are combined as documented: name AND (any attribute
  satisfies any of the attribute queries).
* A case-insensitive predicate lowers its argument and lowers *string* values; a non-string value is
  compared as it is (this is what the interpreted evaluator documents by its isinstance test).
* Result order: document order, i.e. ascending pre-order position, for every option combination - the statement
  says "returns, in document order, exactly the nodes ... (or at any depth for a deep search)".  The match SET is
  defined level by level: level 1 candidates are the start nodes (deep: all their descendants-or-self); level
  i+1 candidates are the children of the level i matches.  select_levelwise also returns the order in which a
  level-by-level walk meets the results ("match-path order"); for one-level and for non-deep queries the two
  orders coincide, for deep multi-level queries with nested level-1 matches they do not - the driver uses the
  match-path order only to attribute a violation narrowly to that known family.
* roots: every result is replaced by its ultimate ancestor (the node reached by following parent links
  to the end; for a parsed document that is the document container itself), duplicates dropped, first
  hit first.
"""
import re

DOC = -1          # identity of the document container (an Entry without name) in result lists


class Raised(Exception):
    """A predicate function raised on this value."""


# ---- predicates ------------------------------------------------------------------------------------

def _str(v):
    if not isinstance(v, str):
        raise Raised()
    return v


def _same_kind(v, a):
    if v is None or a is None or isinstance(v, str) != isinstance(a, str):
        raise Raised()              # '<' between str and int, or with None, raises TypeError
    if isinstance(v, (list, dict)) or isinstance(a, (list, dict)):
        raise Raised()              # '<' between a list / dict valued attribute and a number raises TypeError


def _eq(v, a):
    return v == a


def _lt(v, a):
    _same_kind(v, a)
    return v < a


def _le(v, a):
    _same_kind(v, a)
    return v <= a


def _gt(v, a):
    _same_kind(v, a)
    return v > a


def _ge(v, a):
    _same_kind(v, a)
    return v >= a


def _isin(v, a):
    return any(v == x for x in a)


def _matches(v, a):
    return re.search(a, _str(v)) is not None


def _contains(v, a):
    return a in _str(v)


def _startswith(v, a):
    return _str(v).startswith(a)


def _endswith(v, a):
    return _str(v).endswith(a)


BASE = {"eq": _eq, "lt": _lt, "le": _le, "gt": _gt, "ge": _ge, "isin": _isin, "matches": _matches,
        "contains": _contains, "startswith": _startswith, "endswith": _endswith}
CASELESS = {"ieq": "eq", "icontains": "contains", "istartswith": "startswith", "iendswith": "endswith"}
FAMILIES = sorted(BASE) + sorted(CASELESS) + ["raise"]


def leaf(fam, arg, v, defect=False):
    """Truth of one predicate on one value; raises Raised where the predicate function raises.
    defect=True models the known defect (compiled caseless predicate calls value.lower() on anything)."""
    if fam == "raise":
        raise Raised()
    if fam in CASELESS:
        if isinstance(v, str):
            v = v.lower()
        elif defect:
            raise Raised()
        return bool(BASE[CASELESS[fam]](v, arg.lower()))
    return bool(BASE[fam](v, arg))


def _ev(b, v, defect):
    k = b[0]
    if k == "p":
        return leaf(b[1], b[2], v, defect)
    if k == "not":
        return not _ev(b[1], v, defect)
    if k == "and":
        for x in b[1:]:
            if not _ev(x, v, defect):
                return False
        return True
    if k == "or":
        for x in b[1:]:
            if _ev(x, v, defect):
                return True
        return False
    raise ValueError(b)


def eval_compiled(b, v, defect=False):
    """One predicate, short-circuit evaluation, raising => not matching."""
    try:
        return bool(_ev(b, v, defect))
    except Raised:
        return False


def reaches_raise(b, v, defect=False):
    try:
        _ev(b, v, defect)
        return False
    except Raised:
        return True


def eval_leafwise(b, v):
    """Second formulation: every leaf that raises is False, then plain boolean algebra without
    short-circuiting.  Coincides with eval_compiled whenever no leaf raises on v."""
    k = b[0]
    if k == "p":
        try:
            return leaf(b[1], b[2], v)
        except Raised:
            return False
    if k == "not":
        return not eval_leafwise(b[1], v)
    vals = [eval_leafwise(x, v) for x in b[1:]]
    return (False not in vals) if k == "and" else (True in vals)


def leaves(b, under_not=False):
    """[(family, arg, under_not)] of a predicate expression."""
    if b[0] == "p":
        return [(b[1], b[2], under_not)]
    if b[0] == "not":
        return leaves(b[1], True)
    out = []
    for x in b[1:]:
        out += leaves(x, under_not)
    return out


def any_leaf_raises(b, v):
    for fam, arg, _ in leaves(b):
        try:
            leaf(fam, arg, v)
        except Raised:
            return True
    return False


def caseless_on_nonstring(b, v):
    """(present, under_not): b has a case-insensitive leaf whose function does not raise on the
    non-string value v (so only the compiled form's value.lower() can raise)."""
    if isinstance(v, str):
        return (False, False)
    hit = False
    neg = False
    for fam, arg, un in leaves(b):
        if fam in CASELESS:
            try:
                leaf(fam, arg, v)
            except Raised:
                continue
            hit = True
            neg = neg or un
    return (hit, neg)


# ---- query elements --------------------------------------------------------------------------------

# raw python callables handed to the implementation ...
FN = {"raise": None, "eq_a": lambda v: v == "a", "self": lambda v: v,
      "str_x": lambda v: v.startswith("x"),          # raises on every non-string value
      "lt2": lambda v: v < 2}                         # raises on strings and on None


# ... and what they mean, written out (a callable that raises on a value does not match that value)
def fn_eval(kind, v):
    if kind == "raise":
        return False
    if kind == "eq_a":
        return v == "a"
    if kind == "self":
        return bool(v)
    if kind == "str_x":
        return isinstance(v, str) and v[:1] == "x"
    if kind == "lt2":
        return isinstance(v, int) and v < 2
    raise ValueError(kind)


def name_match(nq, name, defect=False):
    k = nq[0]
    if k == "none":
        return True
    if k == "lit":
        return name == nq[1]
    if k == "bool":
        return eval_compiled(nq[1], name, defect)
    if k == "fn":
        return fn_eval(nq[1], name)
    raise ValueError(nq)


def attr_pred(aq, v, defect=False):
    k = aq[0]
    if k == "lit":
        return v == aq[1]
    if k == "bool":
        return eval_compiled(aq[1], v, defect)
    if k == "fn":
        return fn_eval(aq[1], v)
    raise ValueError(aq)


def entry_eval(eq, attrs, defect=False):
    k = eq[0]
    if k == "any":
        return any(attr_pred(eq[1], a, defect) for a in attrs)
    if k == "all":
        return all(attr_pred(eq[1], a, defect) for a in attrs)
    if k == "not":
        return not entry_eval(eq[1], attrs, defect)
    if k == "and":
        return entry_eval(eq[1], attrs, defect) and entry_eval(eq[2], attrs, defect)
    if k == "or":
        return entry_eval(eq[1], attrs, defect) or entry_eval(eq[2], attrs, defect)
    raise ValueError(eq)


def level_match(lq, name, attrs, defect=False):
    k = lq[0]
    if k == "name":
        return name_match(lq[1], name, defect)
    if k == "entry":
        return entry_eval(lq[1], attrs, defect)
    if k == "tuple":
        if not name_match(lq[1], name, defect):
            return False
        aqs = lq[2:]
        if len(aqs) == 1 and aqs[0][0] == "entry":
            return entry_eval(aqs[0][1], attrs, defect)
        return any(any(attr_pred(aq, a, defect) for aq in aqs) for a in attrs)
    raise ValueError(lq)


def level_bools(lq):
    """Every (predicate expression, position) of a level query; position is 'name' or 'attr'."""
    out = []

    def from_eq(eq):
        if eq[0] in ("any", "all"):
            if eq[1][0] == "bool":
                out.append((eq[1][1], "attr"))
        else:
            for s in eq[1:]:
                from_eq(s)
    if lq[0] == "entry":
        from_eq(lq[1])
        return out
    if lq[1][0] == "bool":
        out.append((lq[1][1], "name"))
    for aq in lq[2:]:
        if aq[0] == "bool":
            out.append((aq[1], "attr"))
        elif aq[0] == "entry":
            from_eq(aq[1])
    return out


# ---- trees -----------------------------------------------------------------------------------------

class Tree(object):
    """Pre-order numbered forest. parent[i] == DOC for top-level nodes."""

    def __init__(self, forest):
        self.name = []
        self.attrs = []
        self.parent = []
        self.kids = []
        self.top = []
        self.tops = []

        def add(t, parent, top):
            i = len(self.name)
            self.name.append(t[0])
            self.attrs.append(tuple(t[1]))
            self.parent.append(parent)
            self.kids.append([])
            self.top.append(i if top is None else top)
            if parent == DOC:
                self.tops.append(i)
            else:
                self.kids[parent].append(i)
            for c in t[2]:
                add(c, i, i if top is None else top)
        for t in forest:
            add(t, DOC, None)
        self.n = len(self.name)

    def flatten(self, nodes):
        out = []

        def walk(i):
            out.append(i)
            for k in self.kids[i]:
                walk(k)
        for i in nodes:
            walk(i)
        return out

    def root_of(self, i, has_container):
        return DOC if has_container else self.top[i]


def select_levelwise(tree, start, sat, nlevels, deep):
    """sat(level_index, node) -> bool.  Returns (results in match-path order, trace) where
    trace[i] = (candidates, matches) of level i."""
    nodes = tree.flatten(start) if deep else list(start)
    trace = []
    res = []
    for lv in range(nlevels):
        res = [n for n in nodes if sat(lv, n)]
        trace.append((len(nodes), len(res)))
        if not res:
            break
        if lv + 1 < nlevels:
            nodes = [k for n in res for k in tree.kids[n]]
    return res, trace


def doc_order(tree, start, res):
    """Document order relative to the queried node list: the position in the pre-order walk of the start nodes.
    For a document (start nodes in ascending pre-order number) this is simply ascending number; for a Result that
    gathers nodes of several documents in its own order it is the order the Result presents them in."""
    pos = {}
    for i, n in enumerate(tree.flatten(start)):
        pos.setdefault(n, i)
    return sorted(res, key=lambda n: pos[n])


def finish(tree, res, roots, has_container):
    return to_roots(tree, res, has_container) if roots else list(res)


def to_roots(tree, res, has_container):
    return dedup([tree.root_of(r, has_container) for r in res])


def dedup(xs):
    out = []
    for x in xs:
        if x not in out:
            out.append(x)
    return out


def select_pathwise(tree, start, sat, nlevels, deep):
    """Second, independent formulation: r is a result iff the chain of its nlevels-1 nearest ancestors
    plus r itself satisfies the levels one by one and the chain begins inside the start set (deep: at
    any descendant-or-self of the start set).  Returns (results in document order, results in match-path
    order = lexicographic order of the chains)."""
    first_ok = set(tree.flatten(start) if deep else start)
    hits = []
    order = []
    for n in tree.flatten(start):          # document order relative to the queried node list, every node once
        if n not in order:
            order.append(n)
    position = dict((n, i) for i, n in enumerate(order))
    for r in order:
        chain = [r]
        while len(chain) < nlevels and chain[0] != DOC:
            chain.insert(0, tree.parent[chain[0]])
        if len(chain) < nlevels or chain[0] == DOC or chain[0] not in first_ok:
            continue
        if all(sat(i, n) for i, n in enumerate(chain)):
            hits.append((tuple(position.get(c, -1) for c in chain), r))
    in_doc_order = [r for _, r in hits]
    hits.sort()
    return in_doc_order, [r for _, r in hits]


def where_match(wq, tree, node, defect=False):
    k = wq[0]
    if k == "q":
        return any(level_match(wq[1], tree.name[c], tree.attrs[c], defect) for c in tree.kids[node])
    if k == "not":
        return not where_match(wq[1], tree, node, defect)
    if k == "and":
        return where_match(wq[1], tree, node, defect) and where_match(wq[2], tree, node, defect)
    if k == "or":
        return where_match(wq[1], tree, node, defect) or where_match(wq[2], tree, node, defect)
    if k == "fn":
        if wq[1] == "raise":
            return False
        if wq[1] == "has_kids":
            return len(tree.kids[node]) > 0
    raise ValueError(wq)


def where_bools(wq):
    if wq[0] == "q":
        return level_bools(wq[1])
    if wq[0] == "fn":
        return []
    out = []
    for s in wq[1:]:
        out += where_bools(s)
    return out
