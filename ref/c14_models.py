"""Reference models for C14 (base parsers). Boring on purpose; no insights imports.

Four models, each with a second, independently written formulation used for cross-checking:

* command_is_bad / command_is_bad_2        the documented bad-line rule of CommandParser
* json_expect / yaml_expect                the allowed outcomes of the JSON / YAML base parsers
* search / search_2                        line search with all/any, limit and reverse
* time_after / time_after_2                the get_after docstring state machine
"""
import datetime
import json
import re

# ---------------------------------------------------------------------------------------------
# (a) CommandParser: documented phrases and rule
# ---------------------------------------------------------------------------------------------

SINGLE_PHRASES = ["no such file or directory", "not a directory", "command not found",
                  "no module named", "no files found for"]
MULTI_PHRASES = ["missing dependencies:"]


def command_is_bad(lines, extra):
    """CommandParser docstring: a single line containing one of bad_single_lines or extra_bad_lines;
    or several lines of which one contains one of bad_lines or extra_bad_lines.  Containment is
    case-insensitive (the lists are documented as all lower case)."""
    extra = list(extra or [])
    if len(lines) == 0:
        return False
    phrases = (SINGLE_PHRASES if len(lines) == 1 else MULTI_PHRASES) + extra
    return any(p in l.lower() for l in lines for p in phrases)


def command_is_bad_2(lines, extra):
    """Second formulation: case-insensitive regular-expression search, branch per list."""
    def hit(phrases):
        for l in lines:
            for p in phrases:
                if re.search(re.escape(p), l, re.IGNORECASE):
                    return True
        return False
    n = len(lines)
    if n == 1 and hit(SINGLE_PHRASES):
        return True
    if n > 1 and hit(MULTI_PHRASES):
        return True
    return n >= 1 and bool(extra) and hit(list(extra))


# ---------------------------------------------------------------------------------------------
# (b) JSON / YAML: allowed outcomes
# ---------------------------------------------------------------------------------------------
# An expectation is a dict {"skip": bool, "parse": bool, "values": [v, ...], "unparsed": list|None, "why": str}
# meaning: raising SkipComponent is allowed iff skip, raising ParseException iff parse, returning
# normally with data strictly equal to one of values.  Nothing else is ever allowed.

def same(a, b):
    """Strict structural equality (True != 1, 1 != 1.0, key order irrelevant)."""
    if type(a) is not type(b):
        return False
    if isinstance(a, dict):
        if len(a) != len(b):
            return False
        for k in a:
            if k not in b:
                return False
            kb = [x for x in b if x == k and type(x) is type(k)]
            if not kb or not same(a[k], b[kb[0]]):
                return False
        return True
    if isinstance(a, (list, tuple)):
        return len(a) == len(b) and all(same(x, y) for x, y in zip(a, b))
    if isinstance(a, float) and a != a:
        return b != b
    return a == b


def _exp(skip=False, parse=False, values=(), unparsed=None, why=""):
    return {"skip": skip, "parse": parse, "values": list(values), "unparsed": unparsed, "why": why}


def _json_decode(text):
    """('ok', value) or ('err', exception type name) from the stdlib decoder."""
    try:
        return "ok", json.loads(text)
    except BaseException as ex:                 # RecursionError for absurd nesting included
        return "err", type(ex).__name__


def _starts_doc(line):
    s = line.strip()
    return s.startswith("{") or s.startswith("[")


def json_expect(inp):
    """Allowed outcomes of JSONParser for list-of-lines or str input.

    Strict (the statement decides, the unchanged tree agrees):
             no lines / empty string -> skip; a `null` document -> skip; a document that starts
             (first line beginning with { or [, noise lines before it are skipped: documented for
             list input) and decodes to a mapping/sequence -> exactly that value - an EMPTY {} / [] included:
             it is a valid mapping/sequence document, not an 'empty document' - and
             unparsed_lines == the skipped noise lines; undecodable -> parse error.
    Lenient (the statement is silent or the documentation contradicts it; kept as narrow as possible):
             scalar documents: the scalar (what the class documents: only decoder errors are parse errors) or a
             parse error (what the statement's 'anything else' says) - never a skip;
             whitespace-only input: skip (statement: empty document) or parse error (decoder refuses it);
             scalar after noise: the scalar or parse error; null after noise: skip or parse error
             (the noise rule is stated for {/[ documents only);
             noise before a document in str input: value or parse error (the noise rule is stated for lines)."""
    if isinstance(inp, list):
        lines = inp
        if not lines:
            return _exp(skip=True, why="no lines")
        start = None
        for i, l in enumerate(lines):
            if _starts_doc(l):
                start = i
                break
        if start is not None:
            st, v = _json_decode("\n".join(lines[start:]))
            if st == "ok":
                return _exp(values=[v], unparsed=lines[:start], why="container document after %d noise lines" % start)
            return _exp(parse=True, why="undecodable from first {/[ line")
        text = "\n".join(lines)
        st, v = _json_decode(text)
        if st == "ok":
            if v is None:
                return _exp(skip=True, why="null document")
            return _exp(parse=True, values=[v], why="scalar document (lenient)")
        if text.strip() == "":
            return _exp(skip=True, parse=True, why="whitespace only (lenient)")
        # scalar / null preceded by noise: lenient
        vals = []
        null_after_noise = False
        for i in range(1, len(lines)):
            st2, v2 = _json_decode("\n".join(lines[i:]))
            if st2 == "ok":
                if v2 is None:
                    null_after_noise = True
                else:
                    vals.append(v2)
        if vals or null_after_noise:
            return _exp(skip=null_after_noise, parse=True, values=vals, why="scalar/null after noise (lenient)")
        return _exp(parse=True, why="undecodable")
    text = inp
    if text == "":
        return _exp(skip=True, why="empty string")
    st, v = _json_decode(text)
    if st == "ok":
        if v is None:
            return _exp(skip=True, why="null document")
        if isinstance(v, (dict, list)):
            return _exp(values=[v], why="container document")
        return _exp(parse=True, values=[v], why="scalar document (lenient)")
    if text.strip() == "":
        return _exp(skip=True, parse=True, why="whitespace only (lenient)")
    sub = json_expect(text.split("\n"))
    if sub["values"] or sub["skip"]:
        return _exp(skip=sub["skip"], parse=True, values=sub["values"], why="str input with noise (lenient)")
    return _exp(parse=True, why="undecodable")


def yaml_classify(decoded):
    """decoded = ('ok', value) | ('err', name) -> 'skip' | 'parse' | ('value', v)"""
    st, v = decoded
    if st == "err":
        return "parse"
    if v is None:
        return "skip"
    if isinstance(v, (dict, list)):
        return ("value", v)
    return "parse"            # 'a parse error for anything else'; YAMLParser documents dict/list only


def yaml_effective_lines(lines, ignore):
    """YAMLParser.ignore_lines: 'the first keyword of the lines that need to be ignored', keywords in
    lower case => a line is dropped when, ignoring leading blanks and letter case, it starts with a keyword."""
    out = []
    for l in lines:
        head = l.strip().lower()
        if any(head.startswith(k) for k in ignore):
            continue
        out.append(l)
    return out


def yaml_expect(inp, ignore, decoders):
    """decoders: list of callables text -> ('ok', v) | ('err', name): the pure-Python and the libyaml
    safe loaders.  When they disagree on a text, either verdict is accepted (upstream decoder
    divergence is not the wrapper's fault)."""
    if isinstance(inp, list):
        text = "\n".join(yaml_effective_lines(inp, ignore or ()))
    else:
        text = inp
    exp = _exp(why="yaml")
    kinds = []
    for dec in decoders:
        c = yaml_classify(dec(text))
        kinds.append(c if isinstance(c, str) else "value")
        if c == "skip":
            exp["skip"] = True
        elif c == "parse":
            exp["parse"] = True
        else:
            # an empty {} / [] is a valid mapping/sequence document: exactly its value, as for JSON
            if not any(same(c[1], w) for w in exp["values"]):
                exp["values"].append(c[1])
    exp["agree"] = len(set(kinds)) == 1 and len(exp["values"]) <= 1
    return exp


def outcome_allowed(exp, obs):
    """obs = 'skip' | 'parse' | ('value', v) | ('other', typename)"""
    if obs == "skip":
        return exp["skip"]
    if obs == "parse":
        return exp["parse"]
    if obs[0] == "value":
        return any(same(obs[1], v) for v in exp["values"])
    return False


def describe(exp):
    out = []
    if exp["skip"]:
        out.append("SkipComponent")
    if exp["parse"]:
        out.append("ParseException")
    for v in exp["values"]:
        out.append("data == %s" % (repr(v)[:200],))
    return " or ".join(out) + " [%s]" % exp["why"]


# ---------------------------------------------------------------------------------------------
# (c) line search
# ---------------------------------------------------------------------------------------------

def search(lines, s, check, num, reverse):
    terms = [s] if isinstance(s, str) else list(s)
    f = all if check == "all" else any
    m = [l for l in lines if f(t in l for t in terms)]
    if num is None:
        return m
    return m[max(0, len(m) - num):] if reverse else m[:num]


def search_2(lines, s, check, num, reverse):
    """Second formulation: index walk from the requested end, regular-expression containment."""
    terms = [s] if isinstance(s, str) else list(s)
    idx = range(len(lines) - 1, -1, -1) if reverse else range(len(lines))
    keep = []
    for i in idx:
        hits = sum(1 for t in terms if re.search(re.escape(t), lines[i]) is not None)
        ok = hits == len(terms) if check == "all" else hits > 0
        if ok and (num is None or len(keep) < num):
            keep.append(i)
    return [lines[i] for i in sorted(keep)]


# ---------------------------------------------------------------------------------------------
# (d) time search
# ---------------------------------------------------------------------------------------------
# A log line is (text, stamp, terms): stamp = None for a continuation line, else a
# (Y, M, D, h, m, s) tuple; for formats without a year only (M, D, h, m, s) are rendered and used.

ELEVEN_MONTHS = datetime.timedelta(days=330)


def effective_stamp(stamp, t, have_year, reading="year"):
    """Year inference of the get_after note: without a year field the year of the sought timestamp
    is assumed; a log time more than 330 days ahead of / behind it is moved back / forward a year.
    reading='year': move to the adjacent calendar year; reading='365': literally shift by 365 days
    (the docstring's wording).  The two differ only around leap years."""
    Y, M, D, h, m, s = stamp
    if have_year:
        return datetime.datetime(Y, M, D, h, m, s)
    ls = datetime.datetime(t.year, M, D, h, m, s)
    if ls - t > ELEVEN_MONTHS:
        return ls.replace(year=t.year - 1) if reading == "year" else ls - datetime.timedelta(days=365)
    if t - ls > ELEVEN_MONTHS:
        return ls.replace(year=t.year + 1) if reading == "year" else ls + datetime.timedelta(days=365)
    return ls


def _used(lines, s):
    if s is None:
        return list(lines)
    terms = [s] if isinstance(s, str) else list(s)
    return [ln for ln in lines if all(w in ln[0] for w in terms)]


def time_after(lines, t, s, have_year, reading="year"):
    """State machine of the docstring: only lines containing s are used; a stamped line at or after t
    switches inclusion on (and is itself included), an earlier one switches it off; unstamped lines
    belong to the previous used line."""
    out = []
    including = False
    for text, stamp, _terms in _used(lines, s):
        if stamp is not None:
            including = effective_stamp(stamp, t, have_year, reading) >= t
        if including:
            out.append(text)
    return out


def time_after_2(lines, t, s, have_year, reading="year"):
    """Declarative formulation: a used line is returned iff the nearest stamped used line at or
    before it exists and is not earlier than t."""
    used = _used(lines, s)
    out = []
    for i, (text, _stamp, _terms) in enumerate(used):
        j = i
        while j >= 0 and used[j][1] is None:
            j -= 1
        if j >= 0 and not (effective_stamp(used[j][1], t, have_year, reading) < t):
            out.append(text)
    return out
