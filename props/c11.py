"""C11 - what collection persists is what analysis loads.

Part A (round trip): every content over a sharp line alphabet x every provider kind x every save-as
mode, and multi-output lists of 1..3 elements in every order, are collected by a *real* dr.run with
the Hydration persister observing the broker (exactly what insights.collect does), written into a
scratch archive, and loaded back with insights.core.hydration.initialize_broker into a fresh broker.
Part B (corruption): an archive with three entries (a text file, a multi-output command spec with one
failed element, a failed component) is corrupted in every subset of its metadata entries with every
corruption kind (truncation at every byte offset included) and loaded again.

Oracle (only what the statement says; weaker reading where it is loose):
  * every persisted result comes back as a provider under the same component (the registry point);
  * its content equals the content collection held, up to ONE trailing empty line in either
    direction (lists of lines: a == b, a + [""] == b or a == b + [""]; raw bytes: the same with
    b"\\n").  "up to one trailing empty line" is read symmetrically - the weaker reading;
  * cmd and args are equal.  args are compared exactly (0, False, "", [] and None are five different
    values) except for JSON's sequence type (a tuple comes back as a list - representation, not content).  cmd is NOT compared for ContainerFileProvider: its
    serializer documents a *file* (relative_path, image, engine, container_id); the internal
    "<engine> exec <id> cat <path>" string is not part of the persisted document;
  * relative_path equals the location the serializer returned in the metadata document;
  * multi-output: the loaded elements appear in the order of the collected elements (order-preserving
    alignment; elements whose serialisation failed at collection are allowed to be absent);
  * dr.run on the hydrated broker does not call an implementation whose registry point was loaded;
  * a failed component's metadata document exists and contains the traceback of every exception the
    broker recorded for it; no collected element vanishes silently (persisted results + errors of the
    document >= collected elements);
  * hydrate never raises, and every entry that was not corrupted loads exactly as in the round trip.
Not demanded: rc; anything about lines containing line-break characters or lone surrogates (not in
the alphabet); what happens to the corrupted entries themselves; where exactly the serializer puts
a file (only that the loaded provider points at the location the serializer reported).
"""
import collections
import hashlib
import itertools
import json
import os
import shutil

from mc.result import Result
from mc import enumx
from harness import tmp
from harness import c11_build as B

ID = "C11"
LEVEL = "fault_enumeration"
RULE = ("A: all line sequences of length <= L over 11 line tokens x 14 (provider kind, save-as) combinations "
        "(raw files and really executed commands: length <= 2), plus all arrangements without repetition of "
        "1..M element tokens (one of them with empty content, i.e. failing at serialisation) x 13 multi-output "
        "(kind, save-as) combinations x {serial, through a pool stand-in for EVERY completion order of the pool.map tasks "
        "(all permutations for <= 3 tasks, 4 for 4 tasks; recorded in the case)}, plus falsy / tuple / empty-tuple command "
        "arguments (foreach_execute, container_execute, command_with_args), plus failed components; ~50 generated specs share one archive, "
        "every violating spec is re-executed alone in its own archive before it is reported. Non-trivial = at least one "
        "result was persisted AND loaded back (failed component: its document carries >= 1 error). "
        "B: every subset of the 3 metadata entries x every corruption kind x every order (6) in which hydrate meets the "
        "entries (directory iteration order is owned at os.scandir/os.listdir and recorded in the case); truncation at every "
        "byte offset (quick: every 7th + first/last 16). Non-trivial = the corruption changed the archive (a metadata or data file).")
ASSUMPTIONS = [
    "command output is supplied by a recording HostContext.check_output (the command is not executed), except for the "
    "cmd_real kind which really runs /bin/cat; container engines are spelled /usr/bin/env because podman/docker do not exist here",
    "the executor handed to Hydration is a deterministic single-threaded stand-in (harness.c11_build.OrderedPool) that runs the "
    "tasks of pool.map in a descriptor-chosen order and returns results in input order like Executor.map; it covers every "
    "completion order, not data races between concurrently running serializers; a real ThreadPoolExecutor is not used "
    "(its completion order is timing)",
    "no cleaner, no filters, no deny list are configured (C06-C10 cover those)",
    "the host context is seeded into the hydrated broker before the second dr.run so that a loaded implementation could "
    "execute if the engine tried to (otherwise that clause would be vacuous)",
    "directory iteration order of meta_data/ is imposed by wrapping os.scandir/os.listdir for that one directory while the "
    "archive is loaded (part A: name order; part B: the order given in the case); the wrapper returns a permutation of the real listing",
    "part B rewrites exec_time/ser_time of the three metadata documents to constants with the same json.dump call "
    "dehydrate uses, so that byte offsets are reproducible",
    "bounded: no counterexample within the stated alphabet and lengths, nothing more",
]
BOUNDS = {"quick": {"max_lines": 3, "raw_max_lines": 2, "multi_max_elems": 3, "batch": 50,
                    "truncate_offsets": "every 7th + first/last 16 of every entry"},
          "thorough": {"max_lines": 4, "raw_max_lines": 2, "multi_max_elems": 4, "batch": 50,
                       "truncate_offsets": "every byte offset"}}
CAP_S = {"quick": 300, "thorough": 2400}
BATCH = 50
MAX_CONFIRM_PER_UNIT = 8

# ---- part A space --------------------------------------------------------------------------------

SWEEP = [("text", "none"), ("text", "rename"), ("text", "dir"),
         ("cmd", "none"), ("cmd", "rename"), ("cmd", "dir"),
         ("ds_list", "none"), ("ds_list", "rename"), ("ds_list", "dir"),
         ("ds_str", "none"), ("ds_str", "rename"), ("ds_str", "dir"),
         ("cfile", "none"), ("ccmd", "none")]
SHORT = [("raw", "none"), ("raw", "rename"), ("raw", "dir"), ("cmd_real", "none")]
MULTI = [("m_cmd", "none"), ("m_cmd2", "none"), ("m_text", "none"), ("m_text", "dir"), ("m_raw", "none"), ("m_raw", "dir"),
         ("m_glob", "none"), ("m_glob", "dir"), ("m_ds", "none"), ("m_ds", "rename"), ("m_ds", "dir"),
         ("cfile", "none"), ("ccmd", "none")]
# element tokens of the order sweep: name -> lines; pairwise different even modulo one trailing empty line;
# names are deliberately not in alphabetical order of the token list; "d" has no content (its serialisation fails
# on a host context, or yields an empty file for kinds that do not refuse empty content)
ELEMS = [("b", ["one", ""]), ("a", ["ü two", " x"]), ("c", ["", "three", "", ""]), ("d", []), ("e", ["\x0c", "five "])]
FAILS = ["value", "content", "called"]


def spec_single(kind, mode, lines):
    return {"part": "A", "kind": kind, "save_as": mode, "elems": [{"n": "f", "lines": list(lines)}]}


def spec_multi(kind, mode, arrangement, exec_perm=None):
    idx = list(arrangement)
    if kind == "m_glob":
        # glob_file yields in sorted path order: the arrangement permutes which content sits at which sorted position
        names = sorted(ELEMS[i][0] for i in idx)
        elems = [{"n": names[k], "lines": list(ELEMS[i][1])} for k, i in enumerate(idx)]
    else:
        elems = [{"n": ELEMS[i][0], "lines": list(ELEMS[i][1])} for i in idx]
    s = {"part": "A", "kind": kind, "save_as": mode, "elems": elems}
    if exec_perm is not None:
        # persisted through a pool: the tasks of the one pool.map call complete in this order (submission indices)
        s["pool"] = True
        s["exec"] = list(exec_perm)
    return s


def exec_perms(n):
    """Completion orders enumerated for a pool.map over n tasks: all for n <= 3, four characteristic ones above."""
    if n <= 3:
        return list(itertools.permutations(range(n)))
    ident = tuple(range(n))
    return [ident, ident[::-1], ident[1:] + ident[:1], (0, 2, 1) + ident[3:]]


def arrangements(tier):
    m = BOUNDS[tier]["multi_max_elems"]
    pool = range(4 if tier == "quick" else 5)
    for n in range(1, m + 1):
        for p in itertools.permutations(pool, n):
            yield p


ARG_POOL = [0, 1, "", 2]          # what an argument provider may yield: 0 and "" are falsy
ARG_LINES = {"0": ["zero"], "1": ["one", ""], "": ["empty", " x"], "2": ["two"]}


def arg_specs():
    """Commands with arguments: every arrangement of 1..3 of the argument values {0, 1, "", 2} for foreach_execute
    (serial and through the pool in submission order) and container_execute, tuple arguments with falsy members,
    the empty tuple (template without placeholder), and command_with_args over a str / "" / tuple / () provider."""
    out = []
    for n in range(1, 4):
        for arr in itertools.permutations(range(len(ARG_POOL)), n):
            elems = [{"n": "v%d" % i, "arg": ARG_POOL[i], "lines": ARG_LINES[str(ARG_POOL[i])]} for i in arr]
            out.append({"part": "A", "kind": "m_cmd", "save_as": "none", "elems": elems})
            out.append({"part": "A", "kind": "ccmd", "save_as": "none", "elems": elems})
            out.append({"part": "A", "kind": "m_cmd", "save_as": "none", "elems": elems, "pool": True, "exec": list(range(n))})
    tuples = [[0, "y"], ["", 1], [1, "x"], [0, 0]]      # distinct commands even after word splitting
    for n in range(1, 3):
        for arr in itertools.permutations(range(len(tuples)), n):
            out.append({"part": "A", "kind": "m_cmd2", "save_as": "none",
                        "elems": [{"n": "t%d" % i, "arg": tuples[i], "lines": ["tuple %d" % i]} for i in arr]})
    out.append({"part": "A", "kind": "m_cmd", "save_as": "none", "placeholders": 0,
                "elems": [{"n": "none", "arg": [], "lines": ["no argument"]}]})
    for mode in ("none", "rename"):
        for arg, nph in (("x", 1), ("", 1), (["x", ""], 2), ([], 0)):
            out.append({"part": "A", "kind": "cmd_args", "save_as": mode, "placeholders": nph,
                        "elems": [{"n": "f", "arg": arg, "lines": ["with args", ""]}]})
    return out


# falsy / boundary options of the factories, swept over all contents of <= 2 lines
VARIANTS = [{"kind": "text", "save_as": "empty"}, {"kind": "text", "save_as": "slash"},
            {"kind": "cmd", "save_as": "empty"}, {"kind": "cmd", "save_as": "slash"},
            {"kind": "ds_list", "save_as": "empty"}, {"kind": "ds_str", "save_as": "slash"},
            {"kind": "raw", "save_as": "empty"},
            {"kind": "cmd", "save_as": "none", "keep_rc": True}, {"kind": "cmd", "save_as": "rename", "keep_rc": True},
            {"kind": "ds_list", "save_as": "none", "ctx": True}, {"kind": "ds_str", "save_as": "dir", "ctx": True},
            {"kind": "cmd", "save_as": "none", "split": False}]


def many_specs():
    """>= 10 elements (names / arguments 1..12, so '1' is a prefix of '10', '11', '12' and name order differs from
    numeric order), serial and through the pool with reversed and rotated completion order."""
    out = []
    names = [str(k) for k in range(1, 13)]
    def elems(order):
        return [{"n": n, "lines": ["element %s" % n] + ([""] if n == "10" else [])} for n in order]
    for kind, mode in MULTI:
        order = sorted(names) if kind == "m_glob" else names
        out.append({"part": "A", "kind": kind, "save_as": mode, "elems": elems(order)})
        if kind != "m_glob":
            out.append({"part": "A", "kind": kind, "save_as": mode, "elems": elems(order[::-1])})
        n = len(names)
        for perm in (list(range(n))[::-1], list(range(1, n)) + [0], [9, 0, 10, 1] + [k for k in range(n) if k not in (9, 0, 10, 1)]):
            out.append({"part": "A", "kind": kind, "save_as": mode, "elems": elems(order), "pool": True, "exec": perm})
    # integer arguments 0..11 for the command kinds (0 falsy, 10 and 11 two digits)
    ints = [{"n": "v%d" % k, "arg": k, "lines": ["int %d" % k]} for k in range(12)]
    out.append({"part": "A", "kind": "m_cmd", "save_as": "none", "elems": ints})
    out.append({"part": "A", "kind": "ccmd", "save_as": "none", "elems": ints})
    return out


def collide_specs():
    """Two or three elements of ONE multi-output spec whose persisted locations coincide: the same base name under a
    save-as directory (which is what a save-as directory is for: it drops the source directories), and two commands
    that differ only in characters the command-name mangling identifies ('a/b' vs 'a.b'). Contents differ."""
    out = []
    for kind in ("m_text", "m_raw", "m_glob", "m_ds"):
        for names in (["x/f", "y/f"], ["y/f", "x/f"], ["x/f", "y/g", "z/f"], ["x/f", "y/f", "z/f"]):
            if kind == "m_glob":
                if names != sorted(names):
                    continue                     # glob_file sorts: the swapped pair is the same case
            out.append({"part": "A", "kind": kind, "save_as": "dir",
                        "elems": [{"n": n, "lines": ["content of %s" % n]} for n in names]})
        # control: the same names without save-as do not collide
        out.append({"part": "A", "kind": kind, "save_as": "none",
                    "elems": [{"n": n, "lines": ["content of %s" % n]} for n in ["x/f", "y/f"]]})
    long = "x" * 260        # the mangled command name is cut at 255 characters
    for args in (["a/b", "a.b"], ["a.b", "a/b"], ["a/b", "c", "a.b"], ["a b", "a_b"], [long + "1", long + "2"]):
        out.append({"part": "A", "kind": "m_cmd", "save_as": "none",
                    "elems": [{"n": "e%d" % k, "arg": a, "lines": ["output for %s" % a]} for k, a in enumerate(args)]})
    return out


def sweep_contents(unit):
    """Contents of one sweep unit: all sequences of exactly `len` tokens starting with `first`
    (first = None: all sequences of length <= len)."""
    if unit.get("first") is None:
        return list(enumx.strings(B.TOKENS, unit["len"]))
    return [(unit["first"],) + t for t in enumx.strings(B.TOKENS, unit["len"] - 1, unit["len"] - 1)]


def units(tier, seed):
    L = BOUNDS[tier]["max_lines"]
    us = []
    for kind, mode in SWEEP:
        us.append({"part": "A", "sub": "sweep", "kind": kind, "save_as": mode, "len": L - 1, "first": None})
        for t in B.TOKENS:
            us.append({"part": "A", "sub": "sweep", "kind": kind, "save_as": mode, "len": L, "first": t})
    for kind, mode in SHORT:
        us.append({"part": "A", "sub": "sweep", "kind": kind, "save_as": mode, "len": BOUNDS[tier]["raw_max_lines"], "first": None})
    for kind, mode in MULTI:
        for pool in (False, True):
            us.append({"part": "A", "sub": "order", "kind": kind, "save_as": mode, "pool": pool})
    us.append({"part": "A", "sub": "fail"})
    us.append({"part": "A", "sub": "args"})
    us.append({"part": "A", "sub": "many"})
    us.append({"part": "A", "sub": "collide"})
    us.append({"part": "A", "sub": "names"})
    for shard in range(4):
        us.append({"part": "A", "sub": "first-of", "shard": shard, "of": 4})
    us.append({"part": "A", "sub": "ascii-locale"})
    for k in range(len(VARIANTS)):
        us.append({"part": "A", "sub": "variant", "index": k})
    for sc in H_SCENARIOS:
        us.append({"part": "H", "scenario": sc})
    for arch in sorted(B_ARCHS):
        for subset in enumx.subsets(range(3)):
            us.append({"part": "B", "sub": "kinds", "subset": list(subset), "arch": arch})
    lens = template_lengths()
    per = 40 if tier == "quick" else 100
    for subset in enumx.subsets(range(3), min_size=1):
        offs = truncate_offsets(tier, subset, lens)
        for chunk in enumx.chunks(offs, max(1, (len(offs) + per - 1) // per)):
            us.append({"part": "B", "sub": "truncate", "subset": list(subset), "offsets": chunk, "lens": lens})
    return us


def unit_weight(u):
    if u["part"] == "A" and u["sub"] == "sweep":
        return 10 ** (u["len"] - (0 if u["first"] is None else 1)) * (3 if u["kind"] in ("raw", "cmd_real") else 1)
    if u["part"] == "B":
        return 200
    return 400


# ---- oracle --------------------------------------------------------------------------------------

def relation(orig, got):
    """'eq' | 'loaded-1' | 'loaded+1' | None.  orig None = collection could not read it (empty on a host)."""
    if isinstance(orig, str):
        # unsplit command output (split=False): collection held ONE string; what is loaded must spell the same text
        text = got.decode("utf-8", "surrogateescape") if isinstance(got, bytes) else (
            "\n".join(got) if isinstance(got, list) else None)
        if text is None:
            return None
        return "eq" if text == orig else "loaded-1" if text + "\n" == orig else "loaded+1" if text == orig + "\n" else None
    if isinstance(got, bytes):
        a = b"" if orig is None else orig
        if not isinstance(a, bytes):
            return None
        nl = b"\n"
    else:
        a = [] if orig is None else orig
        if isinstance(a, bytes) or not isinstance(got, list):
            return None
        nl = [""]
    if a == got:
        return "eq"
    if got + nl == a:
        return "loaded-1"
    if a + nl == got:
        return "loaded+1"
    return None


def show(content):
    if content is None:
        return None
    if isinstance(content, str):
        return {"text": content if len(content) <= 200 else "<%d chars>" % len(content)}
    if isinstance(content, bytes):
        content = content.decode("utf-8", "replace").split("\n")
        tag = "bytes"
    else:
        tag = "lines"
    out = []
    total = len(content)
    for l in content[:12]:
        if l == B.LONG:
            out.append("@LONG")
        elif len(l) > 60:
            out.append("<%d chars sha1 %s>" % (len(l), hashlib.sha1(l.encode("utf-8", "surrogatepass")).hexdigest()[:10]))
        else:
            out.append(l)
    if total > 12:
        out.append("... %d more" % (total - 12))
    return {tag: out}


def norm_args(a):
    """args in the form JSON gives them back: tuples (at any depth) become lists; nothing else is identified -
    0, False, "", [] and None stay five different values."""
    if isinstance(a, (tuple, list)):
        return [norm_args(x) for x in a]
    return a


def same_args(a, b):
    return json.dumps(norm_args(a), sort_keys=True, default=repr) == json.dumps(norm_args(b), sort_keys=True, default=repr)


def content_features(spec, orig):
    feats = {"kind": spec["kind"], "save_as": spec.get("save_as", "none"), "elements": len(spec.get("elems", []))}
    if spec["kind"] == "first_of":
        feats["alternatives"] = len(spec["alts"])
    toks = [t for el in spec.get("elems", []) for t in el["lines"]]
    feats["long_line"] = "@LONG" in toks
    feats["non_ascii"] = any(any(ord(c) > 127 for c in t) for t in toks)
    feats["form_feed"] = any("\x0c" in t for t in toks)
    feats["edge_space"] = any(t != t.strip(" ") for t in toks)
    n = 0
    for el in spec.get("elems", [])[:1]:
        for t in reversed(el["lines"]):
            if t != "":
                break
            n += 1
    feats["trailing_empty_lines"] = n
    if spec.get("split") is False:
        feats["unsplit_command_output"] = True
    if spec.get("pool"):
        feats["pool"] = True
        ex = list(_exec_of(spec))
        feats["pool_completion_order_differs"] = ex != sorted(ex)
    args = [el["arg"] for el in spec.get("elems", []) if "arg" in el]
    if args:
        feats["falsy_arg"] = any(not a for a in args)
    texts = [el["n"] for el in spec.get("elems", [])] + [a for a in args if isinstance(a, str)] + [spec.get("msg", "")]
    feats["name_not_valid_utf8"] = any(0xDC80 <= ord(c) <= 0xDCFF for t in texts for c in t)
    feats["name_non_ascii"] = any(ord(c) > 127 for t in texts for c in t)
    return feats


def check_entry(spec, orig, doc, present, value, errors_expected):
    """One component after loading. Returns (violations [(clause, expected, observed)], info)."""
    v = []
    info = {"persisted": 0, "loaded": 0, "rels": set(), "errors": 0, "collide": False}
    # exact: the document lists every error the broker holds for the component - those filed while it was evaluated and
    # those raised while it was written (marshal files them in the broker too) - each as often as the broker has it
    have = doc.get("errors") if isinstance(doc, dict) else None
    info["errors"] = len(have) if isinstance(have, list) else 0
    want = collections.Counter(errors_expected)
    got = collections.Counter(have if isinstance(have, list) else [])
    missing = list((want - got).elements())
    extra = list((got - want).elements())
    last = lambda t: str(t).strip().splitlines()[-1][:200] if t else t
    if missing:
        v.append(("errors:failed-component-errors-not-persisted",
                  {"recorded_in_broker": [last(t) for t in errors_expected]},
                  {"document": "absent" if doc is None else {"errors": [last(t) for t in (have or [])]},
                   "missing": [last(t) for t in missing]}))
    if extra and doc is not None:
        v.append(("errors:persisted-errors-not-recorded-or-twice",
                  {"recorded_in_broker": [last(t) for t in errors_expected]},
                  {"errors": [last(t) for t in (have or [])], "unexpected": [last(t) for t in extra]}))
    results = doc.get("results") if isinstance(doc, dict) else None
    persisted = results if isinstance(results, list) else ([] if results is None else [results])
    info["persisted"] = len(persisted)
    locs = [r["object"].get("relative_path") for r in persisted if isinstance(r, dict) and isinstance(r.get("object"), dict)]
    info["collide"] = len(set(locs)) < len(locs)      # two elements of ONE spec were persisted to one location
    # nothing collected may vanish silently: every collected element is either persisted or stands behind an error of
    # the metadata document ("a component that failed is persisted with its errors"). Counted, not matched - the weaker form.
    have_errors = doc.get("errors") if isinstance(doc, dict) else None
    n_errors = len(have_errors) if isinstance(have_errors, list) else 0
    if len(persisted) + n_errors < len(orig["elems"]):
        v.append(("persist:collected-result-neither-persisted-nor-reported",
                  {"collected_elements": len(orig["elems"])},
                  {"document": "absent" if doc is None else "present", "persisted_results": len(persisted), "errors": n_errors}))
    if not persisted:
        if present:
            v.append(("roundtrip:loaded-without-persisted-result", "absent", "present"))
        return v, info
    if not present:
        v.append(("roundtrip:missing-after-load", "%d provider(s) under the component" % len(persisted),
                  "component absent from the loaded broker"))
        return v, info
    if isinstance(results, list) != isinstance(value, list):
        v.append(("roundtrip:shape", "list" if isinstance(results, list) else "single provider", type(value).__name__))
    provs = value if isinstance(value, list) else [value]
    info["loaded"] = len(provs)
    if len(provs) != len(persisted):
        v.append(("roundtrip:result-count", len(persisted), len(provs)))
    elems = orig["elems"]
    gots = []
    for k, p in enumerate(provs):
        try:
            got = p.content
            gots.append(got if isinstance(got, bytes) else list(got))
        except Exception as ex:
            v.append(("roundtrip:content-unreadable", "readable content", repr(ex)[:300]))
            gots.append(None)
    # which collected element does loaded element k stand for?
    if len(provs) == len(elems):
        # nothing was dropped: the statement decides position by position
        match = list(range(len(provs)))
        bad = [k for k in match if gots[k] is not None and not relation(elems[k][0], gots[k])]
        if bad:
            free = list(range(len(elems)))
            permuted = True
            for k in range(len(provs)):
                hit = next((x for x in free if gots[k] is not None and relation(elems[x][0], gots[k])), None)
                if hit is None:
                    permuted = False
                    break
                free.remove(hit)
            if permuted:        # same elements, other order
                v.append(("roundtrip:element-order", {"collected_order": [show(el[0]) for el in elems]},
                          {"loaded_order": [show(g) for g in gots]}))
            else:
                for k in bad:
                    v.append(("roundtrip:content", {"position": k, "collected": show(elems[k][0])},
                              {"position": k, "loaded": show(gots[k])}))
            for k in bad:
                match[k] = None
    else:
        # some collected elements were not persisted (their serialisation failed): order-preserving alignment
        match = []
        j = 0
        for k in range(len(provs)):
            got = gots[k]
            m = None
            if got is not None:
                m = next((x for x in range(j, len(elems)) if relation(elems[x][0], got)), None)
                if m is None:
                    if any(relation(elems[x][0], got) for x in range(0, j)):
                        v.append(("roundtrip:element-order", {"collected_order": [show(el[0]) for el in elems]},
                                  {"loaded_position": k, "loaded": show(got)}))
                    else:
                        v.append(("roundtrip:content", {"collected": [show(el[0]) for el in elems[j:]] or [show(el[0]) for el in elems]},
                                  {"loaded_position": k, "loaded": show(got)}))
                else:
                    j = m + 1
            match.append(m)
    for k, p in enumerate(provs):
        m = match[k]
        if m is not None and gots[k] is not None:
            c0, cmd0, args0 = elems[m]
            info["rels"].add(relation(c0, gots[k]))
            if spec["kind"] != "cfile" and p.cmd != cmd0:
                v.append(("roundtrip:cmd", cmd0, p.cmd))
            if not same_args(p.args, args0):
                v.append(("roundtrip:args", {"args": norm_args(args0)}, {"args": norm_args(p.args)}))
        if k < len(persisted):
            try:
                loc = persisted[k]["object"]["relative_path"]
            except Exception:
                loc = None
            if loc is not None and p.relative_path != loc:
                v.append(("roundtrip:relative-path", loc, p.relative_path))
    return v, info


def run_specs(specs, exec_perm=None):
    """Collects and loads one archive holding `specs`. Returns [(violations, info)] per spec.
    exec_perm None: serial persister; otherwise Hydration gets the deterministic pool stand-in with that completion order."""
    e = B.env()
    out = [([], {"persisted": 0, "loaded": 0, "rels": set(), "errors": 0, "collide": False}) for _ in specs]
    with tmp.scratch("c11a") as top:
        executor = B.OrderedPool(exec_perm) if exec_perm is not None else None
        b = B.build(specs, top, pool=executor)
        try:
            try:
                B.collect(b)
            except Exception as ex:
                return [([("collect:raises", "no exception", repr(ex)[:300])], out[0][1]) for _ in specs]
            errs = [B.expected_errors(b, i) for i in range(len(b.points))]
            try:
                ctx, broker = B.load(b)
            except Exception as ex:
                return [([("roundtrip:load-raises", "no exception", repr(ex)[:300])], out[0][1]) for _ in specs]
            if not isinstance(ctx, e.SerializedArchiveContext):
                return [([("roundtrip:archive-not-recognised", "SerializedArchiveContext", type(ctx).__name__)], out[0][1]) for _ in specs]
            mine = set(b.comps)
            foreign = sorted(e.dr.get_name(k) for k in broker.instances if k in mine and k not in set(b.points))
            values = [broker.get(p) for p in b.points]
            present = [p in broker for p in b.points]
            res = []
            for i, spec in enumerate(specs):
                v, info = check_entry(spec, b.originals[i], b.docs[i], present[i], values[i], errs[i])
                res.append((v, info))
            if foreign:
                for v, _ in res:
                    v.append(("roundtrip:foreign-component", "only registry points carry loaded results", foreign[:5]))
            try:
                deltas = B.rerun(b, broker)
            except Exception as ex:
                deltas = None
                for v, _ in res:
                    v.append(("rerun:raises", "no exception", repr(ex)[:300]))
            if deltas is not None:
                for i, (v, info) in enumerate(res):
                    if present[i] and deltas[i]:
                        v.append(("rerun:loaded-implementation-executed", 0, deltas[i]))
                    if present[i] and broker.get(b.points[i]) is not values[i]:
                        v.append(("rerun:loaded-value-replaced", "the loaded provider object", "a different object"))
            return res
        finally:
            B.cleanup(b)


def _exec_of(spec):
    if not spec.get("pool"):
        return None
    return tuple(spec.get("exec", range(len(spec.get("elems", [])))))


def check_case(case):
    """-> [(clause, expected, observed, features)] for one case descriptor (part A spec or part B corruption)."""
    if case.get("part") == "B":
        return check_b([case])[0][0]
    if case.get("part") == "H":
        return check_h(case)[0]
    return check_a(case)[0]


def check_a(case):
    """Part A spec alone in its own archive -> (violations with features, nontrivial, outcome fingerprint)."""
    if case.get("locale"):
        return ascii_child([case])[0]
    v, info = run_specs([case], exec_perm=_exec_of(case))[0]
    f = content_features(case, None)
    f["elements_collide_on_location"] = bool(info["collide"])
    if info["collide"]:
        # why two elements of this spec share a location (measured above from the metadata document)
        f["collision"] = "save-as-directory" if case.get("save_as") == "dir" else (
            "command-mangling" if case["kind"] in ("m_cmd", "m_cmd2", "ccmd") else "other")
    nontrivial = (info["persisted"] >= 1 and info["loaded"] >= 1) or (case["kind"] in ("fail", "first_of") and info["errors"] >= 1)
    return [(c, x, o, f) for c, x, o in v], bool(nontrivial), "p%d:l%d:e%d" % (min(info["persisted"], 4), min(info["loaded"], 4),
                                                                                min(info["errors"], 2))


# ---- names that need encoding, and an ASCII default encoding ---------------------------------------

NAME_POOL = ["plain", "café.conf", "caf\udce9.conf", "日本"]
# "caf\udce9.conf" is how Python hands out the Latin-1 file name b"caf\xe9.conf": not valid UTF-8, a lone surrogate
# after surrogateescape. It appears as a FILE NAME, a command ARGUMENT and in an exception text - never inside a line.
ASCII_LOCALE = {"LC_ALL": "C", "LANG": "C", "PYTHONUTF8": "0", "PYTHONCOERCECLOCALE": "0", "PYTHONIOENCODING": "utf-8"}


# alternatives of a first_of spec: failing when evaluated (E), failing when written (W), fine (ok)
ALT_SINGLE = [
    {"kind": "text", "missing": True, "elems": [{"n": "f", "lines": ["never read"]}]},          # E: file does not exist
    {"kind": "fail", "exc": "value", "elems": []},                                              # E: datasource raises
    {"kind": "text", "elems": [{"n": "f", "lines": []}]},                                       # W: empty on a host
    {"kind": "text", "vanish": True, "elems": [{"n": "f", "lines": ["gone"]}]},                 # W: unreadable by then
    {"kind": "cmd", "elems": [{"n": "f", "lines": []}]},                                        # W: empty command output
    {"kind": "cmd", "raises": True, "elems": [{"n": "f", "lines": ["never produced"]}]},        # W: reading it raises
    {"kind": "text", "elems": [{"n": "f", "lines": ["file ok", ""]}]},                          # ok
    {"kind": "cmd", "elems": [{"n": "f", "lines": ["cmd ok"]}]},                                # ok
]
ALT_MULTI = [
    {"kind": "m_cmd", "elems": []},                                                             # E: no results found
    {"kind": "m_cmd", "elems": [{"n": "a", "lines": ["ok a"]}, {"n": "b", "lines": []}]},       # one element W
    {"kind": "m_cmd", "elems": [{"n": "a", "lines": []}]},                                      # all W
    {"kind": "m_cmd", "elems": [{"n": "a", "raises": True, "lines": ["x"]}, {"n": "b", "lines": ["ok b", ""]}]},
    {"kind": "m_cmd", "elems": [{"n": "a", "lines": ["ok"]}]},                                  # ok
    {"kind": "m_ds", "elems": [{"n": "a", "lines": ["ds ok"]}, {"n": "b", "lines": []}]},       # ok (empty element persisted)
]


def first_of_specs():
    """Components that fail while they are EVALUATED and while they are WRITTEN: first_of over every sequence of 1..3
    alternatives (single-output: 8 alternative kinds, multi-output: 6); the failures of the alternatives that come first
    are filed against the registry point at evaluation, the alternative that supplies the value may fail on write."""
    out = []
    for pool in (ALT_SINGLE, ALT_MULTI):
        for n in range(1, 4):
            for seq in itertools.product(range(len(pool)), repeat=n):
                out.append({"part": "A", "kind": "first_of", "save_as": "none",
                            "alts": [dict(pool[i], save_as="none") for i in seq]})
    return out


def name_specs():
    out = []
    def elems(idx):
        return [{"n": NAME_POOL[i], "lines": ["content %d" % i, "ü"]} for i in idx]
    arrs = [p for n in range(1, 4) for p in itertools.permutations(range(len(NAME_POOL)), n)]
    for kind, mode in (("m_text", "none"), ("m_text", "dir"), ("m_raw", "none"), ("m_ds", "none"), ("m_ds", "dir"),
                       ("m_cmd", "none"), ("ccmd", "none"), ("cfile", "none"), ("m_glob", "none"), ("m_glob", "dir")):
        for a in arrs:
            if kind == "m_glob" and [NAME_POOL[i] for i in a] != sorted(NAME_POOL[i] for i in a):
                continue
            if kind == "m_raw" and len(a) == 3:
                continue                     # one cp each: pairs suffice
            out.append({"part": "A", "kind": kind, "save_as": mode, "elems": elems(a)})
    for i in range(len(NAME_POOL)):
        for kind, modes in (("text", ("none", "rename", "dir")), ("raw", ("none", "dir")), ("ds_list", ("none", "rename", "dir")),
                            ("cmd_real", ("none",))):
            for mode in modes:
                out.append({"part": "A", "kind": kind, "save_as": mode, "elems": elems([i])})
        out.append({"part": "A", "kind": "cmd_args", "save_as": "none", "placeholders": 1,
                    "elems": [{"n": "f", "arg": NAME_POOL[i], "lines": ["content %d" % i]}]})
        for exc in FAILS:
            out.append({"part": "A", "kind": "fail", "exc": exc, "msg": " while reading " + NAME_POOL[i], "elems": []})
    return out


def ascii_specs():
    """A small group executed in a child interpreter whose DEFAULT text encoding is ASCII (LC_ALL=C, UTF-8 mode and
    locale coercion off). File names stay ASCII there (the file system encoding is ASCII too); arguments, exception
    texts and contents are not."""
    out = []
    for arg in ("café", "日本"):
        out.append({"kind": "m_cmd", "save_as": "none", "elems": [{"n": "e0", "arg": 0, "lines": ["zero"]},
                                                                  {"n": "e1", "arg": arg, "lines": ["ü", ""]}]})
        out.append({"kind": "ccmd", "save_as": "none", "elems": [{"n": "e1", "arg": arg, "lines": ["x"]}]})
        out.append({"kind": "cmd_args", "save_as": "rename", "placeholders": 1, "elems": [{"n": "f", "arg": arg, "lines": ["x"]}]})
        for exc in FAILS:
            out.append({"kind": "fail", "exc": exc, "msg": " while reading " + arg, "elems": []})
    for kind in ("text", "cmd", "ds_list", "ds_str"):
        out.append({"kind": kind, "save_as": "dir", "elems": [{"n": "f", "lines": ["ü", "日本", "\ufeffbom"]}]})
    out.append({"kind": "m_ds", "save_as": "none", "elems": [{"n": "b", "lines": ["ü"]}, {"n": "a", "lines": []}]})
    return [dict(c, part="A", locale="C-ascii") for c in out]


_CHILD = """
import sys, json, locale, logging
sys.path[:0] = [%r, %r]
logging.disable(logging.CRITICAL)
enc = locale.getpreferredencoding(False).lower().replace("_", "-")
if enc not in ("ascii", "ansi-x3.4-1968", "us-ascii", "646"):
    raise SystemExit("C11 harness: the child's default text encoding is %%s, not ASCII" %% enc)
from props import c11
print(json.dumps([list(c11.check_a(c)) for c in json.load(sys.stdin)]))
"""


def ascii_child(cases):
    """Runs part A cases (their "locale" key removed) in ONE child interpreter with an ASCII default encoding.
    -> [(violations, nontrivial, outcome)] per case."""
    import subprocess
    import sys
    here = os.path.dirname(os.path.dirname(os.path.abspath(__file__)))
    env = dict((k, v) for k, v in os.environ.items() if not k.startswith("LC_"))
    env.update(ASCII_LOCALE)
    env["PYTHONHASHSEED"] = "0"
    plain = [dict((k, v) for k, v in c.items() if k != "locale") for c in cases]
    p = subprocess.run([sys.executable, "-c", _CHILD % (here, os.environ.get("VERIF_REPO", "/repo"))],
                       input=json.dumps(plain).encode("ascii"), stdout=subprocess.PIPE, stderr=subprocess.PIPE, env=env, timeout=600)
    if p.returncode != 0:
        raise RuntimeError("C11 harness: ASCII-locale child failed: %s" % p.stderr.decode("utf-8", "replace")[-1500:])
    out = []
    for case, (v, nontrivial, outcome) in zip(cases, json.loads(p.stdout.decode("ascii"))):
        out.append(([(c, x, o, dict(f, locale=case["locale"])) for c, x, o, f in v], nontrivial, outcome))
    return out


def replay(case):
    return [{"clause": c, "case": case, "expected": x, "observed": o, "features": f} for c, x, o, f in check_case(case)]


def _record(res, spec, v, info, confirm_budget):
    nontrivial = (info["persisted"] >= 1 and info["loaded"] >= 1) or (spec["kind"] in ("fail", "first_of") and info["errors"] >= 1)
    if info["errors"] >= 2:
        res.stat("A_specs_with_two_or_more_persisted_errors")
    rel = "+".join(sorted(r for r in info["rels"] if r)) or "-"
    res.case(nontrivial=nontrivial,
             outcome="A:%s:%s:p%d:l%d:%s:e%d%s" % (spec["kind"], spec.get("save_as", "none"), min(info["persisted"], 4),
                                                    min(info["loaded"], 4), rel, min(info["errors"], 4),
                                                    ":collide" if info["collide"] else ""))
    res.stat("A_results_persisted", info["persisted"])
    res.stat("A_results_loaded", info["loaded"])
    if info["collide"]:
        res.stat("A_specs_with_two_elements_on_one_location")
    if "loaded-1" in info["rels"]:
        res.stat("A_specs_losing_one_trailing_empty_line")
    if v:
        if confirm_budget[0] <= 0:
            res.stat("A_violating_specs_not_individually_confirmed")
            return
        confirm_budget[0] -= 1
        alone = check_case(spec)
        if not alone:
            raise RuntimeError("C11 harness: spec violates inside its batch but not alone: %s %r" % (json.dumps(spec)[:300], v[:2]))
        for c, x, o, f in alone:
            res.violation(c, spec, x, o, f)


def run_batches(res, specs):
    """Specs that share one archive share one Hydration object, hence one pool completion order: group by it."""
    budget = [MAX_CONFIRM_PER_UNIT]
    groups = {}
    for spec in specs:
        groups.setdefault(_exec_of(spec), []).append(spec)
    for perm in sorted(groups, key=lambda k: (k is not None, k or ())):
        group = groups[perm]
        for lo in range(0, len(group), BATCH):
            batch = group[lo:lo + BATCH]
            out = run_specs(batch, exec_perm=perm)
            res.stat("A_archives")
            if perm is not None:
                res.stat("A_specs_persisted_through_pool", len(batch))
                if list(perm) != sorted(perm):
                    res.stat("A_specs_pool_completion_order_differs_from_submission", len(batch))
            for spec, (v, info) in zip(batch, out):
                _record(res, spec, v, info, budget)


def run_unit(unit, tier):
    res = Result()
    if unit["part"] == "H":
        for case in h_cases(unit["scenario"]):
            v, info = check_h(case)
            res.case(nontrivial=info["checked"] >= 1, outcome="H:%s:%s" % (case["scenario"], info["loaded"]))
            res.stat("H_entries_checked", info["checked"])
            for c, x, o, f in v:
                res.violation(c, case, x, o, f)
        res.samples.append(case)
        return res
    if unit["part"] == "A":
        if unit["sub"] == "sweep":
            specs = [spec_single(unit["kind"], unit["save_as"], c) for c in sweep_contents(unit)]
            run_batches(res, specs)
            res.maxi("max_lines", unit["len"])
        elif unit["sub"] == "order":
            if unit["pool"]:
                specs = [spec_multi(unit["kind"], unit["save_as"], a, x) for a in arrangements(tier) for x in exec_perms(len(a))]
            else:
                specs = [spec_multi(unit["kind"], unit["save_as"], a) for a in arrangements(tier)]
            run_batches(res, specs)
            res.maxi("max_elements", BOUNDS[tier]["multi_max_elems"])
        elif unit["sub"] == "args":
            specs = arg_specs()
            run_batches(res, specs)
        elif unit["sub"] == "many":
            specs = many_specs()
            run_batches(res, specs)
        elif unit["sub"] == "collide":
            specs = collide_specs()
            run_batches(res, specs)
        elif unit["sub"] == "names":
            specs = name_specs()
            run_batches(res, specs)
        elif unit["sub"] == "first-of":
            specs = list(enumx.shard(first_of_specs(), unit["shard"], unit["of"]))
            run_batches(res, specs)
        elif unit["sub"] == "ascii-locale":
            specs = ascii_specs()
            for spec, (v, nontrivial, outcome) in zip(specs, ascii_child(specs)):
                res.case(nontrivial=nontrivial, outcome="A:C-ascii:%s:%s" % (spec["kind"], outcome))
                res.stat("A_specs_in_ascii_locale_child")
                for c, x, o, f in v:
                    res.violation(c, spec, x, o, f)
        elif unit["sub"] == "variant":
            extra = VARIANTS[unit["index"]]
            specs = [dict(spec_single(extra["kind"], extra["save_as"], c), **dict((k, v) for k, v in extra.items()
                                                                               if k not in ("kind", "save_as")))
                     for c in enumx.strings(B.TOKENS, 2)]
            run_batches(res, specs)
        else:
            specs = [{"part": "A", "kind": "fail", "exc": x, "elems": []} for x in FAILS]
            run_batches(res, specs)
        # a few representative descriptors for the evidence (the runner keeps the first six it sees)
        if unit["sub"] == "fail" or (unit["sub"] == "order" and unit["kind"] in ("m_cmd2", "cfile") and not unit["pool"]) \
                or (unit["sub"] == "sweep" and unit["first"] == "@LONG" and unit["save_as"] != "none"):
            res.samples.append(specs[len(specs) // 2])
        return res
    if unit["sub"] == "kinds":
        if not unit["subset"]:
            cases = [{"part": "B", "subset": [], "corruption": "none", "order": list(o)} for o in ORDERS]
        else:
            cases = [{"part": "B", "subset": unit["subset"], "corruption": kind, "order": list(o)}
                     for kind in CORRUPTIONS for o in ORDERS]
        if unit["arch"] != 1:
            for c in cases:
                c["arch"] = unit["arch"]
    else:
        cases = [{"part": "B", "subset": unit["subset"], "corruption": "truncate", "offset": k, "order": list(o)}
                 for k in unit["offsets"] for o in ORDERS]
    for case, (v, info) in zip(cases, check_b(cases)):
        if unit["sub"] == "truncate" and info["lens"] != unit["lens"]:
            # the offsets were enumerated from the lengths measured in the parent: they must be reproducible
            raise RuntimeError("C11 harness: metadata document lengths are not reproducible: %r vs %r" % (info["lens"], unit["lens"]))
        res.case(nontrivial=info["changed"],
                 outcome="B:%s:%s:first=%s:loaded=%s" % (case["corruption"], "".join(map(str, case["subset"])) or "-",
                                                          case["order"][0], info["loaded"]))
        res.stat("B_entries_corrupted", len(case["subset"]))
        res.stat("B_uncorrupted_entries_checked", info["checked"])
        for c, x, o, f in v:
            res.violation(c, case, x, o, f)
    if (unit["sub"] == "kinds" and len(unit["subset"]) == 2) or (unit["sub"] == "truncate" and unit["offsets"][0] == 0):
        res.samples.append(cases[len(cases) // 2])
    return res


# ---- part B --------------------------------------------------------------------------------------

B_SPECS = [
    {"part": "A", "kind": "text", "save_as": "none", "elems": [{"n": "f", "lines": ["a", "ü 日本", "", "trail "]}]},
    {"part": "A", "kind": "m_cmd", "save_as": "none", "elems": [{"n": "b", "lines": ["one"]}, {"n": "d", "lines": []},
                                                               {"n": "a", "lines": [" two", "", "x"]}]},
    {"part": "A", "kind": "fail", "exc": "value", "elems": []},
]
CORRUPTIONS = ["delete", "nonjson", "shape_list", "shape_obj", "shape_null", "shape_no_results", "shape_results_scalar",
               "unknown_name", "unknown_type", "data_deleted", "meta_is_dir", "binary", "dangling_symlink", "stray_file",
               "data_truncated", "data_emptied", "data_invalid_utf8", "data_is_dir"]
ORDERS = list(itertools.permutations(range(3)))     # every order in which hydrate can meet the three entries
NOT_CORRUPTING = ("stray_file",)      # adds an unknown entry next to the selected ones; the selected entries stay intact
for _b in BOUNDS.values():
    _b["corruption_kinds"] = ["truncate"] + CORRUPTIONS
    _b["corrupted_archive_entries"] = [sp["kind"] for sp in B_SPECS]
B_SPECS_2 = [
    {"part": "A", "kind": "raw", "save_as": "dir", "elems": [{"n": "f", "lines": ["raw \ufeff", ""]}]},
    {"part": "A", "kind": "m_ds", "save_as": "rename", "elems": [{"n": "b", "lines": ["one", ""]}, {"n": "d", "lines": []},
                                                                 {"n": "a", "lines": ["ü"]}]},
    {"part": "A", "kind": "cfile", "save_as": "none", "elems": [{"n": "x", "lines": []}, {"n": "y", "lines": ["in container"]}]},
]
B_ARCHS = {1: B_SPECS, 2: B_SPECS_2}
_LENS = None


def _template(top, arch=1):
    """Collects the three-entry archive and normalises the two timing fields (same json.dump as dehydrate)."""
    b = B.build(B_ARCHS[arch], top)
    B.collect(b)
    for i in range(len(B_ARCHS[arch])):
        p = B.meta_path(b, i)
        if b.docs[i] is None:
            continue
        doc = dict(b.docs[i])
        doc["exec_time"] = 0.5
        doc["ser_time"] = 0.25
        with open(p, "w") as fh:
            json.dump(doc, fh)
        b.docs[i] = doc
    return b


def template_lengths():
    global _LENS
    if _LENS is None:
        with tmp.scratch("c11t") as top:
            b = _template(top)
            try:
                _LENS = [os.path.getsize(B.meta_path(b, i)) if b.docs[i] is not None else 0 for i in range(len(B_SPECS))]
            finally:
                B.cleanup(b)
    return _LENS


def truncate_offsets(tier, subset, lens):
    top = max(lens[i] for i in subset)
    if tier == "thorough":
        return list(range(top))
    offs = set(range(0, top, 7)) | set(range(min(16, top)))
    for i in subset:
        offs |= set(range(max(0, lens[i] - 16), lens[i]))
    return sorted(offs)


def corrupt(b, out, case):
    """Applies the corruption to the copy `out`. Returns True when a metadata or data file actually changed."""
    changed = False
    kind = case["corruption"]
    for i in case["subset"]:
        mp = B.meta_path(b, i, out)
        if not os.path.isfile(mp):
            continue
        with open(mp, "rb") as fh:
            raw = fh.read()
        new = None
        if kind == "delete":
            os.remove(mp)
            changed = True
        elif kind == "meta_is_dir":
            os.remove(mp)
            os.mkdir(mp)
            changed = True
        elif kind == "truncate":
            new = raw[:max(0, min(case["offset"], len(raw) - 1))]
        elif kind == "dangling_symlink":
            os.remove(mp)
            os.symlink(mp + ".does-not-exist", mp)
            changed = True
        elif kind == "stray_file":
            with open(mp[:-len(".json")] + ".junk", "wb") as fh:
                fh.write(b"\x00stray")
            changed = True
        elif kind == "nonjson":
            new = b"this is {not json"
        elif kind == "binary":
            new = b"\xff\xfe\x00\x80{garbage"
        elif kind == "shape_list":
            new = b"[]"
        elif kind == "shape_obj":
            new = b"{}"
        elif kind == "shape_null":
            new = b"null"
        else:
            doc = json.loads(raw.decode("utf-8"))
            results = doc.get("results")
            first = results[0] if isinstance(results, list) and results else results
            if kind == "shape_no_results":
                doc.pop("results", None)
            elif kind == "shape_results_scalar":
                doc["results"] = 7
            elif kind == "unknown_name":
                doc["name"] = B.MODULE + ".Nowhere.missing"
            elif kind == "unknown_type":
                if isinstance(first, dict):
                    first["type"] = B.MODULE + ".NoSuchProvider"
            elif kind.startswith("data_"):
                if isinstance(first, dict):
                    dp = os.path.join(out, "data", first["object"]["relative_path"])
                    if os.path.isfile(dp):
                        with open(dp, "rb") as fh:
                            data = fh.read()
                        os.remove(dp)
                        if kind == "data_is_dir":
                            os.mkdir(dp)
                        elif kind != "data_deleted":
                            with open(dp, "wb") as fh:
                                fh.write({"data_truncated": data[:len(data) // 2], "data_emptied": b"",
                                          "data_invalid_utf8": b"\xff\xfe\x80" + data[1:]}[kind])
                        changed = True
            else:
                raise ValueError("unknown corruption %r" % kind)
            new = json.dumps(doc).encode("utf-8")
        if new is not None and new != raw:
            with open(mp, "wb") as fh:
                fh.write(new)
            changed = True
    return changed


def check_b(cases):
    """-> [(violations [(clause, expected, observed, features)], info)] per corruption case; the archive is
    collected once per call, every case works on its own copy."""
    e = B.env()
    outl = []
    with tmp.scratch("c11b") as top:
        t = os.path.join(top, "t")
        os.makedirs(t)
        arch = cases[0].get("arch", 1)
        if any(c.get("arch", 1) != arch for c in cases):
            raise ValueError("one check_b call works on one archive shape")
        bspecs = B_ARCHS[arch]
        b = _template(t, arch)
        try:
            errs = [B.expected_errors(b, i) for i in range(len(b.points))]
            lens = [os.path.getsize(B.meta_path(b, i)) if b.docs[i] is not None else 0 for i in range(len(bspecs))]
            for n, case in enumerate(cases):
                feats = {"corruption": case["corruption"], "entries_corrupted": len(case["subset"]), "archive_shape": arch,
                         "first_listed_entry_corrupted": bool(case.get("order")) and case["order"][0] in case["subset"]}
                v = []
                info = {"changed": False, "loaded": "", "checked": 0, "lens": lens}
                out = os.path.join(top, "c%05d" % n)
                B.copy_archive(b, out)
                try:
                    info["changed"] = corrupt(b, out, case)
                    try:
                        ctx, broker = B.load(b, out, order=case.get("order"))
                    except Exception as ex:
                        v.append(("corruption:hydrate-raises", "no exception", repr(ex)[:300], feats))
                        outl.append((v, info))
                        continue
                    info["loaded"] = "".join(str(i) for i, p in enumerate(b.points) if p in broker)
                    for i, spec in enumerate(bspecs):
                        if i in case["subset"] and case["corruption"] not in NOT_CORRUPTING:
                            continue
                        info["checked"] += 1
                        ev, einfo = check_entry(spec, b.originals[i], b.docs[i], b.points[i] in broker, broker.get(b.points[i]), errs[i])
                        for c, x, o in ev:
                            if c.startswith("errors:") or case["corruption"] == "none":
                                v.append((c, x, o, dict(feats, entry=i)))
                            else:
                                v.append(("corruption:uncorrupted-entry-" + ("lost" if c == "roundtrip:missing-after-load" else "differs"),
                                          {"entry": i, "kind": spec["kind"], "check": c, "expected": x}, o, dict(feats, entry=i)))
                finally:
                    shutil.rmtree(out, ignore_errors=True)
                outl.append((v, info))
        finally:
            B.cleanup(b)
    return outl


# ---- part H: several entries in one archive, load orders, two-step histories, other entry points ---------------

H_SPECS = [
    {"part": "A", "kind": "text", "save_as": "rename", "elems": [{"n": "f", "lines": ["a", "", "ü"]}]},
    {"part": "A", "kind": "m_cmd", "save_as": "none", "elems": [{"n": "v0", "arg": 0, "lines": ["zero"]},
                                                               {"n": "d", "arg": "", "lines": []},
                                                               {"n": "v2", "arg": 2, "lines": ["two", ""]}]},
    {"part": "A", "kind": "ds_str", "save_as": "dir", "elems": [{"n": "f", "lines": ["\ufeffbom", "x "]}]},
    {"part": "A", "kind": "fail", "exc": "value", "elems": []},
]
# component names: one attribute name a prefix of another, a case variant, non-ASCII identifiers (the metadata file
# name is derived from the component name), and a non-ASCII class name
H_NAME_SPECS = [dict(H_SPECS[0], attr="p1"), dict(H_SPECS[1], attr="p10"), dict(H_SPECS[2], attr="P1"),
                dict(H_SPECS[3], attr="naïve_spéc"), dict(H_SPECS[2], attr="日本")]
H_SCENARIOS = ["order", "direct_hydrate", "prefilled_unrelated", "prefilled_same", "hydrate_twice_same_broker",
               "load_twice_fresh", "dehydrate_twice", "second_hydration_object", "two_runs", "stream", "compressed", "names"]
ROT4 = [[0, 1, 2, 3], [1, 2, 3, 0], [2, 3, 0, 1], [3, 0, 1, 2], [3, 2, 1, 0]]


def h_cases(sc):
    perms = [list(p) for p in itertools.permutations(range(4))]
    if sc == "order":
        return [{"part": "H", "scenario": sc, "order": o} for o in perms]
    if sc in ("direct_hydrate", "prefilled_unrelated", "load_twice_fresh", "stream", "compressed"):
        return [{"part": "H", "scenario": sc, "order": o} for o in ROT4]
    if sc == "prefilled_same":
        return [{"part": "H", "scenario": sc, "entry": i, "order": o} for i in range(3) for o in perms]
    if sc == "hydrate_twice_same_broker":
        return [{"part": "H", "scenario": sc, "order": o} for o in perms]
    if sc in ("dehydrate_twice", "second_hydration_object"):
        return [{"part": "H", "scenario": sc, "entries": list(t)} for t in enumx.subsets(range(4), min_size=1)]
    if sc == "two_runs":
        return [{"part": "H", "scenario": sc, "first": list(t)} for t in enumx.subsets(range(4), min_size=1, max_size=3)]
    if sc == "names":
        return [{"part": "H", "scenario": sc, "order": list(o)} for o in
                ([0, 1, 2, 3, 4], [1, 0, 2, 3, 4], [4, 3, 2, 1, 0], [2, 0, 1, 4, 3])]
    raise ValueError(sc)


def check_h(case):
    """-> (violations [(clause, expected, observed, features)], info). One archive with several entries; what is
    demanded is what parts A and B demand: loading never raises and every entry loads as collected."""
    e = B.env()
    sc = case["scenario"]
    specs = H_NAME_SPECS if sc == "names" else H_SPECS
    feats = {"scenario": sc}
    info = {"checked": 0, "loaded": ""}
    v = []
    with tmp.scratch("c11h") as top:
        b = B.build(specs, top, cls_suffix="É" if sc == "names" else "")
        try:
            n = len(specs)
            if sc == "two_runs":
                B.collect(b, only=case["first"])
                B.collect(b, only=[i for i in range(n) if i not in case["first"]])
            else:
                B.collect(b)
            if sc == "dehydrate_twice":          # the same Hydration object persists a component a second time
                for i in case["entries"]:
                    b.hydration.dehydrate(b.points[i], b.brokers[i])
                B.read_docs(b)
            if sc == "second_hydration_object":  # a second Hydration object on the same directory persists it again
                h2 = e.serde.Hydration(b.out, b.ctx)
                for i in case["entries"]:
                    h2.dehydrate(b.points[i], b.brokers[i])
                B.read_docs(b)
            errs = [B.expected_errors(b, i) for i in range(n)]
            order = case.get("order")
            skip = set()
            loads = []                 # brokers to check
            out = b.out
            keep = None
            try:
                if sc == "direct_hydrate":
                    loads.append(B.load(b, order=order, direct=True)[1])
                elif sc == "prefilled_unrelated":
                    pre = e.dr.Broker()
                    pre["verif-unrelated-key"] = 0
                    loads.append(B.load(b, order=order, broker=pre)[1])
                elif sc == "prefilled_same":
                    pre = e.dr.Broker()
                    pre[b.points[case["entry"]]] = "PREFILLED"
                    skip.add(case["entry"])
                    loads.append(B.load(b, order=order, broker=pre, direct=True)[1])
                elif sc == "hydrate_twice_same_broker":
                    ctx, br = B.load(b, order=order)
                    with B.listing_order(os.path.join(out, "meta_data"), B.meta_names(b, order[::-1])):
                        br2 = e.serde.Hydration(root=out, ctx=ctx).hydrate(br)
                    loads.append(br2)
                elif sc == "load_twice_fresh":
                    loads.append(B.load(b, order=order)[1])
                    loads.append(B.load(b, order=order[::-1])[1])
                elif sc == "compressed":
                    from insights.collect import create_archive
                    from insights.core import archives
                    tgz = create_archive(b.out, remove_path=True)
                    keep = archives.extract(tgz, extract_dir=top, content_type="application/gzip")
                    ex = keep.__enter__()
                    out = os.path.join(ex.tmp_dir, os.path.basename(b.out))
                    ctx, br = B.load(b, out=out, order=order)
                    if not isinstance(ctx, e.SerializedArchiveContext):
                        v.append(("roundtrip:archive-not-recognised", "SerializedArchiveContext", type(ctx).__name__, feats))
                    loads.append(br)
                else:
                    loads.append(B.load(b, order=order)[1])
                for broker in loads:
                    info["loaded"] = "".join(str(i) for i, p in enumerate(b.points) if p in broker)
                    for i, spec in enumerate(specs):
                        if i in skip:
                            continue
                        info["checked"] += 1
                        value = broker.get(b.points[i])
                        if sc == "stream" and value is not None:
                            for k, p in enumerate(value if isinstance(value, list) else [value]):
                                streamed = list(p.stream())       # before .content: reads the persisted file itself
                                if streamed != list(p.content):
                                    v.append(("roundtrip:stream-differs-from-content", show(list(p.content)), show(streamed),
                                              dict(feats, entry=i)))
                        ev, _ = check_entry(spec, b.originals[i], b.docs[i], b.points[i] in broker, value, errs[i])
                        for c, x, o in ev:
                            v.append((c, x, o, dict(feats, entry=i, kind=spec["kind"])))
            except Exception as ex:
                v.append(("history:load-raises", "no exception", repr(ex)[:300], feats))
            finally:
                if keep is not None:
                    keep.__exit__(None, None, None)
        finally:
            B.cleanup(b)
    return v, info


TECHNIQUE = ("bounded exhaustive enumeration of contents x provider kinds x save-as x element orders through a real collection + "
             "persist + load cycle, and of every corruption kind (truncation at every byte offset) x every subset of metadata entries")
LEVEL_TEXT = ("Every line sequence up to the bound over an alphabet with one token per reader/writer shortcut (empty, edge blanks, tab, "
              "2/3/4-byte UTF-8, form feed, a leading U+FEFF, a 70 000-character line) is collected, persisted by the real Hydration persister and loaded "
              "back by the real archive initialisation for every provider kind and save-as mode; multi-output order is decided over all "
              "arrangements; fault tolerance is decided by applying every corruption kind to every subset of entries. "
              "fault_enumeration is the right level: the claim is about a finite family of faults and a data round trip, there is no "
              "interleaving or history to explore.")
LEVEL_NOTE = ("Trusted: the recording host context standing in for command execution; /usr/bin/env standing in for the container "
              "engine; bounded by line count, alphabet and element count; corrupted entries themselves are not constrained.")
