"""C16 - client options resolve by precedence, and offline means no network.

Every case drives the real loader (`InsightsConfig().load_all()`) through its three real input
channels: `sys.argv`, `os.environ` (INSIGHTS_*) and a configuration file written for the case
under a scratch directory and passed with `--conf`.  All three are saved and restored per case.

Part 1 (precedence, coercion, unknown names) - for EVERY option of the live DEFAULT_OPTS:
  * every subset of the sources that can set the option (file / env / CLI) with pairwise
    distinct values (strings, numbers), and additionally with the winning source carrying the
    built-in default while the losing sources carry something else;
  * for booleans and the None-default switches the full product
    {unset, true, false} x {unset, true, false} x {unset, flag};
  * every documented boolean spelling per source, numeric options incl. invalid text;
  * falsy-but-real values: the empty string from file / env / CLI, 0 for the numeric options,
    as winner over a non-empty lower source and as loser;
  * glue: file values with % # ; = : quotes, inner and surrounding blanks, env values with
    % # = quotes, `--opt=value` on the command line;
  * the option in both the current and the legacy section (the current one wins), the legacy
    section alone;
  * every main case once more with load_all() called twice on the SAME object;
  * histories in one process: a load that sets the option, then a load without sources must
    give the built-in defaults, must leave DEFAULT_OPTS unchanged and the first object intact;
  * unknown names in file / env / CLI / constructor, among them names of methods and private
    attributes, near-misses of declared options (prefix, `no_` prefix, suffix, other case); the
    same unknown name in every set of >= 2 channels of ONE object (constructor dict, file,
    environment, later update), different names per channel, load_all() twice;
    `conf` chains (file -> conf, INSIGHTS_CONF); duplicate keys, key letter case;
  * the legacy negated spelling `no_gpg` and `gpg` in every pair of sources, all values: the
    highest source that says anything about the setting, through either spelling, wins.
  Oracle: the attribute is the (coerced) value of the highest-priority source that set it
  (CLI > env > file > default), compared type-strictly; a ValueError is accepted only when the
  constructor refuses the very same final value too (an option may refuse a value, e.g.
  `--use-atomic`, but then the refusal does not depend on the source or on the losers).

Part 2 (implications / conflicts) - the on/off product of the 17 options the statement names,
each requested value written into one source (and the same product through the constructor),
plus a sub-product with the options outside the 17 that the loader's implications touch
(payload, content_type, app, manifest, compliance, ansible_host, no_gpg, gpg, legacy_upload).
Oracle: `load_all` raises ValueError, or the returned configuration satisfies every implication
of the statement and every option no stated implication rewrites has the requested value; the
statement's "never combined with" pairs and host-name obfuscation without obfuscation raise.
"""
import copy
import os
import sys

from mc.result import Result
from mc import enumx
from harness import tmp

ID = "C16"
LEVEL = "exploration"
RULE = ("part 1: for every option of the live DEFAULT_OPTS every subset of the sources able to set it "
        "(file, INSIGHTS_* environment, command line) with pairwise distinct values, the winner carrying the default, "
        "every documented boolean spelling, valid / invalid / zero numeric text, empty strings, glue characters, both "
        "sections, load_all twice on one object, set-then-default histories in one process, unknown / shadowing names, "
        "conf chains; non-trivial = at least two sources carry different values for the option (a real precedence "
        "decision), or a single source changes the default, or an unknown name is actually delivered to the loader. "
        "part 2: every on/off assignment of the statement's 17 options (quick: two 12-option sub-products) under each "
        "placement of the requested values into sources and through the constructor, plus a 12-option sub-product of "
        "the options the implications rewrite; non-trivial = an antecedent of the statement (offline, output "
        "dir/file, obfuscate_hostname) is requested")
ASSUMPTIONS = [
    "option metadata (names, defaults, CLI spellings, argparse action/type) is read from the live DEFAULT_OPTS; "
    "the coercion reference (configparser boolean spellings for every on/off option in the file, true/false in the "
    "environment, int/float for the three numeric options, surrounding blanks stripped in the file) is what the "
    "loader documents",
    "boolean spellings the environment does not document (INSIGHTS_X=1/yes/empty) are outside the alphabet",
    "only one option is varied at a time in part 1 (plus the minimal background another option demands, e.g. "
    "obfuscate for obfuscate_hostname); every option is placed in exactly one source in part 2",
    "the default configuration file is never read: --conf is always given (the cases without --conf are skipped "
    "when that file exists)",
    "statement silent, oracle lenient: text that is not a number, duplicate keys in the file, keys in another "
    "letter case, values of options that a loader implication outside the statement rewrites (content_type, "
    "manifest, legacy_upload, gpg via no_gpg, keep_archive via no_upload, diagnosis via to_json+quiet), whether "
    "INSIGHTS_CONF / a conf= line in the file make another file load",
    "messages printed by the loader (argparse usage on SystemExit) are discarded, not inspected",
]

STATEMENT_OPTS = ["offline", "no_upload", "register", "auto_update", "keep_archive", "status", "test_connection",
                  "checkin", "unregister", "check_results", "diagnosis", "to_json", "quiet", "output_dir",
                  "output_file", "obfuscate", "obfuscate_hostname"]
VETOED = ["status", "test_connection", "checkin", "unregister", "check_results", "diagnosis", "to_json"]
EXTRA_OPTS = ["payload", "content_type", "app", "manifest", "compliance", "ansible_host", "no_gpg", "gpg",
              "legacy_upload"]
# options that no implication (stated or not) rewrites: the final value is the requested one, type-strictly
STRICT_SAME = ["offline", "status", "test_connection", "checkin", "unregister", "check_results", "quiet",
               "obfuscate", "obfuscate_hostname", "to_json", "payload", "app", "compliance", "ansible_host", "no_gpg"]
# quick sub-products (12 options each); QA contains the whole offline group
QA = ["offline", "no_upload", "register", "auto_update"] + VETOED + ["quiet"]
QB = ["output_dir", "output_file", "keep_archive", "obfuscate", "obfuscate_hostname",
      "no_upload", "offline", "to_json", "quiet", "diagnosis", "register", "auto_update"]
QB_ONLY = QB[:5]
QC = EXTRA_OPTS + ["offline", "register", "output_file"]
MIXED = ["offline"] + VETOED          # thorough: every option independently in file / env / CLI
SPACES = {"QA": QA, "QB": QB, "QC": QC, "ALL": STATEMENT_OPTS}

BOUNDS = {"quick": {"options": "all of DEFAULT_OPTS",
                    "implication_subproducts": ["QA(12) x {cli-or-file, env}", "QB(12) x {cli-or-file, file}",
                                                "QB x cli-or-file with load_all twice", "QC(12) x {cli-or-file, env}",
                                                "QA x constructor {kwargs, dict}", "QB x constructor kwargs"],
                    "bool_spelling_product": False},
          "thorough": {"options": "all of DEFAULT_OPTS", "implication_product": "2^17 x {cli-or-file, env, file}",
                       "mixed_placement": "4^8 over offline + 7 vetoed requests", "bool_spelling_product": True,
                       "plus": "everything of the quick tier except the QA/QB source sub-products"}}
CAP_S = {"quick": 240, "thorough": 1800}

FILE_TRUE = ["1", "yes", "true", "on"]
FILE_FALSE = ["0", "no", "false", "off"]
FILE_SPELL = ["True", "False", "1", "0", "yes", "no", "true", "false", "on", "off", "TRUE", "FALSE"]
ENV_SPELL = ["true", "false", "True", "False", "TRUE", "FALSE"]
INT_BAD = ["abc", "", "1.5", "0x10"]
FLOAT_BAD = ["abc", "", "1,5"]
GLUE_FILE = ["p%40ss", "100%", "a#b", "a;b", "k=v", "a:b", "\"q\"", "it's", "in side", "  pad  ", "\\n\\t"]
GLUE_ENV = ["p%40ss", "a#b", "k=v", "\"q\"", "in side"]
UNKNOWN_NAMES = ["bogus", "no_schedule", "offline_mode", "load_all", "_load_env", "_update_dict", "_imply_options",
                 "_validate_options", "_cli_opts", "_init_attrs", "_print_errors", "__class__", "__dict__",
                 "__getitem__", ""]
LEGACY = "redhat-access-insights"
CURRENT = "insights-client"
MARK = "c16-injected"

INVALID = object()
_META = None


# ---- live option metadata -------------------------------------------------------------------

def _cfg():
    from insights.client import config
    return config


def meta():
    """kind / CLI form / default of every option, from the live DEFAULT_OPTS."""
    global _META
    if _META is None:
        m = {}
        for name, spec in _cfg().DEFAULT_OPTS.items():
            d = spec["default"]
            if type(d) is bool:
                kind = "bool"
            elif type(d) is int:
                kind = "int"
            elif type(d) is float:
                kind = "float"
            elif spec.get("action") in ("store_true", "store_false"):
                kind = "flag"                 # on/off switch whose built-in default is None
            else:
                kind = "str"
            m[name] = {"kind": kind, "default": d, "opt": list(spec.get("opt", [])), "action": spec.get("action"),
                       "nargs": spec.get("nargs"), "const": spec.get("const"), "type": spec.get("type")}
        _META = m
    return _META


def takes_value(mo):
    return mo["action"] not in ("store_true", "store_false")


def _apps():
    from insights.specs.manifests import manifests
    return sorted(k for k, v in manifests.items() if v)


SPECIAL_STR = ("compressor", "app", "module", "output_dir", "output_file", "conf")


def str_values(name):
    """Three pairwise distinct, non-default values (file, env, cli) that the option accepts."""
    if name == "compressor":
        return ["xz", "bz2", "none"]
    if name == "app":
        a = _apps()
        return a[:3] if len(a) >= 3 else ["f.app", "e.app", "c.app"]
    if name == "module":
        return ["insights.client.apps.f", "insights.client.apps.e", "insights.client.apps.c"]
    if name == "output_dir":
        return ["{S}/od_f", "{S}/od_e", "{S}/od_c"]
    if name == "output_file":
        return ["{S}/of_f.tar.gz", "{S}/of_e.tar.gz", "{S}/of_c.tar.gz"]
    # the file value carries a literal '%' (e.g. a URL-encoded password in a proxy URL): the file is documented as
    # raw key=value text, so an interpolating parser silently dropping the file is a precedence violation
    # (added after a seeded change showed the alphabet had no such character)
    return ["f%40." + name, "e." + name, "c." + name]


def background(name):
    """The minimal setting of ANOTHER option without which no value of `name` is accepted
    (`kw` is the same setting for the constructor)."""
    if name == "obfuscate_hostname":
        return {"env": {"INSIGHTS_OBFUSCATE": "true"}, "kw": {"obfuscate": True}}
    if name == "payload":
        return {"argv": ["--content-type", "application/x-c16"], "kw": {"content_type": "application/x-c16"}}
    return None


# ---- reference coercion (boring, per source) ------------------------------------------------

def model_file(mo, raw):
    k = mo["kind"]
    raw = raw.strip()
    if k in ("bool", "flag"):
        # an on/off option written in the file is a boolean in any of configparser's spellings - also for the three
        # switches whose built-in default is None (the statement quantifies over "boolean spellings" of every option)
        s = raw.lower()
        return [True] if s in FILE_TRUE else [False] if s in FILE_FALSE else INVALID
    if k == "int":
        try:
            return [int(raw)]
        except ValueError:
            return INVALID
    if k == "float":
        try:
            return [float(raw)]
        except ValueError:
            return INVALID
    return [raw]


def model_env(mo, raw):
    k = mo["kind"]
    if raw.lower() == "true":
        return [True]
    if raw.lower() == "false":
        return [False]
    if k == "int":
        try:
            return [int(raw)]
        except ValueError:
            return INVALID
    if k == "float":
        try:
            return [float(raw)]
        except ValueError:
            return INVALID
    return [raw]


def model_cli(mo, tokens):
    if mo["action"] == "store_true":
        return [True]
    if mo["action"] == "store_false":
        return [False]
    if len(tokens) == 1 and "=" in tokens[0] and tokens[0].startswith("--"):
        tokens = tokens[0].split("=", 1)              # --opt=value
    if len(tokens) == 1:
        return [mo["const"]]              # nargs='?'
    if mo["type"] is int:
        try:
            return [int(tokens[1])]
        except ValueError:
            return INVALID
    return [tokens[1]]


def same(a, b):
    return type(a) is type(b) and a == b


# ---- driving the real loader ----------------------------------------------------------------

class _Sink(object):
    def write(self, s):
        return len(s)

    def flush(self):
        pass


def load(conf_path, file_text, env, argv, times=1, extra_files=None, keep=None, ctor=None):
    """One real load under controlled argv / environ / file(s). Returns (tag, config-or-message).
    times=2 calls load_all() twice on the same object; ctor = dict handed to the constructor first."""
    cfgmod = _cfg()
    if file_text is not None:
        with open(conf_path, "w") as fh:
            fh.write(file_text)
    elif os.path.exists(conf_path):
        os.remove(conf_path)
    for p, t in (extra_files or {}).items():
        with open(p, "w") as fh:
            fh.write(t)
    saved_argv = sys.argv
    saved_env = dict((k, v) for k, v in os.environ.items() if k.upper().startswith("INSIGHTS_"))
    saved_out, saved_err = sys.stdout, sys.stderr
    for k in saved_env:
        del os.environ[k]
    try:
        sys.argv = ["insights-client"] + list(argv)
        os.environ.update(env)
        sys.stdout = sys.stderr = _Sink()
        try:
            cfg = cfgmod.InsightsConfig(ctor) if ctor is not None else cfgmod.InsightsConfig()
            for _ in range(times):
                cfg.load_all()
            return "ok", cfg
        except ValueError as ex:
            return "ValueError", str(ex)[:200]
        except SystemExit as ex:
            return "SystemExit", repr(ex.code)
        except Exception as ex:                      # anything else is a crash of the loader
            return "crash", "%s: %s" % (type(ex).__name__, str(ex)[:200])
    finally:
        sys.stdout, sys.stderr = saved_out, saved_err
        sys.argv = saved_argv
        for k in list(os.environ):
            if k.upper().startswith("INSIGHTS_"):
                del os.environ[k]
        os.environ.update(saved_env)
        for p in (extra_files or {}):
            if os.path.exists(p):
                os.remove(p)


def construct(args, kwargs):
    """The constructor channel: InsightsConfig(dict) / InsightsConfig(**kw) implies and validates too."""
    cfgmod = _cfg()
    saved_out, saved_err = sys.stdout, sys.stderr
    try:
        sys.stdout = sys.stderr = _Sink()
        try:
            return "ok", cfgmod.InsightsConfig(*args, **kwargs)
        except ValueError as ex:
            return "ValueError", str(ex)[:200]
        except Exception as ex:
            return "crash", "%s: %s" % (type(ex).__name__, str(ex)[:200])
    finally:
        sys.stdout, sys.stderr = saved_out, saved_err


_BASE = None


def empty_load(S):
    conf = os.path.join(S, "c.conf")
    return load(conf, "[%s]\n" % CURRENT, {}, ["--conf", conf])


def baseline_attrs(S):
    """Instance attributes a configuration legitimately has: the declared options plus whatever a load without
    any setting leaves on the object (taken generically - no private name is spelled out here)."""
    global _BASE
    if _BASE is None:
        tag, cfg = empty_load(S)
        if tag != "ok":
            raise RuntimeError("the default configuration does not load: %s %s" % (tag, cfg))
        _BASE = set(vars(cfg)) | set(_cfg().DEFAULT_OPTS)
    return _BASE


def structural(cfg, S):
    """Checked after EVERY successful load: only declared options are settings; methods intact."""
    out = []
    extra = sorted(set(vars(cfg)) - baseline_attrs(S))
    if extra:
        out.append(("unknown:becomes-setting", "no attribute outside DEFAULT_OPTS", extra, {"names": extra[:4]}))
    shadow = sorted(k for k in vars(cfg) if k in dir(type(cfg)))
    if shadow:
        out.append(("unknown:shadows-class-attribute", "methods / class attributes intact", shadow,
                    {"names": shadow[:4]}))
    return out


def sub(s, S):
    if not isinstance(s, str):
        return s
    if "{D}" in s:
        s = s.replace("{D}", meta()["conf"]["default"])       # the built-in default path of `conf`
    return s.replace("{S}", S)


def env_key(name):
    return "INSIGHTS_%s" % name.upper()


# ---- part 1: one option, several sources ----------------------------------------------------

def build_prec(case, S):
    name = case["opt"]
    bg = case.get("bg") or {}
    conf = os.path.join(S, "c.conf")
    text = None
    if not case.get("noconf"):
        lines = ["[%s]" % case.get("section", CURRENT)]
        for k, v in sorted((bg.get("file") or {}).items()):
            lines.append("%s=%s" % (k, sub(v, S)))
        if case.get("file") is not None:
            lines.append("%s=%s" % (name, sub(case["file"], S)))
        also = case.get("also")
        if also:
            other = ["[%s]" % also["section"], "%s=%s" % (name, sub(also["value"], S))]
            lines = other + lines if also.get("first") else lines + other
        text = "\n".join(lines) + "\n"
    env = dict((k, sub(v, S)) for k, v in (bg.get("env") or {}).items())
    if case.get("env") is not None:
        env[env_key(name)] = sub(case["env"], S)
    argv = []
    if name != "conf" and not case.get("noconf"):
        argv += ["--conf", conf]
    argv += [sub(t, S) for t in (bg.get("argv") or [])]
    if case.get("cli") is not None:
        argv += [sub(t, S) for t in case["cli"]]
    return conf, text, env, argv


def expected_prec(case, S):
    """(winner source, acceptable final values, per-source coerced values) from the reference coercion."""
    mo = meta()[case["opt"]]
    vals = {}
    if case.get("cli") is not None:
        vals["cli"] = model_cli(mo, [sub(t, S) for t in case["cli"]])
    if case.get("env") is not None:
        vals["env"] = model_env(mo, sub(case["env"], S))
    if case.get("file") is not None and not case.get("noconf"):
        vals["file"] = model_file(mo, sub(case["file"], S))
    for src in ("cli", "env", "file"):
        if src in vals:
            return src, vals[src], vals
    return "default", [mo["default"]], vals


def check_prec(case, S):
    name = case["opt"]
    mo = meta()[name]
    winner, acc, vals = expected_prec(case, S)
    srcs = "+".join(s for s in ("file", "env", "cli") if s in vals) or "none"
    feats = {"opt": name, "kind": mo["kind"], "sources": srcs, "winner": winner}
    if case.get("section"):
        feats = {"section": case["section"], "coerced": mo["kind"] in ("bool", "int", "float")}
    if case.get("also"):
        feats["both_sections"] = True
    if case.get("reload"):
        feats["reload"] = True
    conf, text, env, argv = build_prec(case, S)
    tag, got = load(conf, text, env, argv, times=2 if case.get("reload") else 1)
    out = []
    invalid = [s for s, v in vals.items() if v is INVALID]
    distinct = len(set(repr(v) for v in vals.values())) > 1
    info = {"nontrivial": distinct, "tag": tag, "outcome": "prec:%s:%s:%s:%s" % (mo["kind"], srcs, winner, tag)}
    clause_pfx = "file:legacy-section" if case.get("section") else "file:both-sections" if case.get("also") else None
    if case.get("section"):
        feats["error"] = got.split(":")[0] if tag == "crash" else "none"

    if tag == "crash":
        out.append((clause_pfx or "load:crash", "a configuration or ValueError", got, feats))
        return out, info
    if invalid:
        # Statement silent on text that is not a number / not a boolean: the load is refused, or the bad source is
        # ignored; the attribute never becomes such text, and a valid higher-priority source still wins.
        info["outcome"] = "invalid:%s:%s:%s" % (mo["kind"], "+".join(sorted(invalid)), tag)
        info["nontrivial"] = True
        if tag == "SystemExit":
            if "cli" not in invalid:
                out.append(("load:unexpected-exit", "no exit: the command line is valid", got, feats))
            return out, info
        if tag == "ValueError":
            return out, info
        val = getattr(got, name)
        cands = [x for v in vals.values() if v is not INVALID for x in v] + [mo["default"]]
        if not any(same(val, c) for c in cands):
            out.append(("numeric:invalid-text-becomes-value", "one of %r or an error" % (cands,), repr(val), feats))
        elif winner not in invalid and not any(same(val, c) for c in acc):
            out.append(("precedence:highest-source-wins", acc, repr(val), feats))
        return out + structural(got, S), info
    if tag == "SystemExit":
        out.append(("load:unexpected-exit", "no exit: every command-line token is a declared option", got, feats))
        return out, info
    if name in ("output_dir", "output_file"):
        acc = [os.path.abspath(a) if isinstance(a, str) and a else a for a in acc]
    if tag == "ValueError":
        # An option may refuse a value (unsupported switches, unknown app, empty output dir ...). Whether a final
        # value is refused is decided by the shared validation, which the constructor runs as well: the loader may
        # only refuse what the constructor refuses for the same final value. Losing sources, the source that won
        # and its spelling must not matter.
        kw = dict((case.get("bg") or {}).get("kw") or {})
        kw[name] = acc[0]
        ctag, _ = construct((), kw)
        if ctag == "ok":
            out.append((clause_pfx or "precedence:value-refused",
                        "load succeeds with %s=%r (the constructor accepts this value)" % (name, acc[0]),
                        "ValueError: " + got, feats))
        return out, info
    val = getattr(got, name, "<missing>")
    if not any(same(val, a) for a in acc):
        clause = clause_pfx or ("coercion:single-source" if len(vals) == 1 and srcs != "none"
                                else "precedence:highest-source-wins")
        if winner == "file" and isinstance(val, str) and val == sub(case["file"], S).strip() and mo["kind"] != "str":
            feats["got_raw_text"] = True
        out.append((clause, {"winner": winner, "acceptable": [repr(a) for a in acc]}, repr(val), feats))
    try:
        item = got[name]
    except Exception as ex:
        item = "raises %s" % type(ex).__name__
    if not same(item, val):
        out.append(("observe:item-access-differs", repr(val), repr(item), feats))
    if not same(val, mo["default"]):
        info["nontrivial"] = info["nontrivial"] or len(vals) == 1
    return out + structural(got, S), info


def _cli_forms(name, mo, value=None):
    """Every command-line spelling of one option (all flag names; nargs='?' with and without a value)."""
    forms = []
    for flag in mo["opt"]:
        if not takes_value(mo):
            forms.append([flag])
        elif mo["nargs"] == "?":
            forms.append([flag])
            forms.append([flag, value or ("c." + name)])
        else:
            forms.append([flag, value])
    return forms


def gen_prec(name, tier):
    """The main part-1 cases of one option (no duplicates)."""
    mo = meta()[name]
    kind = mo["kind"]
    bg = background(name)
    cases = []

    def add(f, e, c, **kw):
        d = {"kind": "prec", "opt": name, "file": f, "env": e, "cli": c}
        if bg:
            d["bg"] = bg
        d.update(kw)
        cases.append(d)

    if name == "conf":
        P = "{S}/c.conf"
        for flag in mo["opt"]:
            for f in (None, "f.conf"):
                for e in (None, "e.conf"):
                    add(f, e, [flag, P])
        add(None, "e.conf", None, noconf=True)
        add(None, None, None, noconf=True)
        # the command line names the built-in default path (which does not exist) while the environment names another
        for flag in mo["opt"]:
            add(None, "e.conf", [flag, "{D}"], noconf=True)
            add(None, None, [flag, "{D}"], noconf=True)
        return cases

    has_cli = bool(mo["opt"])
    if kind in ("bool", "flag"):
        fs = FILE_SPELL if tier == "thorough" else ["True", "False"]
        es = ENV_SPELL if tier == "thorough" else ["true", "false"]
        forms = _cli_forms(name, mo) if has_cli else []
        for f in [None] + fs:
            for e in [None] + es:
                add(f, e, None)
                for c in forms[:1]:
                    add(f, e, c)
        # remaining CLI spellings (alternative flag names, '?' with a value) against canonical file/env values
        for c in forms[1:]:
            for f in (None, "True", "False"):
                for e in (None, "true", "false"):
                    add(f, e, c)
        if tier != "thorough":
            for f in FILE_SPELL[2:]:
                add(f, None, None)
            for e in ENV_SPELL[2:]:
                add(None, e, None)
        return cases

    if kind == "int":
        vf, ve, vc, bad = "7", "5", "3", INT_BAD
    elif kind == "float":
        vf, ve, vc, bad = "7.5", "5", "3.25", FLOAT_BAD
    else:
        vf, ve, vc = str_values(name)
        bad = []
    forms = _cli_forms(name, mo, vc) if has_cli else []
    main = forms[0] if forms else None
    dflt = mo["default"]
    dtext = None
    if isinstance(dflt, str) or kind in ("int", "float"):
        dtext = str(dflt)
    for f in (None, vf):
        for e in (None, ve):
            for c in ([None, main] if main else [None]):
                add(f, e, c)
    for c in forms[1:]:
        for f in (None, vf):
            for e in (None, ve):
                add(f, e, c)
    if main:
        for f in (None, vf):
            add(f, None, ["%s=%s" % (main[0], vc)])                 # --opt=value
    # the winning source carries the built-in default, the losing ones something else
    if dtext is not None:
        if main and dtext != "":
            for flag in mo["opt"]:
                for f in (None, vf):
                    for e in (None, ve):
                        add(f, e, [flag, dtext])
        for f in (None, vf):
            add(f, dtext, None)
        add(dtext, None, None)
    # falsy but real: the empty string / zero, winning over a lower source, losing against a higher one, alone
    z = "0" if kind in ("int", "float") else ""
    if z != dtext and name != "compressor":      # (an unsupported compressor falls back to the default: not a value)
        add(z, None, None)
        add(None, z, None)
        add(vf, z, None)
        add(z, ve, None)
        if main:
            add(None, None, [main[0], z])
            add(vf, ve, [main[0], z])
            add(z, z, main)
            add(vf, None, [main[0], z])
            add(None, ve, [main[0], z])
    if kind in ("int", "float"):
        for v in ("10", "100"):
            add(v, None, None)
            add(None, v, None)
            if main:
                add(None, None, [main[0], v])
    # text that is not a number, alone / below a valid source / above a valid source
    for b in bad:
        add(b, None, None)
        add(None, b, None)
        add(b, ve, None)
        add(vf, b, None)
        if main:
            add(None, None, [main[0], b])
            add(b, None, main)
            add(None, b, main)
            add(vf, ve, [main[0], b])
    # glue characters in free-text values
    if kind == "str" and name not in SPECIAL_STR:
        for g in GLUE_FILE:
            add(g, None, None)
        for g in GLUE_ENV:
            add(None, g, None)
            add("f%40." + name, g, None)
        if main:
            add(None, None, ["%s=k=v" % main[0]])
            add(None, None, [main[0], "in side"])
    return cases


def section_value(name, other=False):
    mo = meta()[name]
    if mo["kind"] == "bool":
        v = not mo["default"]
        return str(v if not other else not v)
    if mo["kind"] == "int":
        return "9" if other else "7"
    if mo["kind"] == "float":
        return "9.5" if other else "7.5"
    return str_values(name)[1 if other else 0]


def gen_sections(name):
    """The option in the legacy section alone; in both sections (the current one wins), either order."""
    mo = meta()[name]
    if name == "conf" or mo["kind"] == "flag":
        return []
    cases = []
    d = {"kind": "prec", "opt": name, "file": section_value(name), "env": None, "cli": None, "section": LEGACY}
    if background(name):
        d["bg"] = background(name)
    cases.append(d)
    for first in (False, True):
        d = {"kind": "prec", "opt": name, "file": section_value(name), "env": None, "cli": None,
             "also": {"section": LEGACY, "value": section_value(name, True), "first": first}}
        if background(name):
            d["bg"] = background(name)
        cases.append(d)
    return cases


def gen_history(name):
    """A load that sets the option through one source, then a load without sources in the same process."""
    mo = meta()[name]
    if name == "conf":
        return []
    if mo["kind"] in ("bool", "flag"):
        f, e = str(not mo["default"]), str(not mo["default"]).lower()
    elif mo["kind"] == "int":
        f, e = "7", "5"
    elif mo["kind"] == "float":
        f, e = "7.5", "5"
    else:
        f, e, _ = str_values(name)
    firsts = [(f, None, None), (None, e, None)]
    forms = _cli_forms(name, mo, "3" if mo["kind"] == "int" else str_values(name)[2]) if mo["opt"] else []
    if forms:
        firsts.append((None, None, forms[-1]))
    out = []
    for (ff, ee, cc) in firsts:
        first = {"kind": "prec", "opt": name, "file": ff, "env": ee, "cli": cc}
        if background(name):
            first["bg"] = background(name)
        out.append({"kind": "hist", "first": first})
    return out


def gen_option(name, tier):
    main = gen_prec(name, tier)
    cases = list(main)
    # the same sources loaded twice into ONE object
    seen = 0
    for c in main:
        if c.get("noconf"):
            continue
        if tier == "thorough" and meta()[name]["kind"] in ("bool", "flag") and seen >= 40:
            break
        seen += 1
        cases.append(dict(c, reload=True))
    cases += gen_sections(name)
    cases += gen_history(name)
    return cases


# ---- part 1: histories in one process -------------------------------------------------------

def _snapshot(cfg):
    return dict((k, repr(v)) for k, v in vars(cfg).items())


def check_defaults(S, feats):
    """A load without any setting: every option has its built-in default (type-strictly)."""
    out = []
    tag, cfg = empty_load(S)
    if tag != "ok":
        return [("history:default-load-fails", "the default configuration loads", "%s: %s" % (tag, cfg), feats)], None
    for name, mo in sorted(meta().items()):
        if name == "conf":
            continue
        val = getattr(cfg, name, "<missing>")
        if not same(val, mo["default"]):
            out.append(("history:default-polluted", "%s=%r" % (name, mo["default"]), "%s=%r" % (name, val),
                        dict(feats, opt=name)))
    return out + structural(cfg, S), cfg


def check_hist(case, S):
    cfgmod = _cfg()
    first = case["first"]
    feats = {"first": first.get("opt") or first["kind"]}
    before = copy.deepcopy(cfgmod.DEFAULT_OPTS)
    if first["kind"] == "prec":
        tag, a = load(*build_prec(first, S))
    elif first["kind"] == "impl":
        tag, a = load(*build_impl(first, S))
    else:
        tag, a = load(*build_heavy(first, S))
    snap = _snapshot(a) if tag == "ok" else None
    out, b = check_defaults(S, feats)
    if cfgmod.DEFAULT_OPTS != before:
        changed = sorted(k for k in set(before) | set(cfgmod.DEFAULT_OPTS)
                         if before.get(k) != cfgmod.DEFAULT_OPTS.get(k))
        out.append(("history:option-table-mutated", "DEFAULT_OPTS unchanged by a load", changed[:5], feats))
    if snap is not None and _snapshot(a) != snap:
        now = _snapshot(a)
        changed = sorted(k for k in set(snap) | set(now) if snap.get(k) != now.get(k))
        out.append(("history:first-object-changed-by-second-load", "first configuration untouched", changed[:5],
                    feats))
    info = {"nontrivial": tag == "ok", "tag": tag, "outcome": "hist:%s:%s" % (first["kind"], tag)}
    return out, info


def build_heavy(case, S):
    """Every option at once through one source (non-default, acceptable values where there are any)."""
    conf = os.path.join(S, "c.conf")
    lines, env, argv = ["[%s]" % CURRENT], {}, ["--conf", conf]
    skip = ("conf", "analyze_container", "analyze_file", "analyze_image_id", "analyze_mountpoint", "use_atomic",
            "use_docker", "output_dir", "offline", "enable_schedule")
    for name, mo in sorted(meta().items()):
        if name in skip and not case.get("all"):
            continue
        if name == "conf":
            continue
        if mo["kind"] in ("bool", "flag"):
            v = str(not mo["default"])
        elif mo["kind"] == "int":
            v = "7"
        elif mo["kind"] == "float":
            v = "7.5"
        else:
            v = sub(str_values(name)[0], S)
        if case["src"] == "file":
            lines.append("%s=%s" % (name, v))
        elif case["src"] == "env":
            env[env_key(name)] = v.lower() if mo["kind"] in ("bool", "flag") else v
        elif mo["opt"]:
            argv += [mo["opt"][0]] if not takes_value(mo) else [mo["opt"][0], v]
    return conf, "\n".join(lines) + "\n", env, argv


# ---- part 1: unknown names ------------------------------------------------------------------

def gen_unknown():
    cases = []
    for n in UNKNOWN_NAMES:
        if n:
            cases.append({"kind": "unknown", "name": n, "src": "file"})
        cases.append({"kind": "unknown", "name": n, "src": "env"})
        cases.append({"kind": "unknown", "name": n, "src": "ctor"})
        cases.append({"kind": "unknown", "name": n, "src": "update"})
    for n in ("bogus", "load_all"):
        cases.append({"kind": "unknown", "name": n, "src": "cli"})
    for src in ("file", "env", "ctor", "update"):
        cases.append({"kind": "unknown", "name": "*", "src": src})
    return cases


def check_unknown(case, S):
    cfgmod = _cfg()
    conf = os.path.join(S, "c.conf")
    names = [n for n in UNKNOWN_NAMES if n] if case["name"] == "*" else [case["name"]]
    if case["src"] != "file" and case["name"] == "*":
        names = list(UNKNOWN_NAMES)
    lines, env, argv = ["[%s]" % CURRENT, "username=f.username"], {}, ["--conf", conf]
    src = case["src"]
    feats = {"src": src, "name": case["name"]}
    if src == "file":
        lines += ["%s=%s" % (n, MARK) for n in names]
    elif src == "env":
        env = dict((env_key(n), MARK) for n in names)
    elif src == "cli":
        argv += ["--" + names[0].replace("_", "-")]
    text = "\n".join(lines) + "\n"
    # the same load without the injected names: what the private bookkeeping of a configuration looks like
    btag, base = load(conf, "[%s]\nusername=f.username\n" % CURRENT, {}, ["--conf", conf])
    if src == "ctor":
        inj = dict((n, MARK) for n in names)
        inj["username"] = "f.username"
        tag, got = construct((inj,), {})
        btag, base = construct(({"username": "f.username"},), {})
    else:
        tag, got = load(conf, text, env, argv)
        if src == "update" and tag == "ok":
            upd = getattr(got, "_update_dict", None)       # not public: exercised only while it exists
            if upd is None:
                return [], {"nontrivial": False, "tag": "skipped", "outcome": "unknown:update:absent"}
            try:
                upd(dict((n, MARK) for n in names))
            except Exception as ex:
                tag, got = "crash", "%s: %s" % (type(ex).__name__, str(ex)[:200])
    info = {"nontrivial": True, "tag": tag, "outcome": "unknown:%s:%s" % (src, tag)}
    out = []
    if tag == "crash":
        return [("load:crash", "a configuration or a rejection", got, feats)], info
    if tag != "ok":
        if src != "cli":
            # the statement only says unknown names never become settings; refusing the load is also "never"
            info["nontrivial"] = False
        return out, info
    out += structural(got, S)
    inst = vars(got)
    for n in names:
        if n in inst and inst[n] == MARK:
            out.append(("unknown:becomes-setting", "%r ignored" % n, "%s=%r" % (n, inst[n]), dict(feats, hit=n)))
    for n in dir(cfgmod.InsightsConfig):
        cv = getattr(cfgmod.InsightsConfig, n)
        if callable(cv) and not n.startswith("__"):
            iv = getattr(got, n)
            if not callable(iv) or getattr(iv, "__func__", None) is not cv:
                out.append(("unknown:method-clobbered", "bound method %s" % n, repr(iv)[:80], dict(feats, hit=n)))
    if btag == "ok":
        for k, bv in vars(base).items():
            if k.startswith("_") and k in inst and type(inst[k]) is not type(bv):
                out.append(("unknown:private-attribute-overwritten", "%s stays a %s" % (k, type(bv).__name__),
                            repr(inst[k])[:60], dict(feats, hit=k)))
    if getattr(got, "username", None) != "f.username":
        out.append(("unknown:known-option-lost", "username='f.username' next to the unknown names",
                    repr(getattr(got, "username", None)), feats))
    return out, info


# names that look like a declared option: other letter case (exact-key channels only - file and environment fold the
# case), a prefix of one, one with / without a `no_` prefix, one with a suffix
NEAR_NAMES = ["off", "obfuscate_host", "no_up", "user", "no_register", "no_offline", "no_auto_update", "upload",
              "gpg_", "offline_", "retries2", "no_no_upload"]
CASE_NAMES = ["Offline", "OFFLINE", "Username", "No_Upload"]
CHANNELS = ("ctor", "file", "env", "update")


def _chan_ok(name, ch):
    if ch == "file" and not name:
        return False
    if name in CASE_NAMES and ch in ("file", "env"):
        return False                      # there it IS the declared option
    return True


def gen_unknown_multi():
    """The same unknown name in every set of two or more channels of ONE configuration object (constructor dict,
    file, environment, a later update), different names per channel, every single channel with load_all() twice;
    a declared option next to them in file and environment."""
    import itertools
    cases = []
    names = UNKNOWN_NAMES + NEAR_NAMES + CASE_NAMES
    for i, n in enumerate(names):
        for k in (1, 2, 3, 4):
            for chans in itertools.combinations(CHANNELS, k):
                if not all(_chan_ok(n, c) for c in chans):
                    continue
                for reload in (False, True):
                    if k == 1 and (not reload or chans[0] in ("update",)):
                        continue          # single channel, single load: the `unknown` cases above
                    cases.append({"kind": "unk2", "names": dict((c, [n]) for c in chans), "reload": reload})
        # different names in two channels (the neighbour in the list), both orders of the pair
        m = names[(i + 1) % len(names)]
        for a, b in itertools.permutations(CHANNELS, 2):
            if _chan_ok(n, a) and _chan_ok(m, b):
                cases.append({"kind": "unk2", "names": {a: [n], b: [m]}, "reload": False})
    every = dict((c, [n for n in names if _chan_ok(n, c)]) for c in CHANNELS)
    cases.append({"kind": "unk2", "names": every, "reload": False})
    cases.append({"kind": "unk2", "names": every, "reload": True})
    return cases


def judge_unknown(got, base, names, feats, S):
    """After loading, no injected unknown name is an attribute / listed as a setting; methods and bookkeeping intact."""
    cfgmod = _cfg()
    out = structural(got, S)
    inst = vars(got)
    legit = baseline_attrs(S)
    try:
        listing = str(got)
    except Exception as ex:
        listing = ""
        out.append(("load:crash", "str(config) works", "%s: %s" % (type(ex).__name__, str(ex)[:100]), feats))
    for n in names:
        v = inst.get(n)
        if n in inst and (n not in legit or (isinstance(v, str) and v.startswith(MARK))):
            out.append(("unknown:becomes-setting", "%r ignored" % n, "%s=%r" % (n, v), dict(feats, hit=n)))
        gv = getattr(got, n, None) if n.isidentifier() else None
        if isinstance(gv, str) and gv.startswith(MARK):
            out.append(("unknown:readable-as-attribute", "%r ignored" % n, "%s=%r" % (n, gv), dict(feats, hit=n)))
        if n and ("\n    %s: %s" % (n, MARK) in "\n" + listing or listing.startswith("    %s: %s" % (n, MARK))):
            out.append(("unknown:listed-as-setting", "%r not in str(config)" % n, "listed", dict(feats, hit=n)))
    for n in dir(cfgmod.InsightsConfig):
        cv = getattr(cfgmod.InsightsConfig, n)
        if callable(cv) and not n.startswith("__"):
            iv = getattr(got, n)
            if not callable(iv) or getattr(iv, "__func__", None) is not cv:
                out.append(("unknown:method-clobbered", "bound method %s" % n, repr(iv)[:80], dict(feats, hit=n)))
    if base is not None:
        for k, bv in vars(base).items():
            if k.startswith("_") and k in inst and type(inst[k]) is not type(bv):
                out.append(("unknown:private-attribute-overwritten", "%s stays a %s" % (k, type(bv).__name__),
                            repr(inst[k])[:60], dict(feats, hit=k)))
    return out


def check_unknown_multi(case, S):
    conf = os.path.join(S, "c.conf")
    nm = case["names"]
    chans = [c for c in CHANNELS if c in nm]
    feats = {"channels": "+".join(chans), "reload": bool(case.get("reload")),
             "same_name": len(set(tuple(v) for v in nm.values())) == 1}
    lines, env, argv = ["[%s]" % CURRENT, "username=f.username"], {}, ["--conf", conf]
    lines += ["%s=%s-file" % (n, MARK) for n in nm.get("file", [])]
    want_user = "f.username"
    if "env" in nm:
        env = dict((env_key(n), MARK + "-env") for n in nm["env"])
        env[env_key("username")] = "e.username"
        want_user = "e.username"
    ctor = dict((n, MARK + "-ctor") for n in nm["ctor"]) if "ctor" in nm else None
    btag, base = load(conf, "[%s]\nusername=f.username\n" % CURRENT, {}, ["--conf", conf])
    tag, got = load(conf, "\n".join(lines) + "\n", env, argv, times=2 if case.get("reload") else 1, ctor=ctor)
    if tag == "ok" and "update" in nm:
        upd = getattr(got, "_update_dict", None)       # not public: exercised only while it exists
        if upd is not None:
            try:
                for _ in range(2 if case.get("reload") else 1):
                    upd(dict((n, MARK + "-update") for n in nm["update"]))
            except Exception as ex:
                tag, got = "crash", "%s: %s" % (type(ex).__name__, str(ex)[:200])
    info = {"nontrivial": tag == "ok" and (len(chans) > 1 or bool(case.get("reload"))), "tag": tag,
            "outcome": "unk2:%s:%s:%s" % ("+".join(chans), bool(case.get("reload")), tag)}
    if tag == "crash":
        return [("load:crash", "a configuration or a rejection", got, feats)], info
    if tag != "ok":
        return [], info       # refusing the load is also "never a setting" (the unchanged tree never refuses)
    every = sorted(set(n for v in nm.values() for n in v))
    out = judge_unknown(got, base if btag == "ok" else None, every, feats, S)
    if not same(getattr(got, "username", None), want_user):
        out.append(("precedence:highest-source-wins", "username=%r next to the unknown names" % want_user,
                    repr(getattr(got, "username", None)), dict(feats, opt="username")))
    return out, info


# ---- part 1: legacy / negated spellings of an option, translated per source ------------------
# (alias, option, value the option gets when the alias is truthy). The only translation block of the loader is
# `no_gpg` -> gpg=False; a falsy alias says nothing about the option.
ALIASES = [("no_gpg", "gpg", False)]


def gen_alias():
    """The full product: per source (file, env) option in {unset, True, False} x alias in {unset, True, False}, command
    line in {unset, negating flag}; once and with load_all() twice. Contains the alias in source X with the option
    in source Y for every ordered pair of sources and both values."""
    cases = []
    tri = (None, True, False)
    for alias, opt, _ in ALIASES:
        if alias not in meta() or opt not in meta():
            continue
        has_flag = bool(meta()[opt]["opt"]) and not takes_value(meta()[opt])
        for fo in tri:
            for fa in tri:
                for eo in tri:
                    for ea in tri:
                        for cli in ((False, True) if has_flag else (False,)):
                            for reload in (False, True):
                                cases.append({"kind": "alias", "alias": alias, "opt": opt, "file": [fo, fa],
                                              "env": [eo, ea], "cli": cli, "reload": reload})
    return cases


def check_alias(case, S):
    alias, opt = case["alias"], case["opt"]
    implied = [v for a, o, v in ALIASES if a == alias and o == opt][0]
    mo = meta()[opt]
    conf = os.path.join(S, "c.conf")
    lines, env, argv = ["[%s]" % CURRENT], {}, ["--conf", conf]
    (fo, fa), (eo, ea) = case["file"], case["env"]
    for k, v in ((opt, fo), (alias, fa)):
        if v is not None:
            lines.append("%s=%s" % (k, v))
    for k, v in ((opt, eo), (alias, ea)):
        if v is not None:
            env[env_key(k)] = "true" if v else "false"
    cli_says = None
    if case["cli"]:
        argv.append(mo["opt"][0])
        cli_says = mo["action"] == "store_true"
    tag, got = load(conf, "\n".join(lines) + "\n", env, argv, times=2 if case.get("reload") else 1)
    # what each source says about the option, through either spelling (highest first)
    says = [("cli", [cli_says] if cli_says is not None else None)]
    for src, o, a in (("env", eo, ea), ("file", fo, fa)):
        if a:
            # the legacy spelling speaks; next to a contradicting modern spelling in the SAME source either may win
            says.append((src, [implied] if o in (None, implied) else [implied, o]))
        elif o is not None:
            says.append((src, [o]))
        else:
            says.append((src, None))
    winner, acc = "default", [mo["default"]]
    for src, v in says:
        if v is not None:
            winner, acc = src, v
            break
    want_alias = ea if ea is not None else fa if fa is not None else meta()[alias]["default"]
    speakers = [src for src, v in says if v is not None]
    feats = {"alias": alias, "opt": opt, "winner": winner, "speakers": "+".join(speakers),
             "reload": bool(case.get("reload"))}
    info = {"nontrivial": len(speakers) > 1 and len(set(repr(v) for _, v in says if v is not None)) > 1, "tag": tag,
            "outcome": "alias:%s:%s:%s" % ("+".join(speakers), winner, tag)}
    if tag != "ok":
        return [("load:crash" if tag == "crash" else "alias:load-refused", "a configuration",
                 "%s: %s" % (tag, got), feats)], info
    out = []
    if not any(same(getattr(got, opt), a) for a in acc):
        out.append(("precedence:alias-highest-source-wins",
                    "%s in %r (said by %s)" % (opt, acc, winner), "%s=%r" % (opt, getattr(got, opt)), feats))
    if not same(getattr(got, alias), want_alias):
        out.append(("precedence:highest-source-wins", "%s=%r" % (alias, want_alias),
                    "%s=%r" % (alias, getattr(got, alias)), dict(feats, opt=alias)))
    return out + structural(got, S), info


# ---- part 1: conf chains, duplicate keys, letter case (mostly lenient) ----------------------

def gen_misc():
    cases = [{"kind": "conf", "variant": v} for v in ("cli+env", "env-only", "chain-both", "chain-only")]
    for opt, val in (("username", "a"), ("offline", "True"), ("retries", "7")):
        cases.append({"kind": "variant", "what": "dup-file", "opt": opt, "val": val})
        cases.append({"kind": "variant", "what": "dup-file-same", "opt": opt, "val": val})
        for style in ("Title", "UPPER"):
            cases.append({"kind": "variant", "what": "case-file", "opt": opt, "val": val, "style": style})
        for style in ("lower", "Title"):
            cases.append({"kind": "variant", "what": "case-env", "opt": opt, "val": val, "style": style})
        cases.append({"kind": "variant", "what": "spaced-file", "opt": opt, "val": val})
        cases.append({"kind": "variant", "what": "colon-file", "opt": opt, "val": val})
    for src in ("file", "env", "cli"):
        cases.append({"kind": "hist", "first": {"kind": "heavy", "src": src}})
        cases.append({"kind": "hist", "first": {"kind": "heavy", "src": src, "all": True}})
    for s in ({"offline": "cli+", "register": "cli+"}, {"output_dir": "cli+", "keep_archive": "cli+"},
              {"obfuscate": "file+", "obfuscate_hostname": "file+", "auto_update": "file-"}):
        cases.append({"kind": "hist", "first": {"kind": "impl", "set": s}})
    return cases


def check_conf(case, S):
    """Which file is THE configuration file. Strict where the statement decides (CLI > env > file for `conf`
    itself; values of the file named on the command line), lenient about loading a second file."""
    main, other = os.path.join(S, "c.conf"), os.path.join(S, "other.conf")
    v = case["variant"]
    dflt_conf = meta()["conf"]["default"]
    feats = {"variant": v}
    otext = "[%s]\nusername=o.username\n" % CURRENT
    if v == "cli+env":
        r = load(main, "[%s]\nusername=m.username\n" % CURRENT, {"INSIGHTS_CONF": other}, ["--conf", main],
                 extra_files={other: otext})
        want_conf, want_user = [main], ["m.username"]
    elif v == "env-only":
        if os.path.exists(dflt_conf):
            return [], {"nontrivial": False, "tag": "skipped", "outcome": "skipped:default-conf-exists"}
        r = load(main, None, {"INSIGHTS_CONF": other}, [], extra_files={other: otext})
        want_conf, want_user = [other], [meta()["username"]["default"], "o.username"]
    elif v == "chain-both":
        r = load(main, "[%s]\nconf=%s\nusername=m.username\n" % (CURRENT, other), {}, ["--conf", main],
                 extra_files={other: otext})
        want_conf, want_user = [main], ["m.username"]
    else:
        r = load(main, "[%s]\nconf=%s\n" % (CURRENT, other), {}, ["--conf", main], extra_files={other: otext})
        want_conf, want_user = [main], [meta()["username"]["default"], "o.username"]
    tag, got = r
    info = {"nontrivial": True, "tag": tag, "outcome": "conf:%s:%s" % (v, tag)}
    if tag != "ok":
        return [("load:crash" if tag == "crash" else "conf:load-refused", "a configuration", "%s: %s" % (tag, got),
                 feats)], info
    out = []
    if not any(same(got.conf, w) for w in want_conf):
        out.append(("precedence:highest-source-wins", "conf in %r" % (want_conf,), repr(got.conf),
                    dict(feats, opt="conf")))
    if not any(same(got.username, w) for w in want_user):
        out.append(("conf:values-from-wrong-file", "username in %r" % (want_user,), repr(got.username), feats))
    return out + structural(got, S), info


def _style(name, style):
    return {"Title": name.title(), "UPPER": name.upper(), "lower": name.lower()}[style]


def check_variant(case, S):
    """Statement silent (duplicate keys, other letter case, blanks / ':' around the delimiter): the value is the
    given one or the default, nothing crashes, no new attribute appears."""
    conf = os.path.join(S, "c.conf")
    opt, val, what = case["opt"], case["val"], case["what"]
    mo = meta()[opt]
    given = model_file(mo, val)
    allowed = list(given) + [mo["default"]]
    lines, env = ["[%s]" % CURRENT], {}
    strict = False
    if what == "dup-file":
        other = {"username": "b", "offline": "False", "retries": "9"}[opt]
        lines += ["%s=%s" % (opt, val), "%s=%s" % (opt, other)]
        allowed += model_file(mo, other)
    elif what == "dup-file-same":
        lines += ["%s=%s" % (opt, val), "%s=%s" % (opt, val)]
    elif what == "case-file":
        lines += ["%s=%s" % (_style(opt, case["style"]), val)]
    elif what == "case-env":
        env = {"%s_%s" % (_style("insights", case["style"]), _style(opt, case["style"])): val.lower()}
    elif what == "spaced-file":
        lines += ["%s = %s  " % (opt, val)]
        strict = True                 # "key = value" is the form the shipped insights-client.conf documents
    elif what == "colon-file":
        lines += ["%s: %s" % (opt, val)]
    tag, got = load(conf, "\n".join(lines) + "\n", env, ["--conf", conf])
    feats = {"what": what, "opt": opt}
    info = {"nontrivial": True, "tag": tag, "outcome": "variant:%s:%s" % (what, tag)}
    if tag == "crash":
        return [("load:crash", "a configuration or ValueError", got, feats)], info
    if tag != "ok":
        if strict:
            return [("coercion:single-source", "%s=%r" % (opt, given[0]), "%s: %s" % (tag, got), feats)], info
        return [], info
    out = []
    v = getattr(got, opt)
    if strict:
        allowed = given
    if not any(same(v, a) for a in allowed):
        out.append(("coercion:single-source" if strict else "variant:foreign-value", "one of %r" % (allowed,),
                    repr(v), feats))
    return out + structural(got, S), info


# ---- part 2: implications and conflicts -----------------------------------------------------

ON_VALUES = {"output_dir": "{S}/od", "output_file": "{S}/of.tar.gz", "payload": "c16-payload.tar.gz",
             "content_type": "application/x-c16", "app": "malware-detection", "manifest": "c16-manifest.yaml",
             "ansible_host": "c16.ansible.example"}


def on_value(opt):
    return ON_VALUES.get(opt, True)


def place(opt, on, where):
    """Tag `<source><+|->` for one requested value under a placement rule, or None (= left unset)."""
    mo = meta()[opt]
    if where == "A":
        src = "cli" if mo["opt"] else "file"
    else:
        src = {"B": "env", "C": "file"}[where]
    if not isinstance(on_value(opt), bool):
        return src + "+" if on else None    # off = not given
    dflt_on = bool(mo["default"])
    if src == "cli":
        if mo["action"] == "store_false":
            return None if on else "cli-"   # --no-gpg
        return "cli+" if on else None
    if where == "A" and on == dflt_on:
        return None                         # already the default
    if src == "file" and mo["kind"] == "flag" and not on:
        return None                         # off = not given (see the finding about file text for these switches)
    return src + ("+" if on else "-")


def impl_case(opts, bits, where, reload=False):
    s = {}
    for k, opt in enumerate(opts):
        t = place(opt, bool(bits >> k & 1), where)
        if t:
            s[opt] = t
    c = {"kind": "impl", "set": s}
    if reload:
        c["reload"] = True
    return c


def mixed_case(idx):
    """idx in base 4 over MIXED: 0 = off (unset), 1 = file, 2 = env, 3 = cli. None when a uniform
    placement already covers the assignment (everything that is on sits on the command line)."""
    s = {}
    srcs = set()
    for opt in MIXED:
        d = idx % 4
        idx //= 4
        if d:
            src = ("file", "env", "cli")[d - 1]
            s[opt] = src + "+"
            srcs.add(src)
    if srcs <= {"cli"}:
        return None
    return {"kind": "impl", "set": s}


def ctor_case(opts, bits, via):
    kw = {}
    for k, opt in enumerate(opts):
        on = bool(bits >> k & 1)
        v = on_value(opt)
        if isinstance(v, bool):
            kw[opt] = on
        elif on:
            kw[opt] = v
    return {"kind": "ctor", "kw": kw, "via": via}


def build_impl(case, S):
    conf = os.path.join(S, "c.conf")
    lines, env, argv = ["[%s]" % CURRENT], {}, ["--conf", conf]
    for opt, tag in sorted(case["set"].items()):
        src, on = tag[:-1], tag.endswith("+")
        v = sub(on_value(opt), S) if on else False
        if src == "file":
            lines.append("%s=%s" % (opt, v))
        elif src == "env":
            env[env_key(opt)] = v if isinstance(v, str) else ("true" if v else "false")
        else:
            flag = meta()[opt]["opt"][0]
            argv += [flag] if isinstance(v, bool) else [flag, v]
    return conf, "\n".join(lines) + "\n", env, argv


def requested(case, S):
    """Requested value of every option part 2 looks at: what the one source that carries it says, else the default."""
    req = {}
    for opt in STATEMENT_OPTS + EXTRA_OPTS:
        if case["kind"] == "ctor":
            req[opt] = sub(case["kw"][opt], S) if opt in case["kw"] else meta()[opt]["default"]
            continue
        tag = case["set"].get(opt)
        if tag is None:
            req[opt] = meta()[opt]["default"]
        elif tag.endswith("+"):
            req[opt] = sub(on_value(opt), S)
        else:
            req[opt] = False
    return req


def judge(req, tag, got, feats, S):
    """The statement, evaluated on one load outcome."""
    out = []
    hit = [v for v in VETOED if req[v]]
    conflict = None
    if req["offline"] and hit:
        conflict = "offline+" + hit[0]
    elif req["obfuscate_hostname"] and not req["obfuscate"]:
        conflict = "obfuscate_hostname-without-obfuscate"
    if tag == "crash":
        return [("load:crash", "a configuration or ValueError", got, feats)], conflict
    if tag == "SystemExit":
        return [("load:unexpected-exit", "no exit: every command-line token is a declared option", got, feats)], conflict
    if tag == "ValueError":
        return out, conflict
    c = got
    if conflict:
        out.append(("conflict:not-rejected", "ValueError for %s" % conflict, "a configuration was returned",
                    dict(feats, conflict=conflict)))
    offline = bool(req["offline"] or c.offline)
    output = bool(req["output_dir"] or req["output_file"] or c.output_dir or c.output_file)
    if offline:
        if not c.no_upload:
            out.append(("offline:upload-enabled", "no_upload true", repr(c.no_upload), feats))
        if c.register:
            out.append(("offline:registration-kept", "register false", repr(c.register), feats))
        if c.auto_update:
            out.append(("offline:auto-update-kept", "auto_update false", repr(c.auto_update), feats))
        for v in VETOED:
            if getattr(c, v):
                out.append(("offline:combined-with-network-request", "%s false or ValueError" % v,
                            "%s=%r" % (v, getattr(c, v)), dict(feats, request=v)))
    if output:
        if not c.no_upload:
            out.append(("output:upload-enabled", "no_upload true", repr(c.no_upload), feats))
        if c.keep_archive:
            out.append(("output:archive-retained", "keep_archive false", repr(c.keep_archive), feats))
    if c.obfuscate_hostname and not c.obfuscate:
        out.append(("obfuscate:hostname-without-obfuscate", "obfuscate true", repr(c.obfuscate), feats))

    def differs(opt, why):
        out.append(("precedence:multi-option", "%s=%r (%s)" % (opt, req[opt], why), "%s=%r" % (opt, getattr(c, opt)),
                    dict(feats, opt=opt)))
    # options nothing rewrites take the requested value, type-strictly
    for opt in STRICT_SAME:
        if not same(getattr(c, opt), req[opt]):
            differs(opt, "never rewritten")
    # targets of the STATED implications take the requested value whenever the antecedent is absent
    if not offline and not output and c.no_upload is not req["no_upload"]:
        differs("no_upload", "neither offline nor an output target")
    if not offline:
        for opt in ("register", "auto_update"):
            if getattr(c, opt) is not req[opt]:
                differs(opt, "not offline")
    if req["keep_archive"] and not output and not c.keep_archive:
        differs("keep_archive", "no output target")
    if not (req["to_json"] and req["quiet"]) and bool(c.diagnosis) != bool(req["diagnosis"]):
        differs("diagnosis", "as requested")
    for opt in ("output_dir", "output_file"):
        if req[opt] and getattr(c, opt) != os.path.abspath(req[opt]):
            differs(opt, "full path of the given one")
        if not req[opt] and getattr(c, opt):
            differs(opt, "not given")
    return out + structural(c, S), conflict


def check_impl(case, S):
    req = requested(case, S)
    if case["kind"] == "ctor":
        kw = dict((k, sub(v, S)) for k, v in case["kw"].items())
        tag, got = construct((kw,), {}) if case["via"] == "dict" else construct((), kw)
        srcs = ["ctor-" + case["via"]]
    else:
        conf, text, env, argv = build_impl(case, S)
        tag, got = load(conf, text, env, argv, times=2 if case.get("reload") else 1)
        srcs = sorted(set(t[:-1] for t in case["set"].values()))
    feats = {"sources": "+".join(srcs)}
    if case.get("reload"):
        feats["reload"] = True
    out, conflict = judge(req, tag, got, feats, S)
    antecedent = req["offline"] or req["output_dir"] or req["output_file"] or req["obfuscate_hostname"]
    extra = any(req[o] != meta()[o]["default"] for o in EXTRA_OPTS)
    info = {"nontrivial": bool(antecedent), "tag": tag,
            "outcome": "impl:%s:%d%d%d%d%d:%s" % (tag, bool(req["offline"]),
                                                   bool(req["output_dir"] or req["output_file"]),
                                                   bool(req["obfuscate_hostname"]), bool(conflict), extra,
                                                   "+".join(srcs))}
    return out, info


# ---- dispatch, units, replay ----------------------------------------------------------------

def check_case(case, S):
    k = case["kind"]
    if k == "prec":
        if case.get("noconf") and os.path.exists(meta()["conf"]["default"]):
            return [], {"nontrivial": False, "tag": "skipped", "outcome": "skipped:default-conf-exists"}
        return check_prec(case, S)
    if k == "unknown":
        return check_unknown(case, S)
    if k == "unk2":
        return check_unknown_multi(case, S)
    if k == "alias":
        return check_alias(case, S)
    if k in ("impl", "ctor"):
        return check_impl(case, S)
    if k == "hist":
        return check_hist(case, S)
    if k == "conf":
        return check_conf(case, S)
    if k == "variant":
        return check_variant(case, S)
    raise ValueError(k)


def _range_units(part, n, per, **kw):
    return [dict(kw, part=part, lo=lo, hi=min(n, lo + per)) for lo in range(0, n, per)]


def units(tier, seed):
    names = sorted(meta())
    us = [{"part": "prec", "opts": ch} for ch in enumx.chunks(names, 41)]
    us.append({"part": "unknown"})
    us += [{"part": "unk2", "shard": i, "of": 6} for i in range(6)]
    us += [{"part": "alias", "shard": i, "of": 2} for i in range(2)]
    us.append({"part": "misc"})
    us += _range_units("impl", 1 << len(QC), 512, space="QC", where="A")
    us += _range_units("impl", 1 << len(QC), 512, space="QC", where="B")
    us += _range_units("impl", 1 << len(QB), 512, space="QB", where="A", reload=True)
    us += _range_units("ctor", 1 << len(QA), 2048, space="QA", via="kwargs")
    us += _range_units("ctor", 1 << len(QA), 2048, space="QA", via="dict")
    us += _range_units("ctor", 1 << len(QB), 2048, space="QB", via="kwargs")
    if tier == "quick":
        for space, where in (("QA", "A"), ("QA", "B"), ("QB", "A"), ("QB", "C")):
            us += _range_units("impl", 1 << len(SPACES[space]), 256, space=space, where=where)
    else:
        for where in ("A", "B", "C"):
            us += _range_units("impl", 1 << len(STATEMENT_OPTS), 1024, space="ALL", where=where)
        us += _range_units("mixed", 4 ** len(MIXED), 1024)
    return us


def unit_weight(u):
    if u["part"] in ("impl", "mixed"):
        return (u["hi"] - u["lo"]) * (2 if u.get("reload") else 1)
    if u["part"] == "ctor":
        return 50
    return 600


def unit_cases(unit, tier):
    part = unit["part"]
    if part == "prec":
        for name in unit["opts"]:
            for c in gen_option(name, tier):
                yield c
    elif part == "unknown":
        for c in gen_unknown():
            yield c
    elif part == "unk2":
        for c in enumx.shard(gen_unknown_multi(), unit["shard"], unit["of"]):
            yield c
    elif part == "alias":
        for c in enumx.shard(gen_alias(), unit["shard"], unit["of"]):
            yield c
    elif part == "misc":
        for c in gen_misc():
            yield c
    elif part == "impl":
        opts = SPACES[unit["space"]]
        only = None
        if unit["space"] == "QB" and unit["where"] == "A" and not unit.get("reload") and tier == "quick":
            only = [opts.index(o) for o in QB_ONLY]
        for bits in range(unit["lo"], unit["hi"]):
            if only is not None and not any(bits >> k & 1 for k in only):
                continue                    # already enumerated by the QA sub-product
            yield impl_case(opts, bits, unit["where"], bool(unit.get("reload")))
    elif part == "ctor":
        opts = SPACES[unit["space"]]
        for bits in range(unit["lo"], unit["hi"]):
            yield ctor_case(opts, bits, unit["via"])
    elif part == "mixed":
        for idx in range(unit["lo"], unit["hi"]):
            c = mixed_case(idx)
            if c is not None:
                yield c
    else:
        raise ValueError(part)


def run_unit(unit, tier):
    res = Result()
    with tmp.scratch("c16") as S:
        for case in unit_cases(unit, tier):
            vio, info = check_case(case, S)
            res.case(nontrivial=info["nontrivial"], outcome=info["outcome"],
                     sample=case if (info["nontrivial"] and res.evals % 97 == 0) else None)
            res.stat("loads_" + case["kind"])
            res.stat("outcome_" + info["tag"])
            if case.get("reload"):
                res.stat("loaded_twice_on_one_object")
            for v in vio:
                res.violation(v[0], case, v[1], v[2], v[3] if len(v) > 3 else {})
    res.maxi("options_enumerated", len(meta()))
    return res


def replay(case):
    with tmp.scratch("c16r") as S:
        vio, _ = check_case(case, S)
    return [{"clause": v[0], "case": case, "expected": v[1], "observed": v[2],
             "features": v[3] if len(v) > 3 else {}} for v in vio]


TECHNIQUE = ("bounded exhaustive enumeration of option assignments over the real sources (argv, INSIGHTS_* environment, "
             "a per-case configuration file) and the constructor, executed against the real loader; precedence against a "
             "per-source coercion reference, implications as invariants of every successful load")
LEVEL_TEXT = ("Every option of the live DEFAULT_OPTS is set through every subset of the sources that can carry it, with every "
              "documented boolean spelling, valid / zero / invalid numeric text, empty strings and glue characters, in "
              "either or both file sections, loaded once and twice into one object and followed by a default load in the "
              "same process; the attribute of the returned configuration is compared type-strictly with the "
              "highest-priority source; unknown and shadowing names are injected through file, environment, command line "
              "and constructor. The full on/off product of the 17 options named by the statement (2^17, three placements, "
              "plus 4^8 mixed placements of the offline group; quick: two 12-option sub-products), the same product through "
              "the constructor and a sub-product with the nine further options the implications rewrite are loaded; every "
              "successful load is checked against every implication and against the requested values, every stated "
              "conflict must raise. Exploration is the right level: the loader is a pure function of (argv, environ, "
              "file) and the space is a finite product.")
LEVEL_NOTE = ("Trusted: argparse / configparser of the standard library, the per-source coercion reference written from the "
              "loader's documentation. Part 1 varies one option at a time. Lenient where the statement is silent (listed in "
              "the assumptions). Undocumented environment boolean spellings are excluded.")
