"""C16 - client options resolve by precedence, and offline means no network.

Every case drives the real loader (`InsightsConfig().load_all()`) through its three real input
channels: `sys.argv`, `os.environ` (INSIGHTS_*) and a configuration file written for the case
under a scratch directory and passed with `--conf`.  All three are saved and restored per case.

Part 1 (precedence, coercion, unknown names) - for EVERY option of the live DEFAULT_OPTS:
  * every subset of the sources that can set the option (file / env / CLI) with pairwise
    distinct values (strings, numbers), and additionally with the winning source carrying the
    built-in default while the losing sources carry something else;
  * for booleans the full product {unset, true, false} x {unset, true, false} x {unset, flag};
  * every documented boolean spelling per source, numeric options incl. invalid text;
  * unknown names in file / env / CLI, among them names of methods and private attributes;
  * the same option given in the legacy `[redhat-access-insights]` section.
  Oracle: the attribute is the (coerced) value of the highest-priority source that set it
  (CLI > env > file > default), compared type-strictly; a ValueError is tolerated only when the
  winning value differs from the default (weak reading: an option may refuse a value, e.g.
  `--use-atomic`, but a source that lost must not influence the outcome).

Part 2 (implications / conflicts) - the on/off product of the 17 options the statement names,
each requested value written into one source.  Oracle: `load_all` raises ValueError, or the
returned configuration satisfies every implication of the statement; the statement's
"never combined with" pairs and host-name obfuscation without obfuscation always raise.
"""
import itertools
import os
import sys

from mc.result import Result
from mc import enumx
from harness import tmp

ID = "C16"
LEVEL = "exploration"
RULE = ("part 1: for every option of the live DEFAULT_OPTS every subset of the sources able to set it "
        "(file, INSIGHTS_* environment, command line) with pairwise distinct values, every documented boolean "
        "spelling, valid and invalid numeric text, unknown / shadowing names, legacy section; non-trivial = at "
        "least two sources carry different values for the option (a real precedence decision), a spelling that "
        "changes the default, an unknown name actually delivered to the loader. part 2: every on/off assignment of "
        "the statement's 17 options (quick: two 12-option sub-products) under each placement of the requested "
        "values into sources; non-trivial = an antecedent of the statement (offline, output dir/file, "
        "obfuscate_hostname) is requested")
ASSUMPTIONS = [
    "option metadata (names, defaults, CLI spellings, argparse action/type) is read from the live DEFAULT_OPTS; "
    "the coercion reference (configparser boolean spellings for bool-default options in the file, true/false in the "
    "environment, int/float for the three numeric options) is what the loader documents",
    "boolean spellings a source does not document (INSIGHTS_X=1/yes, bool text for the None-default flags in the file) "
    "are outside the alphabet or accepted either way",
    "only one option is varied at a time in part 1 (plus the minimal background another option demands, e.g. "
    "obfuscate for obfuscate_hostname); every option is placed in exactly one source in part 2",
    "the default configuration file /etc/insights-client/insights-client.conf is never read: --conf is always given "
    "(the two `conf` cases without --conf are skipped when that file exists)",
    "messages printed by the loader (argparse usage on SystemExit) are discarded, not inspected",
]

STATEMENT_OPTS = ["offline", "no_upload", "register", "auto_update", "keep_archive", "status", "test_connection",
                  "checkin", "unregister", "check_results", "diagnosis", "to_json", "quiet", "output_dir",
                  "output_file", "obfuscate", "obfuscate_hostname"]
VETOED = ["status", "test_connection", "checkin", "unregister", "check_results", "diagnosis", "to_json"]
# options of the 17 that no implication ever rewrites: their final value is the requested one
UNTOUCHED = ["offline", "status", "test_connection", "checkin", "unregister", "check_results", "quiet",
             "obfuscate", "obfuscate_hostname"]
# quick sub-products (12 options each); QA contains the whole offline group
QA = ["offline", "no_upload", "register", "auto_update"] + VETOED + ["quiet"]
QB = ["output_dir", "output_file", "keep_archive", "obfuscate", "obfuscate_hostname",
      "no_upload", "offline", "to_json", "quiet", "diagnosis", "register", "auto_update"]
QB_ONLY = QB[:5]
MIXED = ["offline"] + VETOED          # thorough: every option independently in file / env / CLI

BOUNDS = {"quick": {"options": "all of DEFAULT_OPTS", "implication_subproducts": ["QA(12) x {cli-or-file, env}",
                                                                                    "QB(12) x {cli-or-file, file}"],
                    "bool_spelling_product": False},
          "thorough": {"options": "all of DEFAULT_OPTS", "implication_product": "2^17 x {cli-or-file, env, file}",
                       "mixed_placement": "4^8 over offline + 7 vetoed requests", "bool_spelling_product": True}}
CAP_S = {"quick": 120, "thorough": 1500}

FILE_TRUE = ["1", "yes", "true", "on"]
FILE_FALSE = ["0", "no", "false", "off"]
FILE_SPELL = ["True", "False", "1", "0", "yes", "no", "true", "false", "on", "off", "TRUE", "FALSE"]
ENV_SPELL = ["true", "false", "True", "False", "TRUE", "FALSE"]
INT_BAD = ["abc", "", "1.5", "0x10"]
FLOAT_BAD = ["abc", "", "1,5"]
UNKNOWN_NAMES = ["bogus", "no_schedule", "offline_mode", "load_all", "_load_env", "_update_dict", "_imply_options",
                 "_validate_options", "_cli_opts", "_init_attrs", "_print_errors", "__class__", "__dict__",
                 "__getitem__", ""]
LEGACY = "redhat-access-insights"
MARK = "c16-injected"

INVALID = object()
_META = None


# ---- live option metadata -------------------------------------------------------------------

def _cfg():
    from insights.client import config
    return config


def meta():
    """kind / CLI form / default of every option, from the live DEFAULT_OPTS."""
    global _META
    if _META is None:
        m = {}
        for name, spec in _cfg().DEFAULT_OPTS.items():
            d = spec["default"]
            if type(d) is bool:
                kind = "bool"
            elif type(d) is int:
                kind = "int"
            elif type(d) is float:
                kind = "float"
            elif spec.get("action") in ("store_true", "store_false"):
                kind = "flag"                 # None-default switch: the file gives it as raw text
            else:
                kind = "str"
            m[name] = {"kind": kind, "default": d, "opt": list(spec.get("opt", [])), "action": spec.get("action"),
                       "nargs": spec.get("nargs"), "const": spec.get("const"), "type": spec.get("type")}
        _META = m
    return _META


def takes_value(mo):
    return mo["action"] not in ("store_true", "store_false")


def _apps():
    from insights.specs.manifests import manifests
    return sorted(k for k, v in manifests.items() if v)


def str_values(name):
    """Three pairwise distinct, non-default values (file, env, cli) that the option accepts."""
    if name == "compressor":
        return ["xz", "bz2", "none"]
    if name == "app":
        a = _apps()
        return a[:3] if len(a) >= 3 else ["f.app", "e.app", "c.app"]
    if name == "module":
        return ["insights.client.apps.f", "insights.client.apps.e", "insights.client.apps.c"]
    if name == "output_dir":
        return ["{S}/od_f", "{S}/od_e", "{S}/od_c"]
    if name == "output_file":
        return ["{S}/of_f.tar.gz", "{S}/of_e.tar.gz", "{S}/of_c.tar.gz"]
    # the file value carries a literal '%' (e.g. a URL-encoded password in a proxy URL): the file is documented as
    # raw key=value text, so an interpolating parser silently dropping the file is a precedence violation
    # (added after a seeded change showed the alphabet had no such character)
    return ["f%40." + name, "e." + name, "c." + name]


def background(name):
    """The minimal setting of ANOTHER option without which no value of `name` is accepted."""
    if name == "obfuscate_hostname":
        return {"env": {"INSIGHTS_OBFUSCATE": "true"}}
    if name == "payload":
        return {"argv": ["--content-type", "application/x-c16"]}
    return None


# ---- reference coercion (boring, per source) ------------------------------------------------

def model_file(mo, raw):
    k = mo["kind"]
    if k == "bool":
        s = raw.lower()
        return [True] if s in FILE_TRUE else [False] if s in FILE_FALSE else INVALID
    if k == "int":
        try:
            return [int(raw)]
        except ValueError:
            return INVALID
    if k == "float":
        try:
            return [float(raw)]
        except ValueError:
            return INVALID
    if k == "flag" and raw.lower() in FILE_TRUE + FILE_FALSE:
        # the file does not document a boolean spelling for these: raw text or the boolean, either is accepted
        return [raw, raw.lower() in FILE_TRUE]
    return [raw]


def model_env(mo, raw):
    k = mo["kind"]
    if raw.lower() == "true":
        return [True]
    if raw.lower() == "false":
        return [False]
    if k == "int":
        try:
            return [int(raw)]
        except ValueError:
            return INVALID
    if k == "float":
        try:
            return [float(raw)]
        except ValueError:
            return INVALID
    return [raw]


def model_cli(mo, tokens):
    if mo["action"] == "store_true":
        return [True]
    if mo["action"] == "store_false":
        return [False]
    if len(tokens) == 1:
        return [mo["const"]]              # nargs='?'
    if mo["type"] is int:
        try:
            return [int(tokens[1])]
        except ValueError:
            return INVALID
    return [tokens[1]]


def same(a, b):
    return type(a) is type(b) and a == b


# ---- driving the real loader ----------------------------------------------------------------

class _Sink(object):
    def write(self, s):
        return len(s)

    def flush(self):
        pass


def load(conf_path, file_text, env, argv):
    """One real load under controlled argv / environ / file. Returns (tag, config-or-message)."""
    cfgmod = _cfg()
    if file_text is not None:
        with open(conf_path, "w") as fh:
            fh.write(file_text)
    elif os.path.exists(conf_path):
        os.remove(conf_path)
    saved_argv = sys.argv
    saved_env = dict((k, v) for k, v in os.environ.items() if k.upper().startswith("INSIGHTS_"))
    saved_out, saved_err = sys.stdout, sys.stderr
    for k in saved_env:
        del os.environ[k]
    try:
        sys.argv = ["insights-client"] + list(argv)
        os.environ.update(env)
        sys.stdout = sys.stderr = _Sink()
        try:
            return "ok", cfgmod.InsightsConfig().load_all()
        except ValueError as ex:
            return "ValueError", str(ex)[:200]
        except SystemExit as ex:
            return "SystemExit", repr(ex.code)
        except Exception as ex:                      # anything else is a crash of the loader
            return "crash", "%s: %s" % (type(ex).__name__, str(ex)[:200])
    finally:
        sys.stdout, sys.stderr = saved_out, saved_err
        sys.argv = saved_argv
        for k in list(os.environ):
            if k.upper().startswith("INSIGHTS_"):
                del os.environ[k]
        os.environ.update(saved_env)


_BASE = None


def baseline_attrs():
    """Instance attributes a configuration legitimately has: what a fresh default instance has."""
    global _BASE
    if _BASE is None:
        cfgmod = _cfg()
        _BASE = set(vars(cfgmod.InsightsConfig())) | set(cfgmod.DEFAULT_OPTS) | {"_cli_opts"}
    return _BASE


def structural(cfg):
    """Checked after EVERY successful load: only declared options are settings; methods intact."""
    out = []
    extra = sorted(set(vars(cfg)) - baseline_attrs())
    if extra:
        out.append(("unknown:becomes-setting", "no attribute outside DEFAULT_OPTS", extra, {"names": extra[:4]}))
    shadow = sorted(k for k in vars(cfg) if k in dir(type(cfg)))
    if shadow:
        out.append(("unknown:shadows-class-attribute", "methods / class attributes intact", shadow,
                    {"names": shadow[:4]}))
    return out


def sub(s, S):
    return s.replace("{S}", S) if isinstance(s, str) else s


def env_key(name):
    return "INSIGHTS_%s" % name.upper()


# ---- part 1: one option, several sources ----------------------------------------------------

def build_prec(case, S):
    name = case["opt"]
    bg = case.get("bg") or {}
    conf = os.path.join(S, "c.conf")
    text = None
    if not case.get("noconf"):
        lines = ["[%s]" % case.get("section", "insights-client")]
        for k, v in sorted((bg.get("file") or {}).items()):
            lines.append("%s=%s" % (k, sub(v, S)))
        if case.get("file") is not None:
            lines.append("%s=%s" % (name, sub(case["file"], S)))
        text = "\n".join(lines) + "\n"
    env = dict((k, sub(v, S)) for k, v in (bg.get("env") or {}).items())
    if case.get("env") is not None:
        env[env_key(name)] = sub(case["env"], S)
    argv = []
    if name != "conf" and not case.get("noconf"):
        argv += ["--conf", conf]
    argv += [sub(t, S) for t in (bg.get("argv") or [])]
    if case.get("cli") is not None:
        argv += [sub(t, S) for t in case["cli"]]
    return conf, text, env, argv


def expected_prec(case, S):
    """(winner source, acceptable final values, per-source coerced values) from the reference coercion."""
    mo = meta()[case["opt"]]
    vals = {}
    if case.get("cli") is not None:
        vals["cli"] = model_cli(mo, [sub(t, S) for t in case["cli"]])
    if case.get("env") is not None:
        vals["env"] = model_env(mo, sub(case["env"], S))
    if case.get("file") is not None and not case.get("noconf"):
        vals["file"] = model_file(mo, sub(case["file"], S))
    for src in ("cli", "env", "file"):
        if src in vals:
            return src, vals[src], vals
    return "default", [mo["default"]], vals


def check_prec(case, S):
    name = case["opt"]
    mo = meta()[name]
    winner, acc, vals = expected_prec(case, S)
    srcs = "+".join(s for s in ("file", "env", "cli") if s in vals) or "none"
    feats = {"opt": name, "kind": mo["kind"], "sources": srcs, "winner": winner}
    if case.get("section"):
        feats = {"section": case["section"], "coerced": mo["kind"] in ("bool", "int", "float")}
    tag, got = load(*build_prec(case, S))
    out = []
    invalid = [s for s, v in vals.items() if v is INVALID]
    distinct = len(set(repr(v) for v in vals.values())) > 1
    info = {"nontrivial": distinct, "tag": tag, "outcome": "prec:%s:%s:%s:%s" % (mo["kind"], srcs, winner, tag)}
    clause_pfx = "file:legacy-section" if case.get("section") else None
    if clause_pfx:
        feats["error"] = got.split(":")[0] if tag == "crash" else "none"

    if tag == "crash":
        out.append((clause_pfx or "load:crash", "a configuration or ValueError", got, feats))
        return out, info
    if invalid:
        # Weak reading for text that is not a number: the load is refused, or the bad source is ignored;
        # the attribute never becomes text, and a valid higher-priority source still wins.
        info["outcome"] = "invalid:%s:%s:%s" % (mo["kind"], "+".join(sorted(invalid)), tag)
        info["nontrivial"] = True
        if tag == "SystemExit":
            if "cli" not in invalid:
                out.append(("load:unexpected-exit", "no exit: the command line is valid", got, feats))
            return out, info
        if tag == "ValueError":
            return out, info
        val = getattr(got, name)
        cands = [x for v in vals.values() if v is not INVALID for x in v] + [mo["default"]]
        if not any(same(val, c) for c in cands):
            out.append(("numeric:invalid-text-becomes-value", "one of %r or an error" % (cands,), repr(val), feats))
        elif winner not in invalid and not any(same(val, c) for c in acc):
            out.append(("precedence:highest-source-wins", acc, repr(val), feats))
        return out + structural(got), info
    if tag == "SystemExit":
        out.append(("load:unexpected-exit", "no exit: every command-line token is a declared option", got, feats))
        return out, info
    if name in ("output_dir", "output_file"):
        acc = [os.path.abspath(a) if isinstance(a, str) else a for a in acc]
    if tag == "ValueError":
        # An option may refuse a value (unsupported switches, unknown app ...); but when the winning value IS the
        # default, the sources that lost must not matter and the default configuration loads.
        if any(same(a, mo["default"]) for a in acc):
            out.append((clause_pfx or "precedence:losing-source-rejected",
                        "load succeeds with %s=%r" % (name, mo["default"]), "ValueError: " + got, feats))
        return out, info
    val = getattr(got, name, "<missing>")
    if not any(same(val, a) for a in acc):
        clause = clause_pfx or ("coercion:single-source" if len(vals) == 1 and srcs != "none"
                                else "precedence:highest-source-wins")
        out.append((clause, {"winner": winner, "acceptable": [repr(a) for a in acc]}, repr(val), feats))
    if not same(val, mo["default"]):
        info["nontrivial"] = info["nontrivial"] or len(vals) == 1
    return out + structural(got), info


def _cli_forms(name, mo, value=None):
    """Every command-line spelling of one option (all flag names; nargs='?' with and without a value)."""
    forms = []
    for flag in mo["opt"]:
        if not takes_value(mo):
            forms.append([flag])
        elif mo["nargs"] == "?":
            forms.append([flag])
            forms.append([flag, value or ("c." + name)])
        else:
            forms.append([flag, value])
    return forms


def gen_prec(name, tier):
    """All part-1 cases of one option (no duplicates)."""
    mo = meta()[name]
    kind = mo["kind"]
    bg = background(name)
    cases = []

    def add(f, e, c, **kw):
        d = {"kind": "prec", "opt": name, "file": f, "env": e, "cli": c}
        if bg:
            d["bg"] = bg
        d.update(kw)
        cases.append(d)

    if name == "conf":
        P = "{S}/c.conf"
        for flag in mo["opt"]:
            for f in (None, "f.conf"):
                for e in (None, "e.conf"):
                    add(f, e, [flag, P])
        add(None, "e.conf", None, noconf=True)
        add(None, None, None, noconf=True)
        return cases

    has_cli = bool(mo["opt"])
    if kind in ("bool", "flag"):
        fs = FILE_SPELL if tier == "thorough" else ["True", "False"]
        es = ENV_SPELL if tier == "thorough" else ["true", "false"]
        forms = _cli_forms(name, mo) if has_cli else []
        for f in [None] + fs:
            for e in [None] + es:
                add(f, e, None)
                for c in forms[:1]:
                    add(f, e, c)
        # remaining CLI spellings (alternative flag names, '?' with a value) against canonical file/env values
        for c in forms[1:]:
            for f in (None, "True", "False"):
                for e in (None, "true", "false"):
                    add(f, e, c)
        if tier != "thorough":
            for f in FILE_SPELL[2:]:
                add(f, None, None)
            for e in ENV_SPELL[2:]:
                add(None, e, None)
        return cases

    if kind == "int":
        vf, ve, vc, bad = "7", "5", "3", INT_BAD
    elif kind == "float":
        vf, ve, vc, bad = "7.5", "5", "3.25", FLOAT_BAD
    else:
        vf, ve, vc = str_values(name)
        bad = []
    forms = _cli_forms(name, mo, vc) if has_cli else []
    main = forms[0] if forms else None
    dflt = mo["default"]
    dtext = None
    if isinstance(dflt, str) or kind in ("int", "float"):
        dtext = str(dflt)
    for f in (None, vf):
        for e in (None, ve):
            for c in ([None, main] if main else [None]):
                add(f, e, c)
    for c in forms[1:]:
        for f in (None, vf):
            for e in (None, ve):
                add(f, e, c)
    # the winning source carries the built-in default, the losing ones something else
    if dtext is not None:
        if main and dtext != "":
            dform = [main[0], dtext]
            for f in (None, vf):
                for e in (None, ve):
                    add(f, e, dform)
        for f in (None, vf):
            add(f, dtext, None)
        add(dtext, None, None)
    # text that is not a number, alone / below a valid source / above a valid source
    for b in bad:
        add(b, None, None)
        add(None, b, None)
        add(b, ve, None)
        add(vf, b, None)
        if main:
            add(None, None, [main[0], b])
            add(b, None, main)
            add(None, b, main)
            add(vf, ve, [main[0], b])
    return cases


def gen_legacy(name):
    mo = meta()[name]
    if name == "conf":
        return []
    if mo["kind"] in ("bool", "flag"):
        raw = "False" if mo["default"] is True else "True"
    elif mo["kind"] == "int":
        raw = "7"
    elif mo["kind"] == "float":
        raw = "7.5"
    else:
        raw = str_values(name)[0]
    d = {"kind": "prec", "opt": name, "file": raw, "env": None, "cli": None, "section": LEGACY}
    if background(name):
        d["bg"] = background(name)
    return [d]


# ---- part 1: unknown names ------------------------------------------------------------------

def gen_unknown():
    cases = []
    for n in UNKNOWN_NAMES:
        if n:
            cases.append({"kind": "unknown", "name": n, "src": "file"})
        cases.append({"kind": "unknown", "name": n, "src": "env"})
    for n in ("bogus", "load_all"):
        cases.append({"kind": "unknown", "name": n, "src": "cli"})
    cases.append({"kind": "unknown", "name": "*", "src": "file"})
    cases.append({"kind": "unknown", "name": "*", "src": "env"})
    return cases


def check_unknown(case, S):
    cfgmod = _cfg()
    conf = os.path.join(S, "c.conf")
    names = [n for n in UNKNOWN_NAMES if n] if case["name"] == "*" else [case["name"]]
    if case["src"] == "env" and case["name"] == "*":
        names = list(UNKNOWN_NAMES)
    lines, env, argv = ["[insights-client]", "username=f.username"], {}, ["--conf", conf]
    if case["src"] == "file":
        lines += ["%s=%s" % (n, MARK) for n in names]
    elif case["src"] == "env":
        env = dict((env_key(n), MARK) for n in names)
    else:
        argv += ["--" + names[0].replace("_", "-")]
    tag, got = load(conf, "\n".join(lines) + "\n", env, argv)
    feats = {"src": case["src"], "name": case["name"]}
    info = {"nontrivial": True, "tag": tag, "outcome": "unknown:%s:%s" % (case["src"], tag)}
    out = []
    if tag == "crash":
        return [("load:crash", "a configuration or a rejection", got, feats)], info
    if tag != "ok":
        if case["src"] != "cli":
            # the statement only says unknown names never become settings; refusing the load is also "never"
            info["nontrivial"] = False
        return out, info
    out += structural(got)
    inst = vars(got)
    for n in names:
        if n in inst and inst[n] == MARK:
            out.append(("unknown:becomes-setting", "%r ignored" % n, "%s=%r" % (n, inst[n]), dict(feats, hit=n)))
    for n in dir(cfgmod.InsightsConfig):
        cv = getattr(cfgmod.InsightsConfig, n)
        if callable(cv) and not n.startswith("__"):
            iv = getattr(got, n)
            if not callable(iv) or getattr(iv, "__func__", None) is not cv:
                out.append(("unknown:method-clobbered", "bound method %s" % n, repr(iv)[:80], dict(feats, hit=n)))
    if got._print_errors is not False or not isinstance(got._init_attrs, list) or not isinstance(got._cli_opts, dict):
        out.append(("unknown:private-attribute-overwritten", "_print_errors False, _init_attrs list, _cli_opts dict",
                    repr((got._print_errors, type(got._init_attrs).__name__, type(got._cli_opts).__name__)), feats))
    return out, info


# ---- part 2: implications and conflicts -----------------------------------------------------

def on_value(opt):
    if opt == "output_dir":
        return "{S}/od"
    if opt == "output_file":
        return "{S}/of.tar.gz"
    return True


def place(opt, on, where):
    """Tag `<source><+|->` for one requested value under a placement rule, or None (= left unset)."""
    mo = meta()[opt]
    if where == "A":
        src = "cli" if mo["opt"] else "file"
    else:
        src = {"B": "env", "C": "file"}.get(where, where)
    dflt_on = bool(mo["default"])
    if on:
        if where == "A" and dflt_on:
            return None                     # default already on
        return src + "+"
    if src == "cli":
        return None if not dflt_on else "file-"
    if opt in ("output_dir", "output_file"):
        return None                         # off = not given
    if src == "file" and mo["kind"] == "flag":
        return None                         # no documented way to spell off in the file
    if where == "A" and not dflt_on:
        return None
    return src + "-"


def impl_case(opts, bits, where):
    s = {}
    for k, opt in enumerate(opts):
        t = place(opt, bool(bits >> k & 1), where)
        if t:
            s[opt] = t
    return {"kind": "impl", "set": s}


def mixed_case(idx):
    """idx in base 4 over MIXED: 0 = off (unset), 1 = file, 2 = env, 3 = cli. None when a uniform
    placement already covers the assignment (everything that is on sits on the command line)."""
    s = {}
    srcs = set()
    for opt in MIXED:
        d = idx % 4
        idx //= 4
        if d:
            src = ("file", "env", "cli")[d - 1]
            s[opt] = src + "+"
            srcs.add(src)
    if srcs <= {"cli"}:
        return None
    return {"kind": "impl", "set": s}


def build_impl(case, S):
    conf = os.path.join(S, "c.conf")
    lines, env, argv = ["[insights-client]"], {}, ["--conf", conf]
    for opt, tag in sorted(case["set"].items()):
        src, on = tag[:-1], tag.endswith("+")
        v = sub(on_value(opt), S) if on else False
        if src == "file":
            lines.append("%s=%s" % (opt, v))
        elif src == "env":
            env[env_key(opt)] = v if isinstance(v, str) else ("true" if v else "false")
        else:
            flag = meta()[opt]["opt"][0]
            argv += [flag] if v is True else [flag, v]
    return conf, "\n".join(lines) + "\n", env, argv


def requested(case):
    req = {}
    for opt in STATEMENT_OPTS:
        tag = case["set"].get(opt)
        req[opt] = tag.endswith("+") if tag else bool(meta()[opt]["default"])
    return req


def check_impl(case, S):
    req = requested(case)
    tag, got = load(*build_impl(case, S))
    out = []
    srcs = sorted(set(t[:-1] for t in case["set"].values()))
    hit = [v for v in VETOED if req[v]]
    conflict = None
    if req["offline"] and hit:
        conflict = "offline+" + hit[0]
    elif req["obfuscate_hostname"] and not req["obfuscate"]:
        conflict = "obfuscate_hostname-without-obfuscate"
    antecedent = req["offline"] or req["output_dir"] or req["output_file"] or req["obfuscate_hostname"]
    info = {"nontrivial": bool(antecedent), "tag": tag,
            "outcome": "impl:%s:%d%d%d%d:%s" % (tag, req["offline"], bool(req["output_dir"] or req["output_file"]),
                                                req["obfuscate_hostname"], bool(conflict), "+".join(srcs))}
    feats = {"sources": "+".join(srcs)}
    if tag == "crash":
        return [("load:crash", "a configuration or ValueError", got, feats)], info
    if tag == "SystemExit":
        return [("load:unexpected-exit", "no exit: every command-line token is a declared option", got, feats)], info
    if tag == "ValueError":
        return out, info
    c = got
    if conflict:
        out.append(("conflict:not-rejected", "ValueError for %s" % conflict, "load_all returned a configuration",
                    dict(feats, conflict=conflict)))
    if req["offline"] or c.offline:
        if not c.no_upload:
            out.append(("offline:upload-enabled", "no_upload true", repr(c.no_upload), feats))
        if c.register:
            out.append(("offline:registration-kept", "register false", repr(c.register), feats))
        if c.auto_update:
            out.append(("offline:auto-update-kept", "auto_update false", repr(c.auto_update), feats))
        for v in VETOED:
            if getattr(c, v):
                out.append(("offline:combined-with-network-request", "%s false or ValueError" % v,
                            "%s=%r" % (v, getattr(c, v)), dict(feats, request=v)))
    if req["output_dir"] or req["output_file"] or c.output_dir or c.output_file:
        if not c.no_upload:
            out.append(("output:upload-enabled", "no_upload true", repr(c.no_upload), feats))
        if c.keep_archive:
            out.append(("output:archive-retained", "keep_archive false", repr(c.keep_archive), feats))
    if c.obfuscate_hostname and not c.obfuscate:
        out.append(("obfuscate:hostname-without-obfuscate", "obfuscate true", repr(c.obfuscate), feats))
    for opt in UNTOUCHED:
        if getattr(c, opt) is not req[opt]:
            out.append(("precedence:multi-option", "%s=%r" % (opt, req[opt]), "%s=%r" % (opt, getattr(c, opt)),
                        dict(feats, opt=opt)))
    for opt in ("output_dir", "output_file"):
        if req[opt] and getattr(c, opt) != os.path.abspath(sub(on_value(opt), S)):
            out.append(("precedence:multi-option", "%s given" % opt, "%s=%r" % (opt, getattr(c, opt)),
                        dict(feats, opt=opt)))
    return out + structural(c), info


# ---- dispatch, units, replay ----------------------------------------------------------------

def check_case(case, S):
    k = case["kind"]
    if k == "prec":
        if case.get("noconf") and os.path.exists(_cfg().constants.default_conf_file):
            return [], {"nontrivial": False, "tag": "skipped", "outcome": "skipped:default-conf-exists"}
        return check_prec(case, S)
    if k == "unknown":
        return check_unknown(case, S)
    if k == "impl":
        return check_impl(case, S)
    raise ValueError(k)


def _impl_units(space, opts, where, per):
    n = 1 << len(opts)
    return [{"part": "impl", "space": space, "where": where, "lo": lo, "hi": min(n, lo + per)}
            for lo in range(0, n, per)]


def units(tier, seed):
    names = sorted(meta())
    us = [{"part": "prec", "opts": ch} for ch in enumx.chunks(names, 27 if tier == "quick" else 41)]
    us.append({"part": "unknown"})
    us.append({"part": "legacy"})
    if tier == "quick":
        for space, where in (("QA", "A"), ("QA", "B"), ("QB", "A"), ("QB", "C")):
            us += _impl_units(space, QA if space == "QA" else QB, where, 256)
    else:
        for where in ("A", "B", "C"):
            us += _impl_units("ALL", STATEMENT_OPTS, where, 1024)
        us += [{"part": "mixed", "lo": lo, "hi": lo + 1024} for lo in range(0, 4 ** len(MIXED), 1024)]
    return us


def unit_weight(u):
    if u["part"] in ("impl", "mixed"):
        return u["hi"] - u["lo"]
    return 300


def unit_cases(unit, tier):
    part = unit["part"]
    if part == "prec":
        for name in unit["opts"]:
            for c in gen_prec(name, tier):
                yield c
    elif part == "unknown":
        for c in gen_unknown():
            yield c
    elif part == "legacy":
        for name in sorted(meta()):
            for c in gen_legacy(name):
                yield c
    elif part == "impl":
        opts = {"QA": QA, "QB": QB, "ALL": STATEMENT_OPTS}[unit["space"]]
        only = [opts.index(o) for o in QB_ONLY] if unit["space"] == "QB" else None
        for bits in range(unit["lo"], unit["hi"]):
            if only is not None and unit["where"] == "A" and not any(bits >> k & 1 for k in only):
                continue                    # already enumerated by the QA sub-product
            yield impl_case(opts, bits, unit["where"])
    elif part == "mixed":
        for idx in range(unit["lo"], unit["hi"]):
            c = mixed_case(idx)
            if c is not None:
                yield c
    else:
        raise ValueError(part)


def run_unit(unit, tier):
    res = Result()
    with tmp.scratch("c16") as S:
        for case in unit_cases(unit, tier):
            vio, info = check_case(case, S)
            res.case(nontrivial=info["nontrivial"], outcome=info["outcome"],
                     sample=case if (info["nontrivial"] and res.evals % 97 == 0) else None)
            res.stat("loads_" + case["kind"])
            res.stat("outcome_" + info["tag"])
            for v in vio:
                res.violation(v[0], case, v[1], v[2], v[3] if len(v) > 3 else {})
    res.maxi("options_enumerated", len(meta()))
    return res


def replay(case):
    with tmp.scratch("c16r") as S:
        vio, _ = check_case(case, S)
    return [{"clause": v[0], "case": case, "expected": v[1], "observed": v[2],
             "features": v[3] if len(v) > 3 else {}} for v in vio]


TECHNIQUE = ("bounded exhaustive enumeration of option assignments over the real sources (argv, INSIGHTS_* environment, "
             "a per-case configuration file) executed against the real loader; precedence against a per-source coercion "
             "reference, implications as invariants of every successful load")
LEVEL_TEXT = ("Every option of the live DEFAULT_OPTS is set through every subset of the sources that can carry it, with every "
              "documented boolean spelling and valid / invalid numeric text, and the attribute of the returned configuration "
              "is compared type-strictly with the highest-priority source; unknown and shadowing names are injected through "
              "file, environment and command line. The full on/off product of the 17 options named by the statement (2^17, "
              "three placements, plus 4^8 mixed placements of the offline group; quick: two 12-option sub-products) is loaded "
              "and every successful load is checked against every implication, every stated conflict must raise. "
              "Exploration is the right level: the loader is a pure function of (argv, environ, file) and the space is a "
              "finite product.")
LEVEL_NOTE = ("Trusted: argparse / configparser of the standard library, the per-source coercion reference written from the "
              "loader's documentation. Part 1 varies one option at a time; interactions of more than the 17 named options "
              "(payload, app, compliance ...) are not enumerated in part 2. Undocumented boolean spellings are excluded.")
