"""C15 - shared text-format helpers recover the data that was rendered.

Render -> parse round trips, every sub-space enumerated completely against the real helpers:

  fixed      parse_fixed_table          headers x gaps x cells x rows x (indent, rstrip, junk+heading_ignore,
                                        footer+trailing_ignore, header_substitute)
  delim      parse_delimited_table      delim x header_delim x max_splits x strip/pad x raw_line_key x rows x env
  kv         split_kv_pairs             documents over 13 sharp line symbols (incl. empty values) x every option combination
  kv-filter  split_kv_pairs             pair / inline comment / whole-line comment with the filter word (or the separator) in the
                                        pair only, the comment only, both, neither x filters incl. the comment character itself
  active     get_active_lines           documents over 9 line symbols x comment_char
  unsplit    unsplit_lines              logical lines split into pieces x cont_char x keep_cont_char
  optlist    optlist_to_dict            option sequences x opt_sep x kv_sep x strip_quotes
  ini-*      IniConfigFile              structure / values / fillers / section names / repeated headers, against
                                        ref/c15_ini_model.py (cross-checked against a second formulation and configparser)
  search-*   keyword_search             row sets x kwargs sets against a conjunction-of-predicates reference

Readings (audited against mc/LESSONS.md; the statement decides wherever it speaks):
  * decided by the statement: an all-empty table row renders as a blank line and "blank lines never contribute
    data" -> not expected back; cells come back in header order inside a row; with ordered=True a re-assigned key
    keeps its FIRST position (a later duplicate "overrides", i.e. takes the place of, the earlier one); an indented
    "#"/";" line is a commented line; a `parent` object that is reused for rows with the SAME keys does not change
    what keyword_search returns;
  * documented modes outside the statement (counted, not judged): split_kv_pairs(comment_char=None,
    use_partition=True) on a document with blank lines - the docstring ties the removal of blank lines to a comment
    character being given, and use_partition=True says "the line will be parsed regardless"; a `parent` reused for
    rows with OTHER keys - the parent is documented as the cache holder of one row set;
  * outside the quantifier (not enumerated): duplicate header names (a dict cannot return both cells), cells wider
    than their column / right-aligned columns / quoted delimiters (the helpers document left-justified, unquoted
    formats), brackets in section names (the grammar rejects them), bare option names without allow_no_value,
    string matchers on non-string operands ("parsed rows" hold strings; None never matches), row keys that
    collide after normalisation (the condition is ambiguous), empty kwargs, empty option-list items;
  * statement silent, leniency kept: INI continuation pieces may be joined by any white space (only for options
    that have a continuation line); inline "#" inside INI values is not enumerated; with row_keys_change=False
    and a later row that has a key the first row lacks (the caller broke the documented promise) both the
    documented and the literal answer are accepted.
"""
import itertools

from mc.result import Result
from ref import c15_ini_model as M
from ref import c15_text_models as T

ID = "C15"
LEVEL = "exploration"
RULE = ("every document of each stated sub-space is rendered from a structured descriptor and parsed by the real helper; "
        "a case is non-trivial when the parse has something to get wrong: a table with >= 2 columns and >= 1 data row, "
        "a key/value or line document in which some line contributes nothing or overrides another, an INI document with "
        "a DEFAULT block / duplicate option / filler / continuation, a search whose answer is a non-empty proper subset")
ASSUMPTIONS = ["the reference models in ref/c15_ini_model.py and ref/c15_text_models.py encode the statement; the INI model is "
               "cross-checked on every enumerated document against a second formulation and against stdlib configparser "
               "(non-strict) wherever configparser accepts the text",
               "bounded: no counterexample within the stated alphabets and sizes, nothing more"]
BOUNDS = {
    "quick": {"ini_full_option_structure_for": "sections (s1, S 2) and single sections; other name pairs <= 1 option per block",
              "fixed_cols": 4, "fixed_full_cols": 2, "fixed_rows": 2, "fixed_env_rows": 1, "delim_cols": 3, "delim_full_cols": 2,
              "delim_rows": 2,
              "kv_lines": 4, "kv_filter_lines": 3, "active_lines": 4, "unsplit_logical": 2, "optlist_opts": 3,
              "ini_sections": 2, "ini_opts_per_block": 2, "ini_default_opts": 2, "ini_fillers": 1,
              "search_rows": 2, "search_conditions": 2},
    "thorough": {"fixed_cols": 4, "fixed_full_cols": 3, "fixed_rows": 2, "fixed_env_rows": 2, "delim_cols": 3,
                 "delim_full_cols": 3, "delim_rows": 2,
                 "kv_lines": 5, "kv_filter_lines": 4, "active_lines": 5, "unsplit_logical": 3, "optlist_opts": 3,
                 "ini_sections": 2, "ini_opts_per_block": 2, "ini_default_opts": 3, "ini_fillers": 2,
                 "search_rows": 3, "search_conditions": 2},
}
CAP_S = {"quick": 150, "thorough": 3000}     # wall guards for a heavily shared machine (quick ~105 CPU-s, thorough ~2400 CPU-s)


_IMP = None


def _imp():
    global _IMP
    if _IMP is None:
        _IMP = _imp_once()
    return _IMP


def _imp_once():
    from insights.parsers import (get_active_lines, split_kv_pairs, unsplit_lines, optlist_to_dict,
                                  parse_fixed_table, parse_delimited_table, keyword_search)
    from insights.core import IniConfigFile

    class NoValueIni(IniConfigFile):
        """What the class docstring tells subclasses to do to enable keys without values."""
        def parse_content(self, content):
            super(NoValueIni, self).parse_content(content, allow_no_value=True)
    return (get_active_lines, split_kv_pairs, unsplit_lines, optlist_to_dict, parse_fixed_table,
            parse_delimited_table, keyword_search, IniConfigFile, NoValueIni)


# =====================================================================================================
# per-case checkers: check_<kind>(case) -> (violations [(clause, expected, observed, features)], nontrivial, outcome)
# =====================================================================================================

def _call(f, *a, **k):
    try:
        return f(*a, **k)
    except Exception as ex:
        return "raised %s" % type(ex).__name__


def check_fixed(case):
    parse_fixed_table = _imp()[4]
    lines = T.fixed_render(case)
    exp = T.fixed_expected(case)
    got = _call(parse_fixed_table, list(lines), **T.fixed_kwargs(case))
    # same arguments again in the same process (<= 1 row cases): the answer must not depend on the first call
    again = _call(parse_fixed_table, list(lines), **T.fixed_kwargs(case)) if len(case["rows"]) <= 1 else got
    vio = []
    if got != exp:                     # cells are strings: == is exact here
        vio.append(("fixed:rows-equal-rendered-cells", exp, got,
                    {"later_header_substring_of_earlier": T.fixed_header_ambiguity(case)}))
    elif any(list(r) != T.keys_of(case) for r in got):
        vio.append(("fixed:cells-in-header-order", T.keys_of(case), [list(r) for r in got], {}))
    if again != got:
        vio.append(("fixed:second-identical-call-differs", got, again, {}))
    return vio, (len(case["headers"]) >= 2 and bool(exp)), "fixed:c%d:r%d:%s" % (len(case["headers"]), len(exp), not vio)


def check_delim(case):
    parse_delimited_table = _imp()[5]
    lines = T.delim_render(case)
    exp = T.delim_expected(case)
    got = _call(parse_delimited_table, list(lines), **T.delim_kwargs(case))
    again = _call(parse_delimited_table, list(lines), **T.delim_kwargs(case)) if len(case["rows"]) <= 1 else got
    vio = []
    if got != exp:
        vio.append(("delimited:rows-equal-rendered-cells", exp, got, {}))
    else:
        raw = case.get("raw_line_key")
        ks = T.keys_of(case)
        order = [[k for k in r if k != raw] for r in got]
        if any(o != ks[:len(o)] for o in order):
            vio.append(("delimited:cells-in-header-order", ks, order, {}))
    if again != got:
        vio.append(("delimited:second-identical-call-differs", got, again, {}))
    return vio, bool(exp), "delim:c%d:r%d:%s" % (len(case["headers"]), len(exp), not vio)


def check_kv(case):
    split_kv_pairs = _imp()[1]
    exp, order = T.kv_ref(case)
    if case["comment_char"] is None and case["use_partition"] and any(not l.strip() for l in case["lines"]):
        return [], False, "kv:blank-lines-without-comment-char-not-judged"
    got = _call(split_kv_pairs, list(case["lines"]), comment_char=case["comment_char"], filter_string=case["filter_string"],
                split_on=case["split_on"], use_partition=case["use_partition"], ordered=case["ordered"])
    vio = []
    if not isinstance(got, dict) or dict(got) != exp:
        blank_kept = bool(case["comment_char"] is None and case["use_partition"] and isinstance(got, dict)
                          and any(not l.strip() for l in case["lines"]) and dict(got) == dict(exp, **{"": ""}))
        vio.append(("kv:pairs-equal-rendered", exp, got if not isinstance(got, dict) else dict(got),
                    {"blank_line_kept_without_comment_char": blank_kept}))
    elif case["ordered"] and list(got.keys()) != order:
        vio.append(("kv:order-preserved", order, list(got.keys()), {}))
    return vio, (bool(exp) and len(case["lines"]) > len(exp)), "kv:%d:%s" % (len(exp), not vio)


def check_active(case):
    get_active_lines = _imp()[0]
    exp = T.active_ref(case["lines"], case["comment_char"])
    got = _call(get_active_lines, list(case["lines"]), case["comment_char"])
    vio = []
    if got != exp:
        vio.append(("active:lines-without-comments-and-blanks", exp, got, {}))
    return vio, (bool(exp) and len(exp) < len(case["lines"])), "active:%d:%s" % (len(exp), not vio)


def check_unsplit(case):
    unsplit_lines = _imp()[2]
    lines = T.unsplit_render(case)
    exp = T.unsplit_expected(case)
    got = _call(lambda: list(unsplit_lines(lines, cont_char=case["cont_char"], keep_cont_char=case["keep"])))
    vio = []
    if got != exp:
        vio.append(("unsplit:logical-lines-recovered", exp, got, {}))
    return vio, len(lines) > len(exp), "unsplit:%d:%s" % (len(exp), not vio)


def check_optlist(case):
    optlist_to_dict = _imp()[3]
    text = T.optlist_render(case)
    exp = T.optlist_expected(case)
    got = _call(optlist_to_dict, text, opt_sep=case["opt_sep"], kv_sep=case["kv_sep"], strip_quotes=case["strip_quotes"])
    vio = []
    if not T.strict_eq(got, exp):          # strict: a present name maps to True, not to 1
        feats = {"empty_value_with_strip_quotes": bool(
            case["strip_quotes"] and case["kv_sep"] is not None and any(v == "" for _, v in case["opts"])
            and got == "raised IndexError")}
        vio.append(("optlist:options-recovered", exp, got, feats))
    return vio, len(case["opts"]) > 1, "optlist:%d:%s" % (len(exp), not vio)


INI_QUERY_SPELLINGS = ["key", "Key", "KEY", "other", "OTHER", "two words", "key2", "KEY2", "ke", "absent"]


def check_ini(case):
    imp = _imp()
    allow = bool(case.get("allow_no_value"))
    cls = imp[8] if allow else imp[7]
    from harness.ctx import make_context
    doc = case["doc"]
    lines = M.render(doc)
    view = M.View(doc, allow)

    def same(exp, obs, loose):
        if type(exp) is type(obs) and exp == obs:
            return True
        return bool(loose and isinstance(obs, str) and isinstance(exp, str) and M.norm(exp) == M.norm(obs))
    nontrivial = (any(b["name"].strip() == M.DEFAULT for b in doc["blocks"]) or M.has_continuation(doc) or bool(doc.get("pre"))
                  or any(e[0] == "f" for b in doc["blocks"] for e in b["entries"])
                  or any(len(set(n)) != len(n) for n in
                         [[e[1].lower() for e in b["entries"] if e[0] == "o"] for b in doc["blocks"]]))
    vio = []
    try:
        p = cls(make_context(lines, path="/etc/c15.ini"))
    except Exception as ex:
        vio.append(("ini:document-accepted", "parsed", "raised %s: %s" % (type(ex).__name__, str(ex)[:120]), {}))
        return vio, nontrivial, "ini:rejected"

    def guarded(f, *a):
        try:
            return f(*a)
        except Exception as ex:
            return ("raised", type(ex).__name__)

    # sections(): every section, in document order, excluding exactly DEFAULT
    got_secs = guarded(p.sections)
    if not T.strict_eq(got_secs, view.section_names):
        contains = [s for s in view.section_names if M.DEFAULT in s]
        explained = bool(contains) and got_secs == [s for s in view.section_names if M.DEFAULT not in s]
        vio.append(("ini:sections-in-document-order", view.section_names, got_secs,
                    {"section_name_contains_DEFAULT": explained}))
    # in
    bad_in = []
    for s in view.section_names + ["absent"]:
        for q in (s, " %s " % s):
            g = guarded(p.__contains__, q)
            if g is not (s != "absent"):
                bad_in.append([q, g])
    if bad_in:
        vio.append(("ini:contains", "True for every rendered section, False otherwise", bad_in, {}))
    # defaults()
    got_d = guarded(p.defaults)
    if not isinstance(got_d, dict):
        vio.append(("ini:defaults", view.defaults, got_d, {}))
    else:
        got_d = dict(got_d)
        wrong_d = {}
        for k in sorted(set(got_d) | set(view.defaults)):
            e, g = view.defaults.get(k, "<absent>"), got_d.get(k, "<absent>")
            if not same(e, g, k in view.loose_defaults):
                f = M.comment_features(doc, M.DEFAULT, k, e, g)
                w = wrong_d.setdefault(tuple(sorted(f.items())), [{}, {}])
                w[0][k] = e
                w[1][k] = g
        for fv, (e, g) in sorted(wrong_d.items()):
            vio.append(("ini:defaults", e, g, dict(fv)))
    # items() / get() / has_option()
    wrong = {}       # canonical feature vector -> [expected list, observed list]
    bad_has = []
    for si, s in enumerate(view.section_names):
        exp_items = view.items[s]
        qs = s if si else " %s " % s          # the first section is queried with a padded name
        got_items = guarded(p.items, qs)
        names = set(exp_items)
        if isinstance(got_items, dict):
            names |= set(got_items)
        else:
            vio.append(("ini:option-values", {"items(%r)" % s: exp_items}, {"items(%r)" % s: got_items}, {}))
            got_items = {}
        for o in sorted(names):
            e, g = exp_items.get(o, "<absent>"), got_items.get(o, "<absent>")
            if not same(e, g, o in view.loose[s]):
                f = M.option_features(doc, s, o, g, e)
                w = wrong.setdefault(tuple(sorted(f.items())), [[], []])
                w[0].append(["items", s, o, e])
                w[1].append(["items", s, o, g])
        for sp in INI_QUERY_SPELLINGS:
            o = sp.lower()
            e = exp_items.get(o, "<absent>")
            g = guarded(p.get, qs, sp)
            if isinstance(g, tuple):
                g = "<absent>"
            if not same(e, g, o in view.loose[s]):
                f = M.option_features(doc, s, o, g, e)
                w = wrong.setdefault(tuple(sorted(f.items())), [[], []])
                w[0].append(["get", s, sp, e])
                w[1].append(["get", s, sp, g])
            h = guarded(p.has_option, qs, sp)
            if h is not (o in exp_items):
                bad_has.append([s, sp, h])
    for fv, (e, g) in sorted(wrong.items()):
        vio.append(("ini:option-values", e, g, dict(fv)))
    if guarded(p.has_option, "absent", "key") is not False:
        bad_has.append(["absent", "key", "not False"])
    if bad_has:
        vio.append(("ini:has-option", "True exactly for the options visible in the section", bad_has, {}))
    # the accessors are queries: asking again on the same object gives the same answers
    if guarded(p.sections) != got_secs or guarded(lambda: dict(p.defaults())) != got_d:
        vio.append(("ini:answers-stable-across-queries", [got_secs, got_d],
                    [guarded(p.sections), guarded(lambda: dict(p.defaults()))], {}))
    return vio, nontrivial, "ini:s%d:d%d:%s" % (len(view.section_names), len(view.defaults),
                                                 ",".join(sorted(set(v[0] for v in vio))))


class _Rows(list):
    """A row container that can carry the key-transformation cache itself."""


class _Parent(object):
    pass


def _known(rows, rkc):
    return set(k for r in rows for k in r) if rkc else set(rows[0])


def check_search(case):
    keyword_search = _imp()[6]
    kwargs = [(k, v) for k, v in case["kwargs"]]
    rkc = case["row_keys_change"]
    vio = []
    runs = []                     # (label, rows)
    parent = None
    prior = None
    if case.get("prior_rows") is not None:
        parent = None if case.get("no_parent") else _Parent()
        prior = [dict(r) for r in case["prior_rows"]]
        runs.append(("prior", prior))
    rows = [dict(r) for r in case["rows"]]
    if case.get("container") == "attr":
        rows = _Rows(rows)
        runs += [("first-call", rows), ("second-call", rows)]
    else:
        runs.append(("rows", rows))
    nontrivial = False
    shape = ""
    for label, rs in runs:
        if not T.search_defined(rs, kwargs):
            return [], False, "search:undefined"
        acc = T.search_expected(list(rs), kwargs, rkc)
        try:
            kw = dict(kwargs)
            if parent is not None:
                res = keyword_search(rs, parent=parent, row_keys_change=rkc, **kw)
            else:
                res = keyword_search(rs, row_keys_change=rkc, **kw)
            got = []
            for r in res:
                got.append(next((i for i, q in enumerate(rs) if q is r), -1))
        except Exception as ex:
            got = "raised %s" % type(ex).__name__
        if got not in acc:
            feats = {}
            if prior is not None and label == "rows":
                # structural fact: the parent was used before for rows with other keys, and the answer is the one
                # obtained by looking only at the keys of those earlier rows
                stale = T.search_ref(list(rs), kwargs, _known(prior, rkc))
                feats["parent_reused_for_rows_with_different_keys"] = bool(
                    _known(prior, rkc) != _known(list(rs), rkc) and got == stale)
            vio.append(("search:exactly-the-matching-rows", {label: acc}, {label: got}, feats))
        if acc[0] and len(acc[0]) < len(rs):
            nontrivial = True
        shape = "%d/%d" % (len(acc[0]), len(rs))
    return vio, nontrivial, "search:%s:%s" % (shape, not vio)


CHECKERS = {"fixed": check_fixed, "delim": check_delim, "kv": check_kv, "active": check_active,
            "unsplit": check_unsplit, "optlist": check_optlist, "ini": check_ini, "search": check_search}


def check_case(case):
    return CHECKERS[case["kind"]](case)


def replay(case):
    vio, _, _ = check_case(case)
    return [{"clause": c, "case": case, "expected": e, "observed": o, "features": f} for c, e, o, f in vio]


# =====================================================================================================
# enumerators (each yields every case of a stated finite space exactly once)
# =====================================================================================================

FIXED_HEADERS = ["A", "AB", "B", "NAME", "ME", "COL1", "C 1"]
DELIM_HEADERS = ["A", "AB", "B", "C 1", ""]      # "" = an unnamed column (printable header delimiter only)


def header_tuples(universe, maxn):
    for n in range(1, maxn + 1):
        for t in itertools.permutations(universe, n):
            yield list(t)


def rowsets(rowlist, maxrows):
    for n in range(0, maxrows + 1):
        for t in itertools.product(rowlist, repeat=n):
            yield [list(r) for r in t]


def fixed_cells(width, last):
    """Cell universe of a column: empty, short, inner space, one narrower than the column, as wide as the column."""
    if last:
        return ["", "x", "a b", "wwwwwwww"]
    out = ["", "x"]
    for c in ("a b", "w" * (width - 1), "f" * width):
        if len(c) <= width and c not in out:
            out.append(c)
    return out


ENV_JUNK = [(None, False), (None, True), ("# note", True), ("x %s y", True)]                      # (junk line, heading_ignore)
ENV_FOOT = [(None, False), (None, True), ([""], False), (["Total 2"], True), (["", "Total 2"], True)]   # (footer lines, trailing_ignore)


def envs(first_header):
    """(junk, heading_ignore, footer, trailing_ignore); the first element is the default environment."""
    for (j, hi) in ENV_JUNK:
        for (f, ti) in ENV_FOOT:
            yield ((j % first_header) if (j and "%s" in j) else j, hi, f, ti)


def fixed_cases(headers, tier):
    """n <= 2: cells x rows in the default environment, every environment (junk / footer / indent / tab) for
    <= fixed_env_rows rows.  n = 3: quick <= 1 row in the default environment; thorough as for n = 2 with
    <= 1 row per non-default environment.  n = 4 (the code walks a cursor from header to header: first, middle
    and last columns differ): <= 1 row, default environment, quick over the cells {"", column-wide}."""
    b = BOUNDS[tier]
    n = len(headers)
    subst = "C 1" in headers
    quick = tier == "quick"
    maxrows = b["fixed_rows"] if (n <= 2 or (n == 3 and not quick)) else 1
    if n <= 2:
        env_rows = b["fixed_env_rows"]
    elif n == 3 and not quick:
        env_rows = 1
    else:
        env_rows = -1                      # default environment only
    gap_choices = list(itertools.product([1, 2], repeat=n - 1))
    if n == 2:
        gap_choices.append((4,))             # a wide gap, default environment only
    if n >= 4 and quick:
        gap_choices = [(1,) * (n - 1), (2,) * (n - 1)]
    for gaps in gap_choices:
        cols = [fixed_cells(len(headers[i]) + gaps[i], False) for i in range(n - 1)] + [fixed_cells(0, True)]
        if n >= 4 and quick:
            cols = [["", c[-1]] for c in cols[:-1]] + [["", "x"]]
        rowlist = list(itertools.product(*cols))
        for rows in rowsets(rowlist, maxrows):
            for (junk, hi, foot, ti) in envs(headers[0]):
                default_env = junk is None and not hi and foot is None and not ti
                for indent, tab in ((0, False), (2, False), (0, True)):
                    if True:
                        if not (default_env and indent == 0 and not tab) and (len(rows) > env_rows or max(gaps or (0,)) > 2):
                            continue
                        for rstrip in (False, True):
                            case = {"kind": "fixed", "headers": headers, "gaps": list(gaps), "rows": rows,
                                    "indent": indent, "rstrip": rstrip}
                            if tab:
                                case["tab"] = True
                            if junk is not None:
                                case["junk"] = junk
                            if hi:
                                case["heading_ignore"] = True
                            if foot is not None:
                                case["footer"] = list(foot)
                            if ti:
                                case["trailing_ignore"] = True
                            if subst:
                                case["subst"] = True
                            yield case


def delim_cells(delim, last, max_splits_last):
    if delim is None:
        out = ["x", "yy"]
        if last and max_splits_last:
            out.append("a b")
        return out
    out = ["", "x", "a b", "yy"]
    if last and max_splits_last:
        out.append("p%sq" % delim)
    return out


def delim_cases(headers, delim, tier):
    b = BOUNDS[tier]
    n = len(headers)
    quick3 = (tier == "quick" and n >= 3) or "" in headers      # <= 1 row, default environment
    for header_delim in ("same", None, ";"):
        hd = delim if header_delim == "same" else header_delim
        if "" in headers and hd is None:
            continue                             # white space cannot delimit an empty heading
        if "C 1" in headers:
            substs = [True] if hd is None else [False, True]
        else:
            substs = [False]
        for max_splits in (-1, n - 1):
            cols = [delim_cells(delim, i == n - 1, max_splits == n - 1) for i in range(n)]
            rowlist = list(itertools.product(*cols))
            if n >= 2:
                rowlist += list(itertools.product(*[delim_cells(delim, False, False) for _ in range(n - 1)]))
            for (strip, pad) in ((True, False), (True, True), (False, False)):
                for raw in (None, "raw"):
                    for subst in substs:
                        default_opts = (header_delim == "same" and max_splits == -1 and strip and not pad
                                        and raw is None and subst == substs[0])
                        for (junk, hi, foot, ti) in envs(headers[0]):
                            default_env = junk is None and not hi and foot is None and not ti
                            if hi and headers[0] == "":
                                continue                 # heading_ignore needs a non-empty first heading to look for
                            if default_env:
                                maxrows = b["delim_rows"] if ((n <= 2 or default_opts) and not quick3) else 1
                            elif quick3:
                                maxrows = -1
                            else:
                                maxrows = 1 if (header_delim == "same" and max_splits == -1 and subst == substs[0]) else -1
                            for rows in rowsets(rowlist, maxrows) if maxrows >= 0 else ():
                                case = {"kind": "delim", "headers": headers, "delim": delim, "header_delim": header_delim,
                                        "max_splits": max_splits, "strip": strip, "pad": pad, "rows": rows}
                                if raw:
                                    case["raw_line_key"] = raw
                                if subst:
                                    case["subst"] = True
                                if junk is not None:
                                    case["junk"] = junk
                                if hi:
                                    case["heading_ignore"] = True
                                if foot is not None:
                                    case["footer"] = list(foot)
                                if ti:
                                    case["trailing_ignore"] = True
                                yield case


KV_LINES = ["k = v", "k=v=w", " k : v ", "k = v2", "# k = old", "j = u # c", "", "   ", "nosep", "k:a=b",
            # empty values: the separator is present, so the pair (k, "") is data and overrides an earlier k
            "k =", "k=", "k =  # c"]
KV_BLANK = ("", "   ")
ACTIVE_LINES = [" x ", "x # c", "# c", "", "  ", "x#c#d", " # c", "x ; y", "a//b", "a/b///c"]


def kv_cases(prefix, maxlen):
    """All documents that start with `prefix` (a list of line indices) x every option combination."""
    for n in range(len(prefix), maxlen + 1):
        for tail in itertools.product(range(len(KV_LINES)), repeat=n - len(prefix)):
            lines = [KV_LINES[i] for i in list(prefix) + list(tail)]
            for cc in ("#", ";", None):
                for fs in (None, "k"):
                    for so in ("=", ":"):
                        for up in (False, True):
                            for od in ((True, False) if cc == "#" else (True,)):     # the plain dict differs only in type
                                yield {"kind": "kv", "lines": lines, "comment_char": cc, "filter_string": fs,
                                       "split_on": so, "use_partition": up, "ordered": od}


# filter_string / split_on must look at the ACTIVE text (comments already removed, as the docstring says and as
# "commented lines never contribute data" demands): the word `w` occurs only in the pair, only in the inline
# comment, in both, in neither, or in a whole-line comment; the separator occurs only inside a comment
KVF_LINES = ["w = 1", "a = w", "a = 1", "w = 1 # c", "a = 1 # w", "a = w # w", "a = 1 # c", "a = 1 #w=2",
             "# w = 1", "# c", "", "a = 1 ; w", "nosep # x = 1", "wsep # c"]
KVF_FILTERS = [None, "w", "#", "# w", "1 #", "=", "", "w = 1"]


def kvf_cases(first, maxlen):
    """Documents of 1..maxlen lines over KVF_LINES that start with line `first` (None: the empty document)
    x comment_char x filter_string x split_on x use_partition."""
    if first is None:
        docs = [[]]
    else:
        docs = ([KVF_LINES[first]] + list(t) for n in range(0, maxlen) for t in itertools.product(KVF_LINES, repeat=n))
    for lines in docs:
        for cc in ("#", ";", None):
            for fs in KVF_FILTERS:
                for so in ("=", ":"):
                    for up in (False, True):
                        yield {"kind": "kv", "lines": lines, "comment_char": cc, "filter_string": fs,
                               "split_on": so, "use_partition": up, "ordered": True}


def active_cases(maxlen):
    for n in range(0, maxlen + 1):
        for t in itertools.product(ACTIVE_LINES, repeat=n):
            for cc in ("#", ";", "//"):
                yield {"kind": "active", "lines": list(t), "comment_char": cc}


UNSPLIT_PIECES = ["a", " b", "c ", ""]
UNSPLIT_LAST = ["a", " b", ""]


def unsplit_cases(max_logical, max_pieces):
    logical = []
    for k in range(1, max_pieces + 1):
        for head in itertools.product(UNSPLIT_PIECES, repeat=k - 1):
            for last in UNSPLIT_LAST:
                logical.append(list(head) + [last])
    for n in range(0, max_logical + 1):
        for t in itertools.product(logical, repeat=n):
            for cc in ("\\", "&"):
                for trail in ("", " "):
                    for keep in (False, True):
                        for dangling in ((False, True) if n else (False,)):
                            yield {"kind": "unsplit", "logical": [list(x) for x in t], "cont_char": cc, "trail": trail,
                                   "keep": keep, "dangling": dangling}


OPT_KEYS = ["rw", "ro", "size"]
OPT_VALUES = [None, "v", "", "a=b", "=b", "\"q r\"", "'q'", "\"q'", "\"", "\"\"", "\"a=b\""]


def optlist_cases(maxopts, shard, of):
    opts = [[k, v] for k in OPT_KEYS for v in OPT_VALUES]
    j = 0
    for n in range(1, maxopts + 1):
        for t in itertools.product(opts, repeat=n):
            j += 1
            if j % of != shard:
                continue
            for opt_sep in (",", ", "):
                for kv_sep in ("=", ":", None):
                    if kv_sep == ":" and any(v and ":" in v for _, v in t):
                        continue
                    for sq in (False, True):
                        yield {"kind": "optlist", "opts": [list(o) for o in t], "opt_sep": opt_sep, "kv_sep": kv_sep,
                               "strip_quotes": sq}


# ---- INI -------------------------------------------------------------------------------------------

SEC_NAMES = ["s1", "S 2", "MY_DEFAULTS"]
OPT_NAMES = ["key", "Key", "other"]
NAME_UNIVERSE = ["s1", "S 2", "MY_DEFAULTS", "DEFAULTS", "xDEFAULT", "DEFAULT x", "default", "Default"]
FILLERS = ["# c", "; c", "", "   ", "# [x]", "; key = z", "#key = z", "  # c", "  ; c"]
INI_VALUES = ["v", "", "a=b", "a:b", "x y", ["p", "q r"], ["", "q"]]
INI_SEPS = [" = ", "=", ": ", ":"]


def name_lists(maxn):
    for n in range(0, maxn + 1):
        for t in itertools.product(OPT_NAMES, repeat=n):
            yield t


def mkdoc(blocks):
    """blocks: [(name, (option names...))] -> descriptor with a unique value per option occurrence."""
    k = 0
    out = []
    for name, names in blocks:
        ents = []
        for nm in names:
            ents.append(["o", nm, "v%d" % k, " = "])
            k += 1
        out.append({"name": name, "entries": ents})
    return {"blocks": out}


def ini_struct_cases(secs, dpos, tier, repeat=False, max_opts=2):
    b = BOUNDS[tier]
    sec_lists = list(name_lists(max_opts))
    if dpos is None:
        for lists in itertools.product(sec_lists, repeat=len(secs)):
            if not secs:
                continue
            yield {"kind": "ini", "doc": mkdoc(list(zip(secs, lists)))}
        return
    dmax = min(b["ini_default_opts"], max_opts + (1 if tier == "thorough" else 0)) if not repeat else 1
    if len(secs) <= 1 and not repeat and tier == "thorough":
        dmax = 3
        sec_lists = list(name_lists(3))
    for dl in name_lists(dmax):
        for lists in itertools.product(sec_lists, repeat=len(secs)):
            blocks = list(zip(secs, lists))
            blocks.insert(dpos, ("DEFAULT", dl))
            yield {"kind": "ini", "doc": mkdoc(blocks)}


def ini_blocks_cases(names, universes, allow=(False,)):
    """Every document whose blocks carry `names` in this order; block i takes every option list of
    <= universes[i][1] entries over universes[i][0] = [(option name, value kind)], value kind in
    {"v" (a unique token), "" (empty value), None (bare name)}."""
    lists = []
    for opts, maxn in universes:
        lists.append([t for n in range(0, maxn + 1) for t in itertools.product(opts, repeat=n)])
    for combo in itertools.product(*lists):
        k = 0
        blocks = []
        for name, t in zip(names, combo):
            ents = []
            for (nm, kind) in t:
                if kind == "v":
                    ents.append(["o", nm, "v%d" % k, " = "])
                    k += 1
                elif kind == "":
                    ents.append(["o", nm, "", " = "])
                else:
                    ents.append(["o", nm, None, ""])
            blocks.append({"name": name, "entries": ents})
        for a in allow:
            case = {"kind": "ini", "doc": {"blocks": blocks}}
            if a:
                case["allow_no_value"] = True
            yield case


def _u(names, kinds=("v",)):
    return [(n, k) for n in names for k in kinds]


INI_EXTRA = {
    # two separate DEFAULT blocks at every position around one section
    "two-defaults": [(["DEFAULT", "DEFAULT", "s1"], [(_u(OPT_NAMES), 2), (_u(OPT_NAMES), 2), (_u(OPT_NAMES), 1)]),
                     (["DEFAULT", "s1", "DEFAULT"], [(_u(OPT_NAMES), 2), (_u(OPT_NAMES), 1), (_u(OPT_NAMES), 2)]),
                     (["s1", "DEFAULT", "DEFAULT"], [(_u(OPT_NAMES), 1), (_u(OPT_NAMES), 2), (_u(OPT_NAMES), 2)])],
    # option names that are prefixes of each other
    "prefix-names": [(["DEFAULT", "s1"], [(_u(["key", "key2", "ke"]), 2)] * 2),
                     (["s1", "DEFAULT"], [(_u(["key", "key2", "ke"]), 2)] * 2)],
    # three sections, DEFAULT at every position
    "three-sections": [(list(p[:d]) + ["DEFAULT"] + list(p[d:]), [(_u(["key", "Key"]), 1)] * 4)
                       for p in itertools.permutations(SEC_NAMES, 3) for d in range(4)],
    # section names that differ only in case stay separate sections
    "case-variant-sections": [(list(p), [(_u(["key", "Key"]), 1)] * len(p))
                              for p in (["s1", "S1"], ["S1", "s1"], ["DEFAULT", "s1", "S1"], ["s1", "DEFAULT", "S1"],
                                        ["default", "DEFAULT", "s1"], ["s1", "Default", "DEFAULT"])],
}
INI_NOVALUE = [(["s1"], [(_u(["key", "Key"], ("v", "", None)), 2)]),
               (["DEFAULT", "s1"], [(_u(["key"], ("v", "", None)), 2), (_u(["key", "Key"], ("v", "", None)), 2)]),
               (["s1", "DEFAULT"], [(_u(["key", "Key"], ("v", "", None)), 2), (_u(["key"], ("v", "", None)), 2)])]


def ini_value_cases():
    opts = [["o", n, v, s] for n in ("key", "two words") for v in INI_VALUES for s in INI_SEPS]
    for n in (1, 2):
        for t in itertools.product(opts, repeat=n):
            yield {"kind": "ini", "doc": {"blocks": [{"name": "s1", "entries": [list(e) for e in t]}]}}


def ini_name_cases():
    for name in NAME_UNIVERSE:
        for hpad in (False, True):
            for dmode in (None, "before", "after"):
                for other in (None, "before", "after"):
                    blocks = [{"name": name, "hpad": hpad, "entries": [["o", "key", "v0", " = "]]}]
                    if other:
                        ob = {"name": "zz", "entries": [["o", "other", "v1", " = "]]}
                        blocks = [ob] + blocks if other == "before" else blocks + [ob]
                    if dmode:
                        db = {"name": "DEFAULT", "hpad": hpad, "entries": [["o", "dflt", "v2", " = "]]}
                        blocks = [db] + blocks if dmode == "before" else blocks + [db]
                    yield {"kind": "ini", "doc": {"blocks": blocks}}


def ini_fill_bases():
    for dmode in (None, "first", "last"):
        for nsec in (1, 2):
            for cont in (False, True):
                blocks = [{"name": "s1", "entries": [["o", "key", "v0", " = "],
                                                     ["o", "other", ["p", "q"] if cont else "v1", " = "]]}]
                if nsec == 2:
                    blocks.append({"name": "S 2", "entries": [["o", "Key", "v2", "="]]})
                db = {"name": "DEFAULT", "entries": [["o", "key", "v3", " = "], ["o", "third", "v4", ": "]]}
                if dmode == "first":
                    blocks.insert(0, db)
                elif dmode == "last":
                    blocks.append(db)
                yield {"blocks": blocks}


def ini_fill_positions(doc):
    pos = [("pre", 0)]
    for bi, b in enumerate(doc["blocks"]):
        for ei in range(len(b["entries"]) + 1):
            pos.append((bi, ei))
    return pos


def ini_insert(doc, inserts):
    """inserts: list of ((block | "pre", entry index in the *original* entry list), filler) in document order."""
    out = {"pre": [], "blocks": [{k: (list(v) if k == "entries" else v) for k, v in b.items()} for b in doc["blocks"]]}
    for b in out["blocks"]:
        b["entries"] = [(i, e) for i, e in enumerate(b["entries"])]
    for (bi, ei), f in inserts:
        if bi == "pre":
            out["pre"].append(f)
        else:
            ents = out["blocks"][bi]["entries"]
            # insert before the original entry ei (after earlier fillers put at the same place)
            k = 0
            while k < len(ents) and (ents[k][0] is None or ents[k][0] < ei):
                k += 1
            while k < len(ents) and ents[k][0] is None and ents[k][2] == ei:
                k += 1
            ents.insert(k, (None, ["f", f], ei))
    for b in out["blocks"]:
        b["entries"] = [t[1] for t in b["entries"]]
    if not out["pre"]:
        del out["pre"]
    return out


def ini_fill_cases(base_index, tier):
    base = list(ini_fill_bases())[base_index]
    pos = ini_fill_positions(base)
    single = [((p, f),) for p in pos for f in FILLERS]
    for ins in single:
        yield {"kind": "ini", "doc": ini_insert(base, list(ins))}
    if BOUNDS[tier]["ini_fillers"] >= 2:
        for i, p1 in enumerate(pos):
            for p2 in pos[i:]:
                for f1 in FILLERS:
                    for f2 in FILLERS:
                        yield {"kind": "ini", "doc": ini_insert(base, [(p1, f1), (p2, f2)])}


# ---- keyword_search --------------------------------------------------------------------------------

S_KEYS = ["a", "b-c", "d e"]
S_PAIRS = [("a", "b-c"), ("b-c", "d e"), ("a", "d e")]
S_VALUES = ["x", "X", "xy", "", None, 1]      # "" is what an empty table cell parses to
S_STR = ["x", "X", "xy", ""]
S_FORMS = ["", "__contains", "__startswith", "__endswith", "__lower_value", "__nosuch"]


def row_shapes(pair, values):
    k1, k2 = pair
    out = [{k1: v1, k2: v2} for v1 in values for v2 in values]
    out += [{k1: v} for v in values] + [{k2: v} for v in values]
    return out


def conditions(pair, eq_values, str_values, absent=True, forms=S_FORMS):
    fields = [T.norm_key(k) for k in pair] + (["zz"] if absent else [])
    out = []
    for f in fields:
        for form in forms:
            vals = eq_values if form in ("", "__nosuch") else str_values
            for v in vals:
                out.append([f + form, v])
    return out


def kwarg_sets(conds, maxn):
    for c in conds:
        yield [c]
    if maxn >= 2:
        for c1, c2 in itertools.combinations(conds, 2):
            if c1[0] != c2[0]:
                yield [c1, c2]


def search_cases(unit, tier):
    part = unit["sub"]
    pair = S_PAIRS[unit["pair"]]
    if part == "one":          # every single condition x row sets (<= search_rows rows)
        shapes = row_shapes(pair, S_VALUES)
        first = shapes[unit["first"]] if unit["first"] is not None else None
        conds = conditions(pair, S_VALUES, S_STR)
        maxrows = BOUNDS[tier]["search_rows"]
        small = row_shapes(pair, ["x", "", None])
        if first is None:
            sets = [[]]
        elif tier == "quick":
            # one row from the full universe alone, before and after every row of the small universe
            sets = [[first]] + [[first, r] for r in small] + ([[r, first] for r in small] if first not in small else [])
        else:
            # <= 2 rows over the full universe; a third row from the small universe
            sets = itertools.chain([[first]], ([first, r] for r in shapes),
                                   ([first, r, q] for r in shapes for q in small) if maxrows >= 3 else ())
        for rows in sets:
            for c in conds:
                if not T.search_defined(rows, [c]):
                    continue
                for rkc in (False, True):
                    yield {"kind": "search", "rows": rows, "row_keys_change": rkc, "kwargs": [c]}
    elif part == "two":        # every pair of conditions x row sets (<= 2 rows)
        shapes = row_shapes(pair, S_VALUES if tier != "quick" else ["x", "", None])
        if unit["first"] >= len(shapes):
            return
        first = shapes[unit["first"]]
        if tier == "quick":
            conds = conditions(pair, ["x", None], ["x"], absent=False)
        else:
            conds = conditions(pair, ["x", "", None, 1], ["x", "X", ""], absent=False)
        ksets = [k for k in kwarg_sets(conds, 2) if len(k) == 2]
        for rows in ([first] + list(t) for n in range(0, 2) for t in itertools.product(shapes, repeat=n)):
            for k in ksets:
                if not T.search_defined(rows, k):
                    continue
                for rkc in (False, True):
                    yield {"kind": "search", "rows": rows, "row_keys_change": rkc, "kwargs": k}
    elif part == "attr":       # rows object carries the cache itself, searched twice
        shapes = row_shapes(pair, ["x", None])
        conds = conditions(pair, S_VALUES, S_STR)
        for n in range(1, 3):
            for t in itertools.product(shapes, repeat=n):
                for c in conds:
                    for rkc in (False, True):
                        yield {"kind": "search", "rows": list(t), "container": "attr", "row_keys_change": rkc, "kwargs": [c]}
    elif part == "parent":     # one parent object reused for a second row set with the same keys
        shapes = row_shapes(pair, ["x", "xy", None] if (tier == "thorough" and not unit.get("differ")) else ["x", None])
        conds = conditions(pair, ["x", None], ["x"])
        sets = [list(t) for n in range(1, 3) for t in itertools.product(shapes, repeat=n)]

        def sig(rs):
            return (tuple(sorted(rs[0])), tuple(sorted(set(k for r in rs for k in r))))
        differ = bool(unit.get("differ"))       # the parent was used before for rows with OTHER keys
        for i, prior in enumerate(sets):
            if i % unit["of"] != unit["shard"]:
                continue
            for rows in sets:
                if (sig(rows) != sig(prior)) != differ or rows == prior:
                    continue
                for c in conds:
                    for rkc in (False, True):
                        yield {"kind": "search", "prior_rows": prior, "rows": rows, "row_keys_change": rkc, "kwargs": [c]}
                        # the same two-call history WITHOUT a parent object (plain lists): nothing may be carried from
                        # one call to the next through module-level state either
                        yield {"kind": "search", "prior_rows": prior, "rows": rows, "row_keys_change": rkc, "kwargs": [c],
                               "no_parent": True}
    else:
        raise ValueError(part)


# =====================================================================================================
# units
# =====================================================================================================

def units(tier, seed):
    b = BOUNDS[tier]
    us = []
    for hs in header_tuples(FIXED_HEADERS, min(2, b["fixed_cols"])):
        us.append({"part": "fixed", "headers": hs})
        if len(hs) == 2 and b["fixed_cols"] >= 3:      # all three-column tables that start with these two headers
            us.append({"part": "fixed", "headers": hs, "extend": 1})
        if len(hs) == 1 and b["fixed_cols"] >= 4:      # all four-column tables that start with this header
            us.append({"part": "fixed", "headers": hs, "extend": 3})
    for hs in header_tuples(DELIM_HEADERS, b["delim_cols"]):
        if hs == [""]:
            continue                                   # a table whose only heading is empty has no header line
        if tier == "quick" and len(hs) >= 3 and ("" in hs or "C 1" in hs):
            continue                                   # quick: three columns over the plain headings only
        if len(hs) >= 3 and tier != "quick":
            for ds in ([None, ","], ["|", ":"]):
                us.append({"part": "delim", "headers": hs, "delims": ds})
        else:
            us.append({"part": "delim", "headers": hs, "delims": [None, ",", "|", ":"]})
    us.append({"part": "kv", "prefix": None})
    us += [{"part": "kv", "prefix": [i]} for i in range(len(KV_LINES))]
    us += [{"part": "kv-filter", "first": i} for i in [None] + list(range(len(KVF_LINES)))]
    us.append({"part": "active"})
    us.append({"part": "unsplit"})
    us += [{"part": "optlist", "shard": i, "of": 4} for i in range(4)]
    # INI structure: <= 2 distinct sections, DEFAULT absent or at every position
    sec_choices = [list(t) for n in (1, 2) for t in itertools.permutations(SEC_NAMES, n)]
    for secs in sec_choices:
        # quick: the full option structure for one pair of names, <= 1 option per block for the other pairs
        # (option structure and section names do not interact in the code); thorough: the full product
        mo = b["ini_opts_per_block"] if (tier == "thorough" or len(secs) == 1 or secs == ["s1", "S 2"]) else 1
        us.append({"part": "ini-struct", "secs": secs, "dpos": None, "max_opts": mo})
        for dpos in range(len(secs) + 1):
            us.append({"part": "ini-struct", "secs": secs, "dpos": dpos, "max_opts": mo})
    us.append({"part": "ini-struct", "secs": [], "dpos": 0, "max_opts": b["ini_opts_per_block"]})
    for dpos in (None, 0, 1, 2):
        us.append({"part": "ini-repeat", "secs": ["s1", "s1"], "dpos": dpos, "max_opts": b["ini_opts_per_block"]})
    us.append({"part": "ini-values"})
    us.append({"part": "ini-names"})
    us += [{"part": "ini-extra", "name": k} for k in sorted(INI_EXTRA)]
    us.append({"part": "ini-novalue"})
    us += [{"part": "ini-fill", "base": i} for i in range(len(list(ini_fill_bases())))]
    # keyword_search
    nshape = len(row_shapes(S_PAIRS[0], S_VALUES))
    for pi in range(len(S_PAIRS)):
        us.append({"part": "search", "sub": "one", "pair": pi, "first": None})
        for f in range(nshape):
            us.append({"part": "search", "sub": "one+two", "pair": pi, "first": f})
        us.append({"part": "search", "sub": "attr", "pair": pi})
    us += [{"part": "search", "sub": "parent", "pair": 0, "shard": i, "of": 4} for i in range(4)]
    return us


def unit_weight(u):
    p = u["part"]
    if p == "ini-struct":
        return 100 if (u["dpos"] is not None and len(u["secs"]) == 2 and u["max_opts"] >= 2) else 5
    if p == "fixed":
        return 90 if u.get("extend") else (25 if len(u["headers"]) == 2 else 1)
    if p == "delim":
        return 40 if len(u["headers"]) >= 2 else 2
    if p == "search":
        return 30 if u["sub"] == "one+two" else 10
    if p in ("ini-fill", "ini-repeat", "ini-values", "ini-extra", "ini-novalue"):
        return 25
    return 8


def unit_cases(unit, tier):
    p = unit["part"]
    b = BOUNDS[tier]
    if p == "fixed":
        if unit.get("extend"):
            rest = [h for h in FIXED_HEADERS if h not in unit["headers"]]
            return itertools.chain.from_iterable(fixed_cases(unit["headers"] + list(t), tier)
                                                 for t in itertools.permutations(rest, unit["extend"]))
        return fixed_cases(unit["headers"], tier)
    if p == "delim":
        return itertools.chain.from_iterable(delim_cases(unit["headers"], d, tier) for d in unit["delims"])
    if p == "kv":
        if unit["prefix"] is None:
            # documents shorter than the prefix length used by the other units
            plen = 1
            return itertools.chain.from_iterable(
                _kv_exact(list(t)) for n in range(0, plen) for t in itertools.product(range(len(KV_LINES)), repeat=n))
        return kv_cases(unit["prefix"], b["kv_lines"])
    if p == "kv-filter":
        return kvf_cases(unit["first"], b["kv_filter_lines"])
    if p == "active":
        return active_cases(b["active_lines"])
    if p == "unsplit":
        return unsplit_cases(b["unsplit_logical"], 3 if tier == "quick" else 2)
    if p == "optlist":
        return optlist_cases(b["optlist_opts"], unit["shard"], unit["of"])
    if p == "ini-struct":
        return ini_struct_cases(unit["secs"], unit["dpos"], tier, max_opts=unit["max_opts"])
    if p == "ini-repeat":
        return ini_struct_cases(unit["secs"], unit["dpos"], tier, repeat=True, max_opts=unit["max_opts"])
    if p == "ini-extra":
        return itertools.chain.from_iterable(ini_blocks_cases(n, u) for n, u in INI_EXTRA[unit["name"]])
    if p == "ini-novalue":
        # bare names are only defined with allow_no_value (class docstring); without it the statement is silent
        return (c for n, u in INI_NOVALUE for c in ini_blocks_cases(n, u, allow=(True,))
                if any(e[2] is None for b in c["doc"]["blocks"] for e in b["entries"]))
    if p == "ini-values":
        return ini_value_cases()
    if p == "ini-names":
        return ini_name_cases()
    if p == "ini-fill":
        return ini_fill_cases(unit["base"], tier)
    if p == "search":
        if unit["sub"] == "one+two":
            return itertools.chain(search_cases(dict(unit, sub="one"), tier), search_cases(dict(unit, sub="two"), tier))
        return search_cases(unit, tier)
    raise ValueError(p)


def _kv_exact(prefix):
    return kv_cases(prefix, len(prefix))


def validate_ini_model(doc, allow=False):
    """The model must agree with its second formulation everywhere and with configparser wherever
    configparser accepts the text.  A disagreement is a defect of the harness, never a verdict."""
    plain = M.View(doc, allow).as_plain()
    second = M.second_model(doc, allow)
    if plain != second:
        raise RuntimeError("INI model and its second formulation disagree on %r: %r != %r" % (doc, plain, second))
    if M.stdlib_comparable(doc):
        std = M.stdlib_view(M.render(doc), allow)
        if std is not None:
            if std != plain:
                raise RuntimeError("INI model and configparser disagree on %r: %r != %r" % (doc, plain, std))
            return 1
    return 0


def run_unit(unit, tier):
    res = Result()
    _imp()
    is_ini = unit["part"].startswith("ini")
    n = 0
    for case in unit_cases(unit, tier):
        if is_ini:
            res.stat("ini_documents_cross_checked_with_configparser", validate_ini_model(case["doc"], bool(case.get("allow_no_value"))))
        vio, nontrivial, outcome = check_case(case)
        res.evals += 1
        if nontrivial:
            res.nontrivial += 1
        res.outcomes.add(outcome)
        if n % 997 == 0 and len(res.samples) < 2:
            res.samples.append(case)
        n += 1
        for c, e, o, f in vio:
            res.violation(c, case, e, o, f)
    res.stat("cases:" + unit["part"], n)
    return res


TECHNIQUE = ("bounded exhaustive render->parse enumeration of tables, key/value documents, INI documents and row searches "
             "executed against the real helpers, compared with statement-level reference models (INI model cross-checked "
             "against a second formulation and stdlib configparser)")
LEVEL_TEXT = ("Every document of each stated finite sub-space (fixed-width tables up to 4 columns with every ordered header "
              "choice incl. substring-related headers, delimited tables over every option combination, key/value documents up "
              "to 4/5 lines over 13 sharp line symbols, INI documents with up to 2 sections + DEFAULT, duplicate and "
              "case-variant options, fillers at every position, and keyword searches over every matcher suffix) is rendered "
              "and parsed by the real code; exploration is exhaustive within the bound, so the claim is 'no counterexample "
              "within the bound', not a proof for all documents.")
LEVEL_NOTE = ("Trusted: the small reference models in ref/c15_*.py (INI model re-validated against a second formulation and "
              "configparser on every enumerated document); the weaker readings listed in the driver's docstring; bounded "
              "by the alphabets and sizes in BOUNDS.")
