"""C09 - obfuscation is a consistent mapping, injective for IPs and hosts, and reported.

Explicit-state breadth-first search over *histories* of `Cleaner.clean_content` calls on ONE
long-lived Cleaner.  An event is one call `clean_content([line, ...])`; a line is a list of tokens
joined by " | " - a delimiter no token and no substitute contains - so the output is re-split
positionally and the substitute of every single occurrence is observed exactly.

State of the search = (what every obfuscator's public mapping() lists, oracle memory).  The driver names no
private attribute of any obfuscator (a refactoring of the table representation must not break the check):

* a state is *held* as a generic snapshot of the whole live Cleaner (pickle round trip, falling back to
  copy.deepcopy, falling back to replaying the history on a fresh Cleaner - `Snapshots`);
* a state is *identified* by the sorted mapping() of every obfuscator (IPv4, IPv6, host name, MAC, keyword) - see
  `canon` for the argument why that determines every future on the code as it is (reading insights/cleaner/
  {__init__,ip,hostname,mac,keyword,password}.py: the tables behind mapping() plus the host-name counter, which
  equals the number of listed names, are the only things written after construction; Password and AllowFilter
  are stateless; no Pattern object exists without exclusion patterns) - together with
* the oracle memory: original -> substitute pairs observed in outputs so far (its key set is the set of
  originals that occurred).  The oracle is history-wide, so two histories may only be merged when the
  oracle remembers the same things about both.

A transition materialises a fresh copy of the predecessor's Cleaner from its snapshot, calls the real
`clean_content`, reads `mapping()` of every obfuscator, evaluates the oracle, canonicalises.  A branch is cut at its first violation - unless every
violation of the event carries the structural trigger of a known defect family: then the originals involved are
forgotten (kept as 'occurred') and the history goes on, so that states only reachable through a trigger are explored
too (`forgive`).  Every 53rd new state is rebuilt by replaying its history on a fresh Cleaner and compared
with the restored snapshot; the first 4 violating transitions of every
(clause, feature vector) per work unit - a superset of the ones the result keeps - are re-executed from
the initial state through `check_case` (the replay entry point) and must agree with the explorer, so an
unsound merge / restore could at worst hide a bug, never raise a false alarm.

Work units: per family one "depth1" unit (all first events from the initial state) and one "subtree" unit
per distinct violation-free depth-1 state (computed once in the parent by `depth1()`; every subtree unit
treats all depth-1 states as already seen).  Deeper states are de-duplicated per unit.

Oracle (after every event, over the whole history):
 (1) consistency:one-substitute-per-original     every occurrence of an original (IPv4, host name, MAC,
     keyword) shows the same substitute - on the same line, on later lines, in later specs;
 (2) injectivity:distinct-originals-distinct-substitutes   for IPv4 and host names only (the statement
     does not demand it for MACs);
 (3) mapping:reports-observed-pair               mapping() pairs every replaced original with the
     substitute that actually appeared, once;
 (4) mapping:lists-only-occurred-originals       mapping() lists no original that never occurred in any
     input and is not the system's own name;
 (6) system-name:own-name-is-replaced            an occurrence of the system's FQDN / short name in a spec that does not
     exempt host names comes out replaced - however the Cleaner learned the name (explicit fqdn argument, or resolved by
     itself with a display_name in the configuration: the 'sysname' histories own the socket calls behind the resolution);
 (5) report:facts-file-matches-observed / report:csv-matches-observed   the rhsm facts file and the CSV
     reports written by `generate_report` (redirected into a /dev/shm scratch dir) satisfy (3) and (4)
     as well; evaluated once for every newly discovered distinct state (the reports are a function of
     the state), i.e. exhaustively over states, not over transitions.

Weaker readings taken (soundness):
 * an original is "replaced" iff its occurrence's text changed or mapping() lists it; an original that is
   left alone and not listed is outside (3). For injectivity (2) an original that is subject to obfuscation - every
   IPv4 address, every name of the obfuscated domain - and is left as it is has ITSELF as its substitute (so a later
   line carrying 10.230.230.1 unchanged while another address was issued 10.230.230.1 violates (2)); only a host name
   outside the obfuscated domain (host2.example.com, the hashed name of the system fed back) is no original for the
   obfuscator and stays outside (2) even when its text coincides with an issued substitute (counted, not alarmed);
   MACs / IPv6 that the nested-obfuscation guard skips are outside (2) anyway (not demanded for those kinds);
 * the system's short name and its FQDN denote one host: they are kept as two originals for (1), are
   exempt from (2) as a pair, and (3)/(4) accept the short name's pair under either spelling;
 * spellings: the textual original is the unit for mapping()/reports (each spelling is listed on its own), but for
   clause (1) the spellings of ONE IPv6 address (letter case, leading zeros in a group, `::` against explicit zero
   groups) and of ONE MAC (letter case, ':' against '-') are one original, and "the same substitute" then means equal
   as addresses (ipaddress value / hex digits): that is what the unchanged code provides by evident design - every IPv6
   group is hashed after stripping its leading zeros and lower-casing, the zeros are put back, zero and empty groups
   stay as they are (the repository's own test_obfuscate_the_same compares substitutes with ipaddress), every MAC pair is
   hashed lower-cased and the case / separator of the original is restored. Host names that differ in letter case are
   two originals with two substitutes (by design). IPv4 spellings with a zero-padded first / middle octet are not
   detected by the pattern (a digit glued to the left, like the left-hand word glue C08 excludes): measured on the
   unchanged tree they are left alone - except that `010.1.1.1` is rewritten to `010.230.230.1` by str.replace when the
   plain `10.1.1.1` stands on the same line. They are fed and counted (kind "text"), nothing is demanded of them;
 * the keyword CSV header is ambiguous about column order; either orientation is accepted.

Fires on the unchanged tree (all inherent to sequential whole-line str.replace; drafted in
findings-draft/C09.json with the structural trigger computed by `trigger_features`):
 * IPv4: `A | 10.230.230.1` where 10.230.230.1 is A's substitute -> both become the next substitute;
 * host names: `b.corp.test | a.b.corp.test` (or `| db.corp.test`) -> `host2.example.com | a.host2.example.com`;
 * MAC: `M | sub(M)` when sub(M) had occurred before M was first seen (so it has an entry of its own).
"""
import copy
import ipaddress
import itertools
import json
import os
import pickle
import re

from mc.result import Result
from harness import tmp

ID = "C09"
LEVEL = "model_checking"

FQDN = "web01.corp.test"
SHORT = "web01"
DOMAIN_SUFFIX = ".corp.test"
KEYWORDS = ["SECRETKW"]
DELIM = " | "

# ---- token alphabet -------------------------------------------------------------------------
IPS = ["1.2.3.4",              # ordinary, shorter than a substitute (7 < 12 characters)
       "192.168.10.5",         # ordinary, exactly as long as a substitute (ties are broken by position)
       "100.200.100.200",      # ordinary, longer than a substitute (replaced before shorter ones)
       "10.1.1.1", "10.1.1.10",            # prefix-related pair
       "10.230.230.1", "10.230.230.2"]     # originals that equal issuable substitutes
HOSTS = [FQDN, SHORT,                       # the system itself
         "db.corp.test", "mail.corp.test",  # two other hosts of the obfuscated domain
         "b.corp.test", "a.b.corp.test",    # one a label-wise suffix of the other (and a textual suffix of db.corp.test)
         "host2.example.com"]               # outside the domain; textually equal to the first issuable substitute
MAC1 = "aa:bb:cc:dd:ee:01"
MAC1_DASH_UPPER = "AA-BB-CC-DD-EE-01"        # the same MAC, other letter case and separator
MAC1_SUB = "e0:9a:bd:38:1f:dd"              # literal: what Mac._mac2db issues for MAC1 (sha1 of each hex pair)
MACS = [MAC1, "AA:BB:CC:DD:EE:01",          # case variant
        "52-54-00-12-34-56",                # dash-separated
        MAC1_SUB]                           # an original equal to an issuable substitute (the guarded case)
KWS = ["SECRETKW"]

# Second token SHAPE: an original with a word character glued to its RIGHT, rendered as one token
# (`1.2.3.4x`); the unchanged code detects the original inside it (no right-hand boundary in the IPv4 / host
# patterns, MAC look-ahead only excludes hex digits, ':' and '-') and substitutes it textually, so the expected
# rendering is `<substitute>x` and the occurrence takes part in every clause like a plain one.
# Plus a second spelling of a host name of the domain that differs only in letter case (two originals, as for
# MACs: the unchanged code keeps them apart and issues two substitutes).
SHAPE = {"1.2.3.4x": ("1.2.3.4", "x"), "192.168.10.5_y": ("192.168.10.5", "_y"),
         "db.corp.testx": ("db.corp.test", "x"), MAC1 + "x": (MAC1, "x")}
HOST_CASE_VARIANT = "MAIL.corp.test"
# (BFS families carry one glued token each; every original x many glue / delimiter strings is covered by the explicit
#  two-step histories of the "shapes" family - `192.168.10.5_y` and `db.corp.testx` moved there to hold the quick budget)
EXTRA = {"ip": ["1.2.3.4x"],
         "host": [HOST_CASE_VARIANT],
         "mk": [MAC1 + "x", MAC1_DASH_UPPER],
         "v6": [],
         "mixed": ["1.2.3.4x"]}


def split_token(tok):
    """token -> (original, glued right-hand text)"""
    return SHAPE.get(tok, (tok, ""))


# IPv6 (the statement says "IP address"; mapping()/facts/CSV have an IPv6 section): compressed and full form, a
# case variant, a textual prefix of another address, and an original equal to an issuable substitute.
V6_1 = "2001:db8::1"
V6_1_SUB = "9195:3b3::3"                    # literal: what IPv6._ip2db issues for V6_1 (sha1 of each hex group)
V6S = [V6_1, "2001:DB8::1", "2001:0db8::1", "fe80::1", "fe80::1a", "2001:db8:0:0:0:0:0:1", V6_1_SUB]
# spelling variants of one address (used by the "spellings" histories of the shapes family)
SPELL_V6 = [[V6_1, "2001:DB8::1", "2001:0db8::1", "2001:db8:0:0:0:0:0:1", "2001:0DB8:0000:0000:0000:0000:0000:0001",
             "2001:db8::0001"],
            ["fe80::42", "FE80::42", "fe80::0042", "fe80:0:0:0:0:0:0:42"]]
SPELL_MAC = [[MAC1, "AA:BB:CC:DD:EE:01", "aa-bb-cc-dd-ee-01", MAC1_DASH_UPPER, "Aa:bB:cc:dd:ee:01"]]
SPELL_IP4 = [["10.1.1.1", "010.1.1.1", "10.01.1.1"]]      # the padded ones are not addresses for the pattern (kind "text")
# tokens that only the explicit "shapes" histories use
OBF_FQDN = "c07c5843e583.example.com"       # literal: the hashed substitute of the system's own name, fed as an input
BOUNDARY_IPS = ["255.255.255.255", "10.0.0.1", "127.0.0.1", "0.0.0.0"]       # max value, zero octets, ignore list, not an address for the pattern
BOUNDARY_MACS = ["00:00:00:00:00:00", "ff:ff:ff:ff:ff:ff"]                   # the MAC ignore list
KW11 = ["QZ%02dQ" % i for i in range(11)]   # 11 configured keywords: substitutes keyword0 .. keyword10

# "overlap" group (added after a seeded change that applied the keyword replacement BEFORE the address / host-name
# obfuscators): configured keywords that are a textual PART of an original of another kind. The statement decides what
# must happen to the host name / address all the same: one substitute for every occurrence across specs (whatever
# each spec's no_obfuscate says about keywords) and a mapping that lists nothing that never occurred. Every keyword is
# a substring of at least one original of its target kind and of no text the obfuscators issue (self-checked below);
# keywords inside MAC addresses are left out: the unchanged tree applies keyword before mac (C08's known finding).
OVERLAP_KWS = {"host": ["db", "corp", "web0", "b.c", "mail.corp"],
               "ip": ["1.2", "168.10", "200.1", "10.1.1"],
               "ipv6": ["db8", "fe80", "2001:"]}
# "sysname" group (added after a seeded change that took the system's name from config.display_name when no fqdn is
# passed): display names a configuration may carry - outside and inside the system's domain - fed as tokens as well
DISPLAY_NAMES = ["prod-db.inventory.example.org", "disp.corp.test"]

KIND = {HOST_CASE_VARIANT: "host", OBF_FQDN: "host"}
for _t in DISPLAY_NAMES:
    KIND[_t] = "host"
for _k in OVERLAP_KWS.values():
    for _t in _k:
        KIND[_t] = "kw"
for _g in SPELL_V6:
    for _t in _g:
        KIND[_t] = "ipv6"
for _g in SPELL_MAC:
    for _t in _g:
        KIND[_t] = "mac"
for _t in SPELL_IP4[0][1:]:
    KIND[_t] = "text"          # fed and counted, nothing is demanded of them (see the module docstring)
for _t in V6S:
    KIND[_t] = "ipv6"
for _t in BOUNDARY_IPS:
    KIND[_t] = "ip"
for _t in BOUNDARY_MACS:
    KIND[_t] = "mac"
for _t in KW11:
    KIND[_t] = "kw"
for _t in IPS:
    KIND[_t] = "ip"
for _t in HOSTS:
    KIND[_t] = "host"
for _t in MACS:
    KIND[_t] = "mac"
for _t in KWS:
    KIND[_t] = "kw"
# "counter" family: many distinct originals through one cleaner, so that the substitute counters cross their
# decimal / octet boundaries (10th, 100th, 256th issued address; host10, host100). Added after a seeded change
# (next substitute from a lexicographic max) showed that a 7-address alphabet can never issue an 11th substitute.
LONG_IPS = ["172.%d.%d.%d" % (16 + k // 200, k % 7, k % 200 + 1) for k in range(300)]
LONG_HOSTS = ["n%03d%s" % (k, DOMAIN_SUFFIX) for k in range(120)]
for _t in LONG_IPS:
    KIND[_t] = "ip"
for _t in LONG_HOSTS:
    KIND[_t] = "host"
INJECTIVE_KINDS = ("ip", "host")


def _overlap_selfcheck():
    """The overlap alphabet must not be vacuous or ambiguous: every keyword is part of >= 1 original of its kind, is no
    token itself, and is part of nothing the obfuscators issue (host<N>.example.com, 10.230.230.<N>, keyword<N>) nor of
    the delimiter - otherwise the expected output would no longer be decided by the statement alone."""
    issued = "host0123456789.example.com 10.230.230.0123456789 keyword0123456789" + DELIM + OBF_FQDN
    base = {"host": HOSTS, "ip": IPS, "ipv6": V6S}
    for kind, kws in OVERLAP_KWS.items():
        for kw in kws:
            if KIND.get(kw) != "kw" or not any(kw in t for t in base[kind]) or kw in issued or \
                    any(kw in x for x in ("example.com", "10.230.230.", "keyword", "host")):
                raise AssertionError("vacuous / ambiguous overlap keyword %r" % kw)


_overlap_selfcheck()


def long_history(kind, order):
    toks = LONG_IPS if kind == "ip" else LONG_HOSTS
    if order == "desc":
        toks = list(reversed(toks))
    hist = []
    for k, t in enumerate(toks):
        if order == "revisit" and k >= 2:
            hist.append([[t, toks[k // 2]]])          # a new original together with an old one on one line
        else:
            hist.append([[t]])
    hist.append([[toks[0], toks[len(toks) // 2]], [toks[-1]]])    # and everything must still map the same way
    return hist
TOKEN_FAMILY = {"ip": "ip", "host": "host", "mac": "mk", "kw": "mk", "ipv6": "v6"}

FAMILIES = {
    "ip": IPS,
    "host": HOSTS,
    "mk": MACS + KWS,
    "v6": V6S,
    # cross-kind histories: one representative per structural class of every kind
    "mixed": ["1.2.3.4", "100.200.100.200", "10.230.230.1",
              SHORT, FQDN, "db.corp.test", "b.corp.test", "a.b.corp.test", "host2.example.com",
              MAC1, "AA:BB:CC:DD:EE:01", MAC1_SUB, "SECRETKW"],
}
FAMILY_ORDER = ["ip", "host", "mk", "v6", "mixed"]

BOUNDS = {
    "quick": {"families": {"ip": {"tokens": "7 + 1 glued", "line_tokens": 2, "depth": 3},
                           "host": {"tokens": "7 + case variant", "line_tokens": 2, "depth": 3},
                           "mk": {"tokens": "5 + 1 glued + 1 separator/case spelling", "line_tokens": 2, "depth": 3},
                           "v6": {"tokens": "7 IPv6 (3 spellings of one address)", "line_tokens": 2, "depth": 3},
                           "mixed": {"tokens": "13 + 1 glued", "line_tokens": 2, "depth": 2}},
              "spec_lines": "1 line of <= line_tokens tokens, or 2 lines of 1 token each",
              "counter_family": "6 long runs (300 IPv4 / 120 host names, ascending / descending / revisiting)",
              "shapes_family": "11159 explicit histories of 1-4 events: spellings (every ordered pair of spellings of one IPv6 address / MAC / zero-padded IPv4), adjacent (two originals of a kind separated by one of : / , = - ( @ _ inside one token, or both glued), glue (every original x left/right literal text), channels (every ordered pair of clean_content(list) / clean_content(str) / width=True / clean_file / clean_file on netstat_-neopa on one Cleaner), exempt (no_obfuscate specs between normal ones), kw11 (11 configured keywords), second-cleaner (a second Cleaner in the same process), blank (empty lines / all-blank specs), fresh-process (second Cleaner vs a fresh interpreter), overlap (12 configured keywords that are a textual part of a host name / IPv4 / IPv6 original x every ordered pair of originals of the kind containing it x specs exempting nothing / keyword / the kind, both keyword positions), sysname (Cleaner built from a real InsightsConfig with the fqdn argument explicit / absent / None / '' x display_name absent / '' / outside the domain / inside the domain / equal to the FQDN x 4 answers of the socket name-resolution calls, which the harness owns)"},
    "thorough": {"families": {"ip": {"tokens": "7 + 1 glued", "line_tokens": 3, "depth": 4},
                              "host": {"tokens": "7 + case variant", "line_tokens": 3, "depth": 4},
                              "mk": {"tokens": "5 + 1 glued + 1 separator/case spelling", "line_tokens": 3, "depth": 4},
                              "v6": {"tokens": "7 IPv6 (3 spellings of one address)", "line_tokens": 3, "depth": 4},
                              "mixed": {"tokens": "13 + 1 glued", "line_tokens": 2, "depth": 3}},
                 "spec_lines": "1 line of <= line_tokens tokens (3-token lines over the base tokens only, without the "
                               "glued / case-variant additions), or 2 lines of 1 token each",
                 "counter_family": "6 long runs (300 IPv4 / 120 host names, ascending / descending / revisiting)",
                 "shapes_family": "11159 explicit histories of 1-4 events: spellings (every ordered pair of spellings of one IPv6 address / MAC / zero-padded IPv4), adjacent (two originals of a kind separated by one of : / , = - ( @ _ inside one token, or both glued), glue (every original x left/right literal text), channels (every ordered pair of clean_content(list) / clean_content(str) / width=True / clean_file / clean_file on netstat_-neopa on one Cleaner), exempt (no_obfuscate specs between normal ones), kw11 (11 configured keywords), second-cleaner (a second Cleaner in the same process), blank (empty lines / all-blank specs), fresh-process (second Cleaner vs a fresh interpreter), overlap (12 configured keywords that are a textual part of a host name / IPv4 / IPv6 original x every ordered pair of originals of the kind containing it x specs exempting nothing / keyword / the kind, both keyword positions), sysname (Cleaner built from a real InsightsConfig with the fqdn argument explicit / absent / None / '' x display_name absent / '' / outside the domain / inside the domain / equal to the FQDN x 4 answers of the socket name-resolution calls, which the harness owns)"},
}
CAP_S = {"quick": 300, "thorough": 3000}

RULE = ("explicit-state BFS over histories of clean_content([line..]) events on one Cleaner; per family "
        "(IPv4-only, host-only, MAC+keyword, IPv6-only, mixed-kind representatives) the event menu is every spec of one "
        "line of <= k tokens (all ordered token tuples, repeats included; a token is an original alone or an original "
        "with a word character glued to its right, observed as <substitute><glue>; 3-token lines use the base tokens "
        "only) or two 1-token lines; histories up "
        "to the family's depth; the mixed family skips histories whose tokens all belong to one single-kind "
        "family (those are covered deeper there), so no history is executed twice. States = (sorted "
        "mapping() of every obfuscator, oracle memory) - public observations only; depth-0/1 states are de-duplicated globally (one work unit per "
        "distinct depth-1 state), deeper states are de-duplicated and COUNTED PER UNIT (the same deeper state "
        "reached from two different depth-1 states is counted and expanded in both). evaluations = "
        "transitions = distinct (state, event) executions of the real clean_content; a branch is continued past a violation "
        "only when every violation of the event carries the structural trigger of a known defect family, at most once "
        "per history and only at its first or second event (the involved originals are then forgotten by the oracle; "
        "such histories are explored to depth 3 in both tiers), "
        "otherwise it is cut. On top of the BFS: 6 long counter runs and the "
        "explicit 'shapes' histories (delimiter adjacency, glue, the five entry channels, no_obfuscate specs, 11 keywords, a "
        "second Cleaner, blank lines, keywords that are part of a host name / address original, the ways a Cleaner learns the "
        "system's own name), each executed once through the replay entry point. A transition / case is "
        "non-trivial when at least one occurrence in the event is a recurrence of an original already "
        "observed (same line, earlier line or earlier event), i.e. clause (1) compared two occurrences")
ASSUMPTIONS = [
    "what mapping() lists determines every future of the Cleaner (argued from the code in canon(); a tree with more "
    "hidden state could make merges too coarse = possible miss, never an alarm; snapshot-vs-replay agreement is "
    "sampled every 53rd state); states are held as pickle/deepcopy snapshots of the whole live Cleaner",
    "the order in which the obfuscators are applied is C10's subject and no order is asserted here; outside the 'overlap' "
    "group the alphabet contains no token that two obfuscators compete for; in the 'overlap' group a configured keyword is a "
    "textual part of a host name / IPv4 / IPv6 original and only what the statement decides is demanded (one substitute per "
    "original across specs whatever they exempt, mapping lists only what occurred); keywords inside MACs (keyword runs before "
    "mac on the unchanged tree - C08's known finding) and keywords inside issued substitutes are excluded from the alphabet",
    "sysname group: the system's own name is what socket.gethostname / getfqdn / gethostbyname_ex answer (all three patched "
    "with descriptor-chosen values denoting web01.corp.test while the case runs); host-name obfuscation is enabled in every "
    "configuration built, so an occurrence of the system's FQDN or short name in a non-exempt spec must be replaced",
    "bounded: no counterexample within the stated alphabet, line width, spec shape and history depth, nothing more",
    "an unreplaced and unlisted original (host outside the domain, guarded MAC) is outside injectivity and reporting",
]
TECHNIQUE = ("explicit-state BFS over call histories of one live Cleaner (transition function = the real clean_content, "
             "states = public mapping() of every obfuscator + oracle memory, held as whole-object snapshots), history-wide mapping invariants checked in every state")
LEVEL_TEXT = ("Every history of clean_content calls up to depth 3 (quick) / 4 (thorough) over a token alphabet with one "
              "symbol per collision class visible in the code (prefix-related IPs, originals equal to issuable "
              "substitutes, suffix-related host names, short/FQDN system name, MAC and host-name case variants, originals with a word "
              "character glued to their right, the guarded "
              "already-obfuscated MAC) is executed against the real Cleaner; on top, explicit short histories cover keywords that are "
              "part of a host name / address and every way the Cleaner is told (or has to resolve) the system's own name; consistency, injectivity and the "
              "mapping()/facts/CSV reports are checked after every event against what was positionally observed. "
              "Model checking is the right level because the property quantifies over histories through a stateful "
              "object and the reachable table states are few once canonicalised.")
LEVEL_NOTE = ("Bounded by alphabet, line width (2/3 tokens), spec shape and depth; tokens are separated by ' | ' only, so "
              "adjacency effects are C08's subject; iteration order of obfuscators fixed (C10's subject); states beyond "
              "depth 1 are de-duplicated per work unit.")

_CL_CLASS = None


def _cleaner_cls():
    global _CL_CLASS
    if _CL_CLASS is None:
        from insights.cleaner import Cleaner
        _CL_CLASS = Cleaner
    return _CL_CLASS


class _Cfg(object):
    obfuscate = True
    obfuscate_hostname = True
    obfuscate_ipv6 = True      # no IPv6 token is ever fed: its mapping must stay empty (clause 4)
    obfuscate_mac = True

    def __init__(self, facts):
        self.rhsm_facts_file = facts


_WARM = [False]
WARMUP_LINE = "198.51.100.77 | warm.corp.test | 0a:0b:0c:0d:0e:0f | 2001:db8:77::77 | SECRETKW"


def warmup():
    """Once per process, before any case: another Cleaner cleans a line of originals that no case ever feeds.
    Part of the meaning of every case descriptor ("an earlier collection run happened in this process"): a table
    that lives on the class / module instead of the instance then shows the same phantom originals in the
    explorer's worker and in the fresh interpreter that replays a violation, so such a defect ends as a
    reproducible VIOLATION of clause (4) instead of a HARNESS-ERROR."""
    if _WARM[0]:
        return
    _WARM[0] = True
    with tmp.scratch("c09w") as d:
        cl = _cleaner_cls()(_Cfg(os.path.join(d, "insights-client.facts")), {"keywords": list(KEYWORDS)}, fqdn=FQDN)
        cl.clean_content([WARMUP_LINE])


# ---- the system's own name as a seam the harness owns ("sysname" group) --------------------------------------
# A case may carry "system": {"fqdn_arg": "explicit" | "absent" | "none" | "empty", "display_name": str | None,
# "resolver": one of RESOLVERS}. The Cleaner is then built the way insights.collect builds it - from a real
# InsightsConfig, WITHOUT an fqdn argument unless fqdn_arg says "explicit" - while the three socket calls behind
# insights.util.hostname.determine_hostname answer with descriptor-chosen values that all denote FQDN. The real
# determine_hostname runs (patching it away would hide the arguments it is called with).
RESOLVERS = {
    # name: (gethostname, getfqdn, gethostbyname_ex()[0] or an exception name)
    "short+fqdn": (SHORT, FQDN, FQDN),
    "fqdn-everywhere": (FQDN, FQDN, FQDN),
    "no-dns": (SHORT, FQDN, "gaierror"),
    "dns-says-localhost": (SHORT, FQDN, "localhost"),
}
FQDN_ARGS = ("explicit", "absent", "none", "empty")


class system_seam(object):
    """Context manager: socket.gethostname / getfqdn / gethostbyname_ex answer as the case's resolver says."""

    def __init__(self, system):
        self.system = system
        self.saved = None

    def __enter__(self):
        if not self.system:
            return self
        import socket
        host, fq, ex = RESOLVERS[self.system["resolver"]]

        def gethostbyname_ex(_name):
            if ex == "gaierror":
                raise socket.gaierror(-2, "Name or service not known")
            return (ex, [], ["192.0.2.10"])

        self.saved = (socket.gethostname, socket.getfqdn, socket.gethostbyname_ex)
        socket.gethostname = lambda: host
        socket.getfqdn = lambda *a: fq
        socket.gethostbyname_ex = gethostbyname_ex
        return self

    def __exit__(self, *exc):
        if self.saved:
            import socket
            socket.gethostname, socket.getfqdn, socket.gethostbyname_ex = self.saved
        return False


def new_cleaner(scratch_dir, keywords=None, system=None):
    warmup()
    facts = os.path.join(scratch_dir, "insights-client.facts")
    rm_conf = {"keywords": list(keywords or KEYWORDS)}
    if system:
        from insights.client.config import InsightsConfig
        kw = dict(obfuscate=True, obfuscate_hostname=True, obfuscate_ipv6=True, obfuscate_mac=True)
        if system.get("display_name") is not None:
            kw["display_name"] = system["display_name"]
        cfg = InsightsConfig(**kw)
        cfg.rhsm_facts_file = facts
        how = system["fqdn_arg"]
        if how not in FQDN_ARGS or system["resolver"] not in RESOLVERS:
            raise ValueError("unknown system descriptor %r" % (system,))
        if how == "explicit":
            cl = _cleaner_cls()(cfg, rm_conf, FQDN)
        elif how == "absent":
            cl = _cleaner_cls()(cfg, rm_conf)
        else:
            cl = _cleaner_cls()(cfg, rm_conf, fqdn=None if how == "none" else "")
    else:
        cl = _cleaner_cls()(_Cfg(facts), rm_conf, fqdn=FQDN)
    cl.report_dir = scratch_dir            # the constructor hard-codes /tmp
    cl.rhsm_facts_file = facts
    return cl


# ---- state access (public interface only) ------------------------------------------------------

class Snapshots(object):
    """Generic snapshots of the WHOLE live Cleaner - no private attribute of any obfuscator is named.
    pickle round trip when the object supports it (measured 32 us to restore, 32 us to take), else
    copy.deepcopy (130 us), else the event history itself (restore = replay on a fresh Cleaner)."""

    def __init__(self, scratch_dir):
        self.scratch_dir = scratch_dir
        cl = new_cleaner(scratch_dir)
        cl.clean_content(["%s | %s" % (IPS[0], HOSTS[2])])
        self.mode = None
        for mode in ("pickle", "deepcopy"):
            try:
                self.mode = mode
                c2 = self.give(self.take(cl, None))
                if read_mappings(c2) == read_mappings(cl) and c2.report_dir == cl.report_dir:
                    return
            except Exception:
                pass
        self.mode = "replay"

    def take(self, cl, hist):
        if self.mode == "pickle":
            return pickle.dumps(cl, pickle.HIGHEST_PROTOCOL)
        if self.mode == "deepcopy":
            return copy.deepcopy(cl)
        return json.loads(json.dumps(hist))

    def give(self, snap):
        """-> a live Cleaner in the snapshotted state that the caller may mutate."""
        if self.mode == "pickle":
            return pickle.loads(snap)
        if self.mode == "deepcopy":
            return copy.deepcopy(snap)
        cl = new_cleaner(self.scratch_dir)
        for e in snap:
            execute(cl, norm_event(e))
        return cl


def canon(maps, obs):
    """Canonical state from PUBLIC observations only: the sorted mapping() of every obfuscator plus the oracle's
    memory.  Why merged states have the same futures on the code as it is: every table is a function of what
    mapping() lists - the next IPv4 substitute is max(listed substitutes)+1, the host-name counter is the number
    of listed names (one entry per increment, the constructor's entry included, nothing is ever removed), the
    MAC / IPv6 nested-obfuscation guards test membership in the listed substitutes, the keyword set is the listed
    originals; listing order never matters (look-ups scan everything, reports are compared as sets).  A tree that
    keeps additional hidden state makes this canon too coarse; a merge then only drops the futures of the
    non-representative history (possible miss, sampled by the every-53rd rebuild): every transition is executed on
    a faithful copy of a really reached object and every kept violation is re-executed through check_case."""
    return (tuple(sorted((kind, orig, tuple(subs)) for kind, d in maps.items() for orig, subs in d.items())),
            tuple(sorted(obs.items())))


MAP_KINDS = (("ip", "ip"), ("hostname", "host"), ("mac", "mac"), ("keyword", "kw"), ("ipv6", "ipv6"))


def read_mappings(cl):
    """kind -> {original: [listed substitutes]} from the real mapping() accessors."""
    out = {}
    for name, kind in MAP_KINDS:
        ob = cl.obfuscate.get(name)
        d = {}
        if ob is not None:
            for m in ob.mapping():
                d.setdefault(m["original"], []).append(m["obfuscated"])
        out[kind] = d
    return out


# ---- oracle -----------------------------------------------------------------------------------

def _listed_for(listing, kind, tok):
    """Substitutes a listing gives for an original; the short system name may be reported under the FQDN."""
    d = listing.get(kind, {})
    subs = list(d.get(tok, []))
    if tok == SHORT and not subs:
        subs = list(d.get(FQDN, []))
    return subs


def check_listing(listing, pairs, occurred, clause_pair, clause_only):
    """Clauses (3) and (4) for one listing (mapping(), facts file or CSV).
    pairs: set of (original, observed text); occurred: set of originals that were fed."""
    v = []
    for tok, sub in sorted(pairs):
        kind = KIND[tok]
        subs = _listed_for(listing, kind, tok)
        replaced = (sub != tok) or bool(subs)
        if not replaced:
            continue
        if subs != [sub]:
            v.append((clause_pair, {"original": tok, "listed_substitutes": [sub]},
                      {"original": tok, "listed_substitutes": subs}, [tok]))
    for kind in sorted(listing):
        for orig in sorted(listing[kind]):
            if orig in occurred:
                continue
            if kind == "host" and orig in (FQDN, SHORT):
                continue
            v.append((clause_only, "only originals that occurred in some input (or the system's own name)",
                      {"kind": kind, "listed_original_never_fed": orig}, [orig]))
    return v


# ---- events, tokens, channels -------------------------------------------------------------------
# event  := [line, ...]                                  (plain: clean_content(list))
#         | {"lines": [line, ...], "mode": one of MODES, "no_obfuscate": [...], "new_cleaner": bool}
# line   := [token, ...]            ([] renders as an empty line)
# token  := "original" | a glued token of SHAPE | [segment, ...] where a segment that is a known original is an
#           original and any other segment is literal text adjacent to it (delimiters such as ':' '/' ',' '=' '-' '(')
MODES = ("content",        # clean_content([lines])
         "string",         # clean_content("line") - the single-string entry, one line only
         "width",          # clean_content([lines], width=True): every token is followed by 20 blanks and '| '
         "file",           # the lines are written to a file, Cleaner.clean_file() rewrites it, the file is read back
         "file-netstat")   # same through a file named netstat_-neopa (clean_file then selects width=True)
WIDTH_PAD = 20
EXEMPT_KIND = {"ip": "ip", "hostname": "host", "mac": "mac", "keyword": "kw", "ipv6": "ipv6"}


def norm_event(event):
    if isinstance(event, dict):
        return {"lines": event["lines"], "mode": event.get("mode", "content"),
                "no_obfuscate": list(event.get("no_obfuscate") or []), "new_cleaner": bool(event.get("new_cleaner"))}
    return {"lines": event, "mode": "content", "no_obfuscate": [], "new_cleaner": False}


def segments(tok):
    """token -> [(is_original, text)]"""
    if isinstance(tok, list):
        return [(seg in KIND, seg) for seg in tok]
    orig, glue = split_token(tok)
    return [(True, orig)] + ([(False, glue)] if glue else [])


def render(tok):
    return "".join(text for _o, text in segments(tok))


def line_originals(line):
    return [text for tok in line for is_o, text in segments(tok) if is_o]


def event_lines(event):
    ev = norm_event(event)
    if ev["mode"] in ("width", "file-netstat"):
        return ["".join(render(t) + " " * WIDTH_PAD + "| " for t in toks) for toks in ev["lines"]]
    return [DELIM.join(render(t) for t in toks) for toks in ev["lines"]]


def execute(cl, ev):
    """Feeds one (normalised) event through the channel it names. -> list of output lines"""
    lines = event_lines(ev)
    no = list(ev["no_obfuscate"]) or None
    mode = ev["mode"]
    if mode == "content":
        return cl.clean_content(lines, no_obfuscate=no)
    if mode == "string":
        if len(lines) != 1:
            raise ValueError("string mode takes one line")
        out = cl.clean_content(lines[0], no_obfuscate=no)
        return [out] if isinstance(out, str) else out
    if mode == "width":
        return cl.clean_content(lines, no_obfuscate=no, width=True)
    if mode in ("file", "file-netstat"):
        path = os.path.join(cl.report_dir, "netstat_-neopa" if mode == "file-netstat" else "some_spec")
        with open(path, "w") as fh:
            fh.write("".join(l + "\n" for l in lines))
        cl.clean_file(path, no_obfuscate=no)
        if not os.path.exists(path):
            return []
        with open(path) as fh:
            out = fh.read().splitlines()
        os.remove(path)
        return out
    raise ValueError(mode)


def parse_part(tok, part):
    """The text observed in place of each original of one token. -> [(original, text, shape)] or None"""
    segs = segments(tok)
    shape = "plain" if len(segs) == 1 else "glued"
    lo, hi = 0, len(part)
    if not segs[0][0]:
        if not part.startswith(segs[0][1]):
            return None
        lo = len(segs[0][1])
        segs = segs[1:]
    if segs and not segs[-1][0]:
        if not part.endswith(segs[-1][1]) or hi - len(segs[-1][1]) < lo:
            return None
        hi -= len(segs[-1][1])
        segs = segs[:-1]
    res = []
    pos = lo
    for i, (is_o, text) in enumerate(segs):
        if not is_o:
            if not part.startswith(text, pos):
                return None
            pos += len(text)
            continue
        nxt = segs[i + 1][1] if i + 1 < len(segs) else None     # originals are always separated by a literal
        end = hi if nxt is None else part.find(nxt, pos, hi)
        if end < 0:
            return None
        res.append((text, part[pos:end], shape))
        pos = end
    return res if pos == hi else None


def observe(ev, out):
    """Positional re-split. -> [(original, observed text in its place, shape)] or None when the shape is off."""
    lines = ev["lines"]
    if not isinstance(out, list):
        return None
    if not any(lines) and out == []:
        return []                                        # all lines blank: documented to give []
    if len(out) != len(lines):
        return None
    wide = ev["mode"] in ("width", "file-netstat")
    occs = []
    for toks, oline in zip(lines, out):
        if not isinstance(oline, str):
            return None
        if wide:
            parts = oline.split("|")
            if len(parts) != len(toks) + 1 or parts[-1].strip():
                return None
            parts = [p_.strip() for p_ in parts[:-1]]
        elif not toks:
            if oline != "":
                return None
            parts = []
        else:
            parts = oline.split(DELIM)
        if len(parts) != len(toks):
            return None
        for tok, part in zip(toks, parts):
            got = parse_part(tok, part)
            if got is None:
                return None
            occs.extend(got)
    return occs


def address_value(kind, text):
    """What a spelling denotes: the IPv6 address as an integer, the MAC as 12 lower-case hex digits; None for the
    kinds whose spellings are originals of their own and for text that is not such an address."""
    if kind == "ipv6":
        try:
            return int(ipaddress.ip_address(text))
        except ValueError:
            return None
    if kind == "mac":
        t = re.sub(r"[:-]", "", text).lower()
        return t if re.match(r"^[0-9a-f]{12}$", t) else None
    return None


_ADDR_CLASS = {}


def address_class(tok):
    if tok not in _ADDR_CLASS:
        kind = KIND[tok]
        val = address_value(kind, tok)
        _ADDR_CLASS[tok] = None if val is None else (kind, val)
    return _ADDR_CLASS[tok]


def oracle(obs, ev, out, maps, kws=None):
    """-> (violations, new_obs, stats). violations: [(clause, expected, observed, involved originals)].
    kws: the keywords the Cleaner was configured with (None = only whole-token occurrences count for keywords); a
    configured keyword that is a textual part of an input line has 'occurred in the content' (clause 4).
    obs maps an original to the text observed in its place, or to None when it has occurred but nothing is
    remembered about it (it only occurred in specs exempted by no_obfuscate, or it was involved in a known-defect
    trigger and forgotten - see forgive())."""
    v = []
    new = dict(obs)
    info = {"recurrences": 0, "tags": set(), "unreplaced_equal_to_substitute": 0}
    occs = observe(ev, out)
    if occs is None:
        v.append(("shape:one-output-token-per-input-token", {"lines": [len(l) for l in ev["lines"]]},
                  {"output": out}, []))
        return v, new, info
    exempt = set(EXEMPT_KIND[n] for n in ev["no_obfuscate"] if n in EXEMPT_KIND)
    live = []
    # (1) one substitute per original, across all occurrences so far
    for tok, sub, shape in occs:
        if KIND[tok] in exempt:                # this spec is exempted for the kind: C08 checks that it stays as it is;
            new.setdefault(tok, None)          # here it only counts as "occurred in the content"
            info["tags"].add("%s:exempt" % KIND[tok])
            continue
        if KIND[tok] == "text":                # not an original of any kind for the code: counted only
            info["tags"].add("text:%s" % ("same" if sub == tok else "rewritten"))
            continue
        live.append((tok, sub))
        if tok in (FQDN, SHORT) and sub == tok:
            # (6) the system's own name is an original of the host-name obfuscator whatever the configuration says
            # about display names: the statement's mapping clause names it ("nor as the system's own name") and
            # clause (1) presupposes that an occurring original IS replaced. Host-name obfuscation is enabled in
            # every configuration this driver builds and this spec does not exempt it.
            v.append(("system-name:own-name-is-replaced", {"original": tok, "replaced": True},
                      {"original": tok, "substitute": sub, "event_output": out}, [tok]))
        prev = new.get(tok)
        if prev is None:
            new[tok] = sub
            rec = "new"
        else:
            rec = "rec"
            info["recurrences"] += 1
            if prev != sub:
                v.append(("consistency:one-substitute-per-original", {"original": tok, "substitute": prev},
                          {"original": tok, "substitute": sub, "event_output": out}, [tok]))
                prev = False
        cls = address_class(tok) if KIND[tok] in ("ipv6", "mac") else None
        if cls is not None and prev is not False and (sub != tok or _listed_for(maps, cls[0], tok)):
            # other spellings of the same address seen so far: equal as addresses (see the module docstring)
            for other, osub in new.items():
                if other == tok or osub is None or KIND[other] != cls[0] or address_class(other) != cls:
                    continue
                if osub == other and not _listed_for(maps, cls[0], other):
                    continue                               # that spelling was left alone and is not listed
                info["spellings"] = info.get("spellings", 0) + 1
                mine, theirs = address_value(cls[0], sub), address_value(cls[0], osub)
                if mine is None or mine != theirs:
                    # which of the two spellings deviates: the one that disagrees with what mapping() lists for it
                    # (both, when that does not decide) - the structural trigger is judged on the deviating one
                    lt = [address_value(cls[0], x) for x in _listed_for(maps, cls[0], tok)]
                    lo = [address_value(cls[0], x) for x in _listed_for(maps, cls[0], other)]
                    inv = [tok, other]
                    if lt == [mine] and lo != [theirs]:
                        inv = [other]
                    elif lo == [theirs] and lt != [mine]:
                        inv = [tok]
                    v.append(("consistency:one-substitute-per-original",
                              {"original": tok, "same_address_as": other, "substitute_of_that_spelling": osub},
                              {"original": tok, "substitute": sub, "event_output": out}, inv))
                    break
        info["tags"].add("%s:%s:%s%s" % (KIND[tok], rec, "same" if sub == tok else "sub",
                                         ":glued" if shape != "plain" else ""))
        if shape != "plain":
            info["glued"] = info.get("glued", 0) + 1
    if ev["mode"] != "content":
        info["tags"].add("mode:" + ev["mode"])
    if kws:
        text = "\n".join(event_lines(ev))
        for kw in kws:
            if kw not in new and kw in text:
                new[kw] = None                 # occurred in the content as part of another token
                info["tags"].add("kw:part-of-token")
    pairs = set((t, s_) for t, s_ in new.items() if s_ is not None) | set(live)
    # (2) distinct originals -> distinct substitutes (IPv4, host names), among replaced originals
    for kind in INJECTIVE_KINDS:
        bysub = {}
        issued = set()
        for subs in maps.get(kind, {}).values():
            issued.update(subs)
        for tok, sub in pairs:
            if KIND[tok] != kind:
                continue
            if sub == tok and not _listed_for(maps, kind, tok):
                if tok in issued:
                    info["unreplaced_equal_to_substitute"] += 1
                # left alone and unlisted. An original that is SUBJECT to obfuscation (any IPv4 address, a name of
                # the obfuscated domain) and is left as it is has itself as its substitute and takes part in (2);
                # a host name outside the obfuscated domain is not an original for the obfuscator at all (weak reading)
                if not (kind == "ip" or tok == SHORT or tok.endswith(DOMAIN_SUFFIX)):
                    continue
            bysub.setdefault(sub, set()).add(tok)
        for sub in sorted(bysub):
            toks = bysub[sub]
            if SHORT in toks and FQDN in toks:
                toks = toks - {SHORT}       # two spellings of one host
            if len(toks) > 1:
                v.append(("injectivity:distinct-originals-distinct-substitutes",
                          "distinct substitutes for %s" % sorted(toks),
                          {"substitute": sub, "originals": sorted(toks), "event_output": out}, sorted(toks)))
    # (3) + (4) on mapping()
    v.extend(check_listing(maps, pairs, set(new), "mapping:reports-observed-pair",
                           "mapping:lists-only-occurred-originals"))
    return v, new, info


def read_reports(cl, scratch_dir):
    """Runs the real report generation into the scratch dir and parses what it wrote."""
    arch = "c09arch"
    cl.generate_report(arch)
    with open(cl.rhsm_facts_file) as fh:
        facts = json.load(fh)
    fl = {}
    for key, kind in (("obfuscated_ipv4", "ip"), ("obfuscated_hostname", "host"), ("obfuscated_mac", "mac"),
                      ("obfuscated_keyword", "kw"), ("obfuscated_ipv6", "ipv6")):
        d = {}
        for m in json.loads(facts["insights_client." + key]):
            d.setdefault(m["original"], []).append(m["obfuscated"])
        fl[kind] = d
    cl_ = {}
    for suffix, kind in (("ip", "ip"), ("hostname", "host"), ("mac", "mac"), ("keyword", "kw"), ("ipv6", "ipv6")):
        d = {}
        path = os.path.join(scratch_dir, "%s-%s.csv" % (arch, suffix))
        with open(path) as fh:
            rows = fh.read().splitlines()[1:]
        for row in rows:
            a, _, b = row.partition(",")
            if kind == "kw":               # header "Replaced Keyword,Original Keyword" is ambiguous: accept both
                orig, sub = (a, b) if KIND.get(a) == "kw" else (b, a)
            else:                          # header "Obfuscated X,Original X"
                sub, orig = a, b
            d.setdefault(orig, []).append(sub)
        cl_[kind] = d
    return fl, cl_


def check_reports(cl, scratch_dir, obs):
    try:
        facts_listing, csv_listing = read_reports(cl, scratch_dir)
    except Exception as ex:
        return [("raises:generate_report", "no exception", repr(ex), [])]
    pairs = set((t, s_) for t, s_ in obs.items() if s_ is not None)
    occ = set(obs)
    v = []
    for clause, exp, got, inv in check_listing(facts_listing, pairs, occ, "report:facts-file-matches-observed",
                                               "report:facts-file-matches-observed"):
        v.append((clause, exp, got, inv))
    for clause, exp, got, inv in check_listing(csv_listing, pairs, occ, "report:csv-matches-observed",
                                               "report:csv-matches-observed"):
        v.append((clause, exp, got, inv))
    return v


# ---- structural triggers of the known defect families ---------------------------------------------

def _positions(line):
    first, last = {}, {}
    for i, t in enumerate(line):
        first.setdefault(t, i)
        last[t] = i
    return first, last


def trigger_features(event, involved, obs_before, maps_after):
    """Structural facts about the violating event, computed from the history (event, what the oracle had
    observed before it, what mapping() reports after it) - not from the failed clause.

    original_equals_issued_substitute_same_line (ipv4 / mac / ipv6): a line carries two originals a, b where b is
      textually the substitute owned by a, and a is substituted before some occurrence of b is processed
      (IPv4: longer first, ties by position; MAC, IPv6: by position) - sequential str.replace then rewrites a's
      fresh substitute together with b.
    hostname_suffix_of_other_same_line: a line carries two host names of the obfuscated domain where the one
      found first is a textual suffix of the other - str.replace rewrites the tail of the longer name.
    ipv6_substring_of_other_same_line: a line carries two IPv6 addresses where the one found first is a textual
      substring of the other - str.replace rewrites that part of the longer address.
    The trigger is reported only when every original involved in the violation is part of such a pair."""
    inv = set(involved)
    kinds = sorted(set(KIND.get(t, "unknown") for t in inv)) or ["none"]
    kind = kinds[0] if len(kinds) == 1 else "+".join(kinds)
    feats = {"trigger": "none", "kind": {"ip": "ipv4"}.get(kind, kind)}
    if not inv:
        return feats

    def owned(a):
        s = obs_before.get(a)
        if s is not None:
            return [s]
        return _listed_for(maps_after, KIND[a], a)

    cover_ip, cover_mac, cover_host, cover_v6, cover_v6sub = set(), set(), set(), set(), set()
    boundary = True
    for line in norm_event(event)["lines"]:
        first, last = _positions(line_originals(line))
        toks = list(first)
        for a in toks:
            for b in toks:
                if a == b or KIND.get(a) != KIND.get(b):
                    continue
                k = KIND.get(a)
                if k == "ip" and b in owned(a):
                    if len(a) > len(b) or (len(a) == len(b) and first[a] < last[b]):
                        cover_ip.update((a, b))
                elif k == "mac" and b in owned(a):
                    if first[a] < last[b]:
                        cover_mac.update((a, b))
                elif k == "host" and a.endswith(DOMAIN_SUFFIX) and b.endswith(a) and first[a] < first[b]:
                    cover_host.update((a, b))
                    if not b.endswith("." + a):
                        boundary = False
                elif k == "ipv6":
                    if b in owned(a) and (len(a) > len(b) or (len(a) == len(b) and first[a] < last[b])):
                        cover_v6.update((a, b))                # (longest first since the IPv6 fix; ties by position)
                    if a in b and first[a] < first[b]:
                        cover_v6sub.update((a, b))
    if inv <= cover_ip or inv <= cover_mac or inv <= cover_v6:
        feats["trigger"] = "original_equals_issued_substitute_same_line"
    elif inv <= cover_host:
        feats["trigger"] = "hostname_suffix_of_other_same_line"
        feats["suffix_at_label_boundary"] = boundary
    elif inv <= cover_v6sub:
        feats["trigger"] = "ipv6_substring_of_other_same_line"
    return feats


def forgive(new_obs, viols, feats):
    """Histories are continued PAST a violation when every violation of the event carries the structural trigger of
    a known defect family - at most MAX_FORGIVEN times per history and only within its first FORGIVE_WITHIN events: the originals involved are forgotten (they stay
    'occurred', nothing is remembered about their substitute), everything else is kept. -> the memory to continue with, or None = cut the branch.
    States that are only reachable through a trigger are thereby explored; any after-effect of the defect on other
    originals, or a second inconsistency of the forgotten ones later on, is still reported."""
    if not viols or any(f["trigger"] == "none" for f in feats):
        return None
    out = dict(new_obs)
    for _clause, _exp, _got, inv in viols:
        for t in inv:
            if t in out:
                out[t] = None
    return out


# ---- one transition ---------------------------------------------------------------------------------

_NOINFO = {"recurrences": 0, "tags": frozenset(), "unreplaced_equal_to_substitute": 0}


def step(cl, obs, event, kws=None):
    """Calls the real code once. -> (violations, new_obs, info, maps)"""
    ev = norm_event(event)
    try:
        out = execute(cl, ev)
    except Exception as ex:
        return [("raises:clean_content", "no exception", repr(ex), [])], dict(obs), dict(_NOINFO), {}
    try:
        maps = read_mappings(cl)
    except Exception as ex:
        return [("raises:mapping", "no exception", repr(ex), [])], dict(obs), dict(_NOINFO), {}
    v, new, info = oracle(obs, ev, out, maps, kws)
    return v, new, info, maps


MAX_FORGIVEN = 1      # a history is continued past at most one known-trigger event,
FORGIVE_WITHIN = 2    # and only when that event is its first or second one (measured: unrestricted continuation
                      # doubles the thorough tier to 9,500 CPU-s; a trigger at the last depth is a leaf anyway)


FORGIVEN_DEPTH = 3    # BFS histories that were continued past a trigger are explored to this depth (both tiers; the
                      # post-trigger subtrees to depth 4 alone cost 3,500 CPU-s in the thorough tier)


def may_forgive(forgiven_so_far, event_index):
    return forgiven_so_far < MAX_FORGIVEN and event_index < FORGIVE_WITHIN


def advance(cl, obs, event, with_reports, may_forgive=True, kws=None):
    """One event with the oracle and the continuation rule; with_reports adds clause (5) on the memory the history
    continues with. -> (violations, features, obs to continue with or None = cut, info, maps)"""
    v, new, info, maps = step(cl, obs, event, kws)
    feats = [trigger_features(event, inv, obs, maps) for _c, _e, _g, inv in v]
    cont = (forgive(new, v, feats) if may_forgive else None) if v else new
    if with_reports and cont is not None:
        v2 = check_reports(cl, cl.report_dir, cont)
        if v2:
            v = v + v2
            feats = feats + [trigger_features(event, inv, obs, maps) for _c, _e, _g, inv in v2]
            cont = forgive(cont, v, feats) if may_forgive else None
    return v, feats, cont, info, maps


def case_keywords(case):
    kws = list(case.get("keywords", KEYWORDS))
    if case.get("fqdn", FQDN) != FQDN or case.get("delimiter", DELIM) != DELIM or \
            not kws or any(KIND.get(k) != "kw" for k in kws):
        raise ValueError("fqdn and delimiter of a C09 case are fixed (%r %r); keywords must be known keyword tokens"
                         % (FQDN, DELIM))
    return kws


def run_history(case):
    """Replays a whole history on a fresh Cleaner; oracle (all five clauses) after every event; an event marked
    new_cleaner starts a second Cleaner in the same process with an empty oracle memory.
    -> ([(clause, expected, observed, features)], stats): the violations of the first event that violates without
    being forgiven (see forgive()), or of the last event."""
    if case.get("kind") == "fresh-process":
        return check_fresh_process(case), {"recurrences": 0, "events": len(case["second"])}
    hist = case["history"]
    kws = case_keywords(case)
    system = case.get("system")
    okws = kws if case.get("keywords_may_be_part_of_tokens") else None
    stats = {"recurrences": 0, "events": len(hist), "forgiven_events": 0}
    with tmp.scratch("c09") as d, system_seam(system):
        cl = new_cleaner(d, kws, system)
        obs = {}
        for i, event in enumerate(hist):
            if norm_event(event)["new_cleaner"]:
                cl = new_cleaner(d, kws, system)
                obs = {}
                stats["forgiven_events"] = 0
            v, feats, cont, info, _maps = advance(cl, obs, event, True, may_forgive(stats["forgiven_events"], i), okws)
            stats["recurrences"] += info["recurrences"] + info.get("spellings", 0)
            if v and (cont is None or i == len(hist) - 1):
                out = []
                for (clause, exp, got, _inv), f in zip(v, feats):
                    f = dict(f)
                    f["violating_event_index"] = i
                    out.append((clause, exp, got, f))
                return out, stats
            if v:
                stats["forgiven_events"] += 1
            obs = cont
    return [], stats


def check_case(case):
    return run_history(case)[0]


def raw_run(history, keywords=None):
    """Outputs and mappings of a history on a fresh Cleaner, without any oracle (used across processes)."""
    res = []
    with tmp.scratch("c09r") as d:
        cl = new_cleaner(d, keywords)
        for event in history:
            out = execute(cl, norm_event(event))
            res.append([out, json.loads(json.dumps(read_mappings(cl), sort_keys=True))])
    return res


def check_fresh_process(case):
    """case = {"kind": "fresh-process", "history": H1, "second": H2}: a second Cleaner created in this process after
    H1 ran on a first one must behave on H2 exactly like a Cleaner in a fresh interpreter (no class-level or
    module-level table may leak from one collection run into the next)."""
    import subprocess
    import sys
    raw_run(case["history"])
    here = raw_run(case["second"])
    root = os.path.dirname(os.path.dirname(os.path.abspath(__file__)))
    code = ("import sys, json, logging; logging.disable(logging.CRITICAL); sys.path.insert(0, %r); sys.path.insert(0, %r); "
            "from props import c09; print(json.dumps(c09.raw_run(json.loads(sys.argv[1])), sort_keys=True))"
            % (root, os.environ.get("VERIF_REPO", "/repo")))
    env = dict(os.environ)
    env["PYTHONHASHSEED"] = "0"
    p = subprocess.run([sys.executable, "-c", code, json.dumps(case["second"])], env=env,
                       stdout=subprocess.PIPE, stderr=subprocess.PIPE, timeout=300)
    if p.returncode != 0:
        raise RuntimeError("fresh-process helper failed: %s" % p.stderr.decode("utf-8", "replace")[-800:])
    fresh = json.loads(p.stdout.decode("utf-8"))
    if json.loads(json.dumps(here, sort_keys=True)) != fresh:
        return [("isolation:second-cleaner-equals-fresh-process", fresh, here, {"trigger": "none", "kind": "none"})]
    return []


def replay(case):
    out = []
    for clause, exp, got, f in check_case(case):
        f = dict(f)
        f.pop("violating_event_index", None)
        out.append({"clause": clause, "case": case, "expected": exp, "observed": got, "features": f})
    return out


def mk_case(hist, keywords=None, **extra):
    case = {"fqdn": FQDN, "keywords": list(keywords or KEYWORDS), "delimiter": DELIM, "history": hist}
    case.update(extra)
    return case


# ---- event menus, units ------------------------------------------------------------------------------

def menu(fam, tier):
    b = BOUNDS[tier]["families"][fam]
    base = FAMILIES[fam]
    a = base + EXTRA[fam]           # lines of 1-2 tokens and the 2-line specs use the glued / case-variant tokens too
    evs = []
    for n in range(1, b["line_tokens"] + 1):
        for toks in itertools.product(a if n <= 2 else base, repeat=n):
            evs.append([list(toks)])
    for x, y in itertools.product(a, repeat=2):
        evs.append([[x], [y]])
    return evs


def event_families(event):
    return set(TOKEN_FAMILY[KIND[t]] for line in norm_event(event)["lines"] for t in line_originals(line))


def obs_families(obs):
    return set(TOKEN_FAMILY[KIND[t]] for t in obs)


def skipped(fam, obs, event):
    """The mixed family leaves single-family histories to the single-kind families."""
    if fam != "mixed":
        return False
    return len(obs_families(obs) | event_families(event)) == 1


# ---- the "shapes" family: explicit short histories over token shapes, channels and call options -----------

SH = {"ip": IPS + BOUNDARY_IPS, "host": HOSTS + [HOST_CASE_VARIANT, OBF_FQDN], "mac": MACS + BOUNDARY_MACS, "ipv6": V6S}
SH_SMALL = {"ip": IPS, "host": HOSTS, "mac": MACS, "ipv6": V6S}
# literal text that may sit directly between / next to originals. Only characters the unchanged code treats as a
# boundary for the kind are used: a word character glued to the LEFT of an IPv4 address or of a host name makes it
# a different word for the detection patterns (C08 excludes those as well); ':' and '-' next to a MAC are C08's known
# finding; '-' '_' '.' are host-name characters; IPv6 takes '(' '=' ')' '/64'.
DELIMS = {"ip": [":", "/", ",", "=", "-", "("], "host": [":", "/", ",", "=", "(", "@"], "mac": ["/", ",", "=", "(", "_"]}
RIGHT_GLUE = {"ip": ["", "x", "_y", ".", ":80", "/24", "X9"], "host": ["", "x", ":22", "/", "_y"],
              "mac": ["", "x", "g", "_", ")"], "ipv6": ["", "/64", ")"]}
LEFT_GLUE = {"ip": ["", "-", "=", "(", "/", ":"], "host": ["", "=", "(", "@"], "mac": ["", "x", "=", "("],
             "ipv6": ["", "(", "="]}
EXEMPT_NAME = {"ip": "ip", "host": "hostname", "mac": "mac", "ipv6": "ipv6"}
CHANNELS = {"ip": MODES, "host": ("content", "string", "file"), "mac": ("content", "string", "file"),
            "ipv6": ("content", "string", "file")}
SHAPE_CHUNK = 250
_SHAPES = {}


def shape_cases():
    """group -> list of case descriptors (deterministic, no repetition)."""
    if _SHAPES:
        return _SHAPES
    g = _SHAPES
    pairs = lambda xs: itertools.product(xs, repeat=2)
    # adjacent: two originals of one kind separated by a single delimiter character inside one token,
    # before / after their plain occurrences; and both glued on one line
    adj = g.setdefault("adjacent", [])
    for kind in ("ip", "host", "mac"):
        for a, b in pairs(SH[kind]):
            for d in DELIMS[kind]:
                adj.append(mk_case([[[a, b]], [[[a, d, b]]]]))
                adj.append(mk_case([[[[a, d, b]]], [[b], [a]]]))
            adj.append(mk_case([[[a, b]], [[[a, "x"], [b, "_y"]]]]))
            adj.append(mk_case([[[[a, "_y"], [b, "x"]]], [[b, a]]]))
    # glue: one original with literal text directly on its left and / or right, before / after a plain occurrence
    glue = g.setdefault("glue", [])
    for kind in ("ip", "host", "mac", "ipv6"):
        for a in SH[kind]:
            for l, r in itertools.product(LEFT_GLUE[kind], RIGHT_GLUE[kind]):
                if not l and not r:
                    continue
                tok = ([l] if l else []) + [a] + ([r] if r else [])
                glue.append(mk_case([[[a]], [[tok]]]))
                glue.append(mk_case([[[tok]], [[a]]]))
    # channels: the same originals through clean_content(list) / clean_content(str) / width=True / clean_file /
    # clean_file on netstat_-neopa, in every ordered pair of channels on ONE Cleaner
    chan = g.setdefault("channels", [])
    for kind in ("ip", "host", "mac", "ipv6"):
        for a, b in pairs(SH_SMALL[kind]):
            for m1, m2 in pairs(CHANNELS[kind]):
                if (m1, m2) == ("content", "content"):
                    continue
                chan.append(mk_case([{"lines": [[a, b]], "mode": m1}, {"lines": [[b, a]], "mode": m2}]))
    for a, b in pairs(IPS):
        for m in ("file", "file-netstat", "width"):
            chan.append(mk_case([{"lines": [[a], [b]], "mode": m}, [[b, a]]]))
    for a, h, m in itertools.product(IPS[:3], HOSTS, ("file", "file-netstat", "string", "width")):
        chan.append(mk_case([[[a, h, MAC1]], {"lines": [[MAC1, h, a, "SECRETKW"]], "mode": m}]))
    # exempt: a spec exempted through no_obfuscate between / around specs that are not
    ex = g.setdefault("exempt", [])
    for kind in ("ip", "host", "mac", "ipv6"):
        name = EXEMPT_NAME[kind]
        for a, b in pairs(SH_SMALL[kind]):
            n1, n2 = [[a, b]], [[b, a]]
            e = {"lines": [[a, b]], "no_obfuscate": [name]}
            ex.append(mk_case([n1, e, n2]))
            ex.append(mk_case([e, n1, e, n2]))
            ex.append(mk_case([e, {"lines": [[b], [a]], "no_obfuscate": [name]}, n2]))
    for a, h in itertools.product(IPS[:3], HOSTS):
        for name in ("ip", "hostname", "mac", "keyword"):
            e = {"lines": [[a, h, MAC1, "SECRETKW"]], "no_obfuscate": [name]}
            ex.append(mk_case([e, [[h, a, "SECRETKW", MAC1]], e]))
    # kw11: eleven configured keywords (keyword0 .. keyword10)
    kw = g.setdefault("kw11", [])
    for a, b in pairs(KW11):
        kw.append(mk_case([[[a, b]], [[b], [a]]], KW11))
    kw.append(mk_case([[list(KW11)], [list(reversed(KW11))], [[KW11[10], KW11[1]]]], KW11))
    # second-cleaner: a second Cleaner in the same process starts from nothing (oracle memory reset, clause 4
    # is evaluated against what the second one was fed)
    sec = g.setdefault("second-cleaner", [])
    for kind in ("ip", "host", "mac", "ipv6"):
        for a, b, c in itertools.product(SH_SMALL[kind], repeat=3):
            sec.append(mk_case([[[a, b]], {"lines": [[c]], "new_cleaner": True}, [[c, a]]]))
    # blank: empty lines inside a spec and an all-blank spec inside a history
    bl = g.setdefault("blank", [])
    for a, b in pairs(IPS):
        bl.append(mk_case([[[a], [], [b]], [[b, a]]]))
        bl.append(mk_case([[[], [a]], [[b], []], [[a, b]]]))
        bl.append(mk_case([{"lines": [[a], [], [b]], "mode": "file"}, [[]], [[b, a]]]))
    # spellings: every ordered pair of spellings of one address, on one line / on later lines / through other channels
    sp = g.setdefault("spellings", [])
    for group in SPELL_V6 + SPELL_MAC + SPELL_IP4:
        for x, y in pairs(group):
            sp.append(mk_case([[[x]], [[y, x]]]))
            sp.append(mk_case([[[x, y]], [[y], [x]]]))
            sp.append(mk_case([{"lines": [[x]], "mode": "string"}, {"lines": [[y], [x, y]], "mode": "file"}]))
    for x, y in itertools.product(SPELL_V6[0], SPELL_V6[1]):
        sp.append(mk_case([[[x, y]], [[SPELL_V6[1][0], SPELL_V6[0][2]]], [[y, x]]]))
    # overlap: a configured keyword that is a textual part of a host name / IPv4 / IPv6 original; every ordered pair of
    # originals of the kind of which at least one contains the keyword, through specs that exempt nothing / the
    # keyword replacement / the kind itself, in the orders below; and the keyword as a token of its own next to it
    ov = g.setdefault("overlap", [])
    for kind in ("host", "ip", "ipv6"):
        name = EXEMPT_NAME[kind]
        for kw in OVERLAP_KWS[kind]:
            for kwl in ([KEYWORDS[0], kw], [kw, KEYWORDS[0]]):
                mk = lambda h: mk_case(h, kwl, keywords_may_be_part_of_tokens=True)
                for a, b in pairs(SH_SMALL[kind]):
                    if kw not in a and kw not in b:
                        continue
                    n1, n2 = [[a, b]], [[b], [a]]
                    ek = lambda ls: {"lines": ls, "no_obfuscate": ["keyword"]}
                    eo = lambda ls: {"lines": ls, "no_obfuscate": [name]}
                    if kwl[0] == kw and a != b:
                        continue               # the second keyword order only for the one-original histories
                    ov.append(mk([n1, ek(n2), n1]))
                    ov.append(mk([ek(n1), n2]))
                    ov.append(mk([eo(n1), n1, ek(n2)]))
                    ov.append(mk([[[kw, a], [b]], ek([[b, kw, a]]), [[a, b, kw]]]))
    # sysname: how the Cleaner learns the system's own name - fqdn argument explicit / absent / None / "" x display name
    # absent / empty / outside the domain / inside the domain / equal to the FQDN x what the resolver calls answer
    sy = g.setdefault("sysname", [])
    sys_hists = []
    others = ["db.corp.test"] + DISPLAY_NAMES
    for o in others:
        sys_hists.append([[[FQDN, o]], [[SHORT], [FQDN]]])
        sys_hists.append([[[SHORT]], [[o, FQDN]], [[FQDN, SHORT]]])
    sys_hists.append([[[FQDN]]])
    sys_hists.append([[["db.corp.test"]], [[SHORT, "mail.corp.test"]]])
    for how in FQDN_ARGS:
        for dn in [None, ""] + DISPLAY_NAMES + [FQDN]:
            for rname in sorted(RESOLVERS):
                if how == "explicit" and rname != "short+fqdn":
                    continue                   # the resolver is not consulted (measured by the other rows) - one row is enough
                for h in sys_hists:
                    sy.append(mk_case(h, system={"fqdn_arg": how, "display_name": dn, "resolver": rname}))
    # fresh-process: the second Cleaner of a process against the first Cleaner of a fresh interpreter
    fp = g.setdefault("fresh-process", [])
    h1 = [[["1.2.3.4", "db.corp.test"], [MAC1, "SECRETKW"]], [["10.1.1.1", V6_1, "mail.corp.test"]]]
    for h2 in ([[["100.200.100.200", "b.corp.test", MAC1]]],
               [[["1.2.3.4"], ["web01", "db.corp.test"]], [[V6_1, "52-54-00-12-34-56", "SECRETKW", "1.2.3.4"]]],
               [[["10.230.230.2", "a.b.corp.test"]], [["10.230.230.1", "mail.corp.test", "db.corp.test"]]]):
        fp.append({"kind": "fresh-process", "history": h1, "second": h2})
    return g


_DEPTH1 = {}


def depth1(fam, tier):
    """Global de-duplication of depth-1 states: -> (groups, keys)
    groups: list of representative first-event indices (one per distinct depth-1 state the search continues from),
    keys: set of canonical keys of all those states. Computed once in the parent (forked workers inherit it)."""
    k = (fam, tier)
    if k in _DEPTH1:
        return _DEPTH1[k]
    evs = menu(fam, tier)
    reps, keys = [], {}
    with tmp.scratch("c09u") as d:
        snaps = Snapshots(d)
        init = snaps.take(new_cleaner(d), [])
        for i, ev in enumerate(evs):
            cl = snaps.give(init)
            v, _feats, cont, _info, maps = advance(cl, {}, ev, True)
            if cont is None:                    # cut: reported by the depth1 unit
                continue
            key = (canon(maps, cont), 1 if v else 0)
            if key not in keys:
                keys[key] = i
                reps.append(i)
    _DEPTH1[k] = (reps, set(keys))
    return _DEPTH1[k]


def units(tier, seed):
    us = []
    for kind in ("ip", "host"):
        for order in ("asc", "desc", "revisit"):
            us.append({"fam": "counter", "part": "longrun", "kind": kind, "order": order})
    for group, cases in sorted(shape_cases().items()):
        for lo in range(0, len(cases), SHAPE_CHUNK):
            us.append({"fam": "shapes", "part": "cases", "group": group, "lo": lo, "hi": min(len(cases), lo + SHAPE_CHUNK)})
    for fam in FAMILY_ORDER:
        us.append({"fam": fam, "part": "depth1"})
        if BOUNDS[tier]["families"][fam]["depth"] < 2:
            continue
        reps, _keys = depth1(fam, tier)
        evs = menu(fam, tier)
        for i in reps:
            us.append({"fam": fam, "part": "subtree", "first": evs[i]})
    return us


def unit_weight(u):
    w = {"ip": 4, "mixed": 3, "host": 2, "mk": 1, "v6": 1, "counter": 5, "shapes": 1}[u["fam"]]
    return w if u["part"] in ("subtree", "longrun") else 0


# ---- exploration --------------------------------------------------------------------------------------

CONFIRM_PER_KIND = 4
CROSSCHECK_EVERY = 53


def _fkey(clause, feats):
    return (clause, json.dumps(feats, sort_keys=True))


def _strip_index(f):
    return {x: y for x, y in f.items() if x != "violating_event_index"}


def run_unit(unit, tier):
    res = Result()
    fam = unit["fam"]
    if unit["part"] == "longrun":
        hist = long_history(unit["kind"], unit["order"])
        case = mk_case(hist)
        vio = check_case(case)
        res.case(nontrivial=True, outcome="long:%s:%d" % (unit["kind"], len(vio)), sample={"counter_family": unit, "events": len(hist)})
        res.states += len(hist)
        res.transitions += len(hist)
        res.traces += 1
        res.maxi("max_history_length", len(hist))
        for clause, exp, got, f in vio:
            k = f.get("violating_event_index", len(hist) - 1)
            res.violation(clause, mk_case(hist[:k + 1]), exp, got, _strip_index(f))
        return res
    if unit["part"] == "cases":
        group = unit["group"]
        cases = shape_cases()[group][unit["lo"]:unit["hi"]]
        for case in cases:
            vio, stats = run_history(case)
            res.case(nontrivial=stats["recurrences"] > 0,
                     outcome="shape:%s:%s" % (group, ",".join(sorted(set("%s/%s" % (c, f.get("trigger")) for c, _e, _g, f in vio)))))
            res.traces += 1
            res.transitions += stats["events"]
            res.stat("shape_cases_" + group)
            if stats.get("forgiven_events"):
                res.stat("shape_cases_continued_past_known_trigger")
            for clause, exp, got, f in vio:
                vc = case
                k = f.get("violating_event_index")
                if k is not None and "history" in case and case.get("kind") is None and k < len(case["history"]) - 1:
                    vc = dict(case)
                    vc["history"] = case["history"][:k + 1]
                res.violation(clause, vc, exp, got, _strip_index(f))
        if cases:
            res.samples.append(cases[len(cases) // 2])
        return res
    depth_bound = BOUNDS[tier]["families"][fam]["depth"]
    evs = menu(fam, tier)
    confirmed = {}
    newstates = [0]

    with tmp.scratch("c09") as d:
        snaps = Snapshots(d)
        res.notes.append("state snapshots by %s of the whole live Cleaner" % snaps.mode)
        init = snaps.take(new_cleaner(d), [])

        def record(hist, event, viols, feats):
            """Violations of one transition. Each kind is first re-executed from the initial state through
            check_case (the replay entry point); the explorer and the replay must agree."""
            res.stat("violating_transitions")
            case = mk_case(hist + [event])
            replayed = None
            for (clause, exp, got, _inv), f in zip(viols, feats):
                k = _fkey(clause, f)
                if confirmed.get(k, 0) < CONFIRM_PER_KIND:
                    if replayed is None:
                        replayed = check_case(case)
                        res.stat("full_replays_from_initial_state")
                    same = [r for r in replayed if r[0] == clause and _strip_index(r[3]) == f]
                    if not same or same[0][3].get("violating_event_index") != len(hist):
                        raise RuntimeError("explorer and replay disagree on %r: explorer %r / replay %r"
                                           % (case, (clause, f), replayed))
                    confirmed[k] = confirmed.get(k, 0) + 1
                res.violation(clause, case, exp, got, f)
                res.outcomes.add("viol:%s:%s" % (clause, f.get("trigger")))

        def transition(hist, snap, obs, nforg, event):
            """-> (key, live Cleaner, obs, maps, forgiven so far) of the successor, or None when the branch is cut."""
            cl = snaps.give(snap)
            v, feats, cont, info, maps = advance(cl, obs, event, False, may_forgive(nforg, len(hist)))
            res.evals += 1
            res.transitions += 1
            res.traces += 1            # one more distinct history whose last step ran against the real code
            res.stat("transitions_" + fam)
            if info["recurrences"]:
                res.nontrivial += 1
                res.stat("recurring_occurrences_compared", info["recurrences"])
            if info.get("glued"):
                res.stat("glued_occurrences_observed", info["glued"])
            if info.get("spellings"):
                res.stat("spelling_variant_comparisons", info["spellings"])
            if info["unreplaced_equal_to_substitute"]:
                res.stat("transitions_with_unreplaced_original_equal_to_issued_substitute")
            res.outcomes.add(",".join(sorted(info["tags"])))
            if v:
                record(hist, event, v, feats)
                if cont is None:
                    return None
                res.stat("transitions_continued_past_known_trigger")
                nforg += 1
            return (canon(maps, cont), nforg), cl, cont, maps, nforg

        def admit(hist, event, cl, obs, before, maps):
            """A newly discovered state (cl is the live Cleaner in exactly that state): clause (5) on the real
            reports; sampled snapshot-vs-replay check. -> snapshot, or None when the state violates."""
            res.stat("states_report_checked")
            v = check_reports(cl, d, obs)
            if v:
                record(hist, event, v, [trigger_features(event, inv, before, maps) for _c, _e, _g, inv in v])
                return None
            snap = snaps.take(cl, hist + [event])
            newstates[0] += 1
            if newstates[0] % CROSSCHECK_EVERY == 0:
                with tmp.scratch("c09x") as d2:
                    c2 = new_cleaner(d2)
                    for e in hist + [event]:
                        execute(c2, norm_event(e))
                    res.stat("full_replays_from_initial_state")
                    if canon(read_mappings(c2), {}) != canon(read_mappings(snaps.give(snap)), {}):
                        raise RuntimeError("restored snapshot differs from the replayed history %r" % (hist + [event],))
            return snap

        if unit["part"] == "depth1":
            res.states = 1
            seen = set()
            for ev in evs:
                if skipped(fam, {}, ev):
                    continue
                t = transition([], init, {}, 0, ev)
                if t is None:
                    continue
                key, cl2, obs2, maps2, _n2 = t
                if key in seen:
                    continue
                if admit([], ev, cl2, obs2, {}, maps2) is not None:
                    seen.add(key)
                    res.states += 1
                    res.maxi("max_originals_in_a_state", len(obs2))
            res.maxi("depth_completed_" + fam, 1)
            res.samples.append(mk_case([evs[len(evs) // 2]]))
            return res

        # subtree below one distinct depth-1 state
        first = unit["first"]
        cl1 = snaps.give(init)
        v1, _feats, obs1, _info, maps1 = advance(cl1, {}, first, True)
        if obs1 is None:
            raise RuntimeError("first event of a subtree unit is cut: %r" % (first,))
        n1 = 1 if v1 else 0
        s1 = snaps.take(cl1, [first])
        _reps, keys1 = depth1(fam, tier)
        if (canon(maps1, obs1), n1) not in keys1:
            raise RuntimeError("depth-1 state of %r not in the global depth-1 table" % (first,))
        seen = set(keys1)          # every depth-1 state is expanded by its own unit
        frontier = [([first], s1, obs1, n1)]
        depth = 1
        while frontier and depth < depth_bound:
            nxt = []
            for hist, snap, obs, nforg in frontier:
                if nforg and len(hist) >= FORGIVEN_DEPTH:
                    continue
                for ev in evs:
                    if skipped(fam, obs, ev):
                        continue
                    t = transition(hist, snap, obs, nforg, ev)
                    if t is None:
                        continue
                    key, cl2, obs2, maps2, n2 = t
                    if key in seen:
                        continue
                    s2 = admit(hist, ev, cl2, obs2, obs, maps2)
                    if s2 is not None:
                        seen.add(key)
                        res.states += 1
                        res.maxi("max_originals_in_a_state", len(obs2))
                        nxt.append((hist + [ev], s2, obs2, n2))
            frontier = nxt
            depth += 1
        res.maxi("depth_completed_" + fam, depth)
        res.stat("frontier_states_left_at_depth_bound", len(frontier))
        if frontier:
            res.samples.append(mk_case(frontier[len(frontier) // 2][0]))
        return res
