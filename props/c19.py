"""C19 - parser combinators implement ordered-choice PEG semantics.

Exhaustive explorations against the real code:

  terms    every grammar term with <= N nodes over a CORE alphabet (10 leaves, 10 unary, 11 binary
           constructors: Char, InSet, String, Literal (plain / ignore_case / value=), AnyChar, EOF; Many with
           lower 0/1/2, Opt with default None / "D", Map (total function whose image contains None, 0, ""),
           Map and Lift (1 and 2 arguments) whose function raises Backtrack, Wrapper, PosMarker; + | << >>
           & /, Until, Lift, sep_by, one Forward recursion) and every term with <= N-1 nodes that contains
           an EXTENDED symbol (Literal value=None, Many lower=3, Opt default 0, `% name`, debug(), the same
           parser OBJECT used twice in a sequence / re-tried in a second alternative).  Terms are built
           with the library's own operators (so the accumulating `+` / `|` are exercised, with and without
           Wrapper).  ONE parser object per term is run on every input over {a,b,A} of length <= 4 (plus
           every input over {a, newline} with a newline for terms containing PosMarker) through the
           documented process(pos, data, ctx) protocol on a fresh Context, through __call__ (all inputs
           for the smaller terms, inputs of length <= 2 for the largest), and - smaller terms - a second
           time in reverse order; every result is compared with a reference PEG interpreter
           (ref/c19_peg.py) on accept/reject, end position and value (type-strict: 0 is not None is not
           "" is not []).  (term, input) pairs on which the reference applies a repetition to a sub-term
           that succeeds without consuming are outside the quantifier and skipped.  The implementation
           runs under a budget (process() calls counted through a Context subclass, plus a CPU-time
           alarm), so non-termination is a reported divergence and not a hang.
  shapes   (family "shapes" of the terms part) every way of ASSOCIATING 2..3 (thorough: 2..4) applications of
           the binary operator forms + | << >> & / and Lift's * - all binary tree shapes (left-nested,
           right-nested, mixed) x every operator at every inner node, leaves from {Char a, InSet ab} for two
           operators (thorough: also String min 0 and EOF; three operators over two leaves) and InSet ab
           for more - and the 2-operator (thorough: 3) trees with ONE unary constructor (Many lower 0 / 1,
           Opt, map, Wrapper, `% name`, debug()) on the root or on an operator node below the root; same
           schedule and same reference as above, i.e. the STRUCTURE of the value is compared (the
           accumulating operators must flatten a left operand of their own kind and nothing else:
           a + (b + c) -> [va, [vb, vc]], (a + b) + c -> [va, vb, vc])
  json     every JSON value of depth <= 3 over {0, 7, -3, 2.5, "s", "", "a\"b", true, false, null,
           [], {}}, four whitespace renderings (compact, json.dumps default, indented, padded = JSON
           whitespace around every token), insights.parsr.examples.json_parser.loads vs json.loads
  jsonx    duplicate keys, 3-4 elements, strings made of structural characters, multi-digit numbers,
           nesting up to 12 (30) deep - through loads() and load(file)
  jsonnum  number literals as text, -?(0|[1-9][0-9]*)(.[0-9]+)? : every integer within +-2 (thorough +-8) of
           2**31, 2**32, 2**53, 2**63, 2**64, 10**15..17, 10**22, 10**23, 2**100, 2**1023, the largest
           double, 2**1024, 10**308, 10**309, written as integer / with .0 / with .5; 10**(k-1) and 10**k-1
           for k = 1..24, 300, 308..311, 400, 1000; fractions with up to 40 digits and up to 400 leading
           zeros; both signs; six document frames (bare, padded, array, second of three, object value,
           nested pair); loads() and load(file) vs json.loads, TYPE-exact (int is not float) and VALUE-exact
           (integers exactly, floats the same double incl. the sign of zero)
  jsonedit every depth <= 2 document with one token deleted or one comma inserted: what json.loads
           rejects must be rejected, what it still accepts must mean the same
  taglang  every tag expression AST of depth <= 3 (bare / quoted tags, regex atoms, ! & | ,), up to
           four renderings (minimal or full parentheses x with or without optional spaces), 11 tag
           sets (the 8 subsets of {a,b,c} and three with tags that extend a, b), asked as pred(list)
           and pred.test(set), insights.core.taglang.parse vs Boolean evaluation under  ! > & > | = ,
  tagx     atoms that are prefixes of each other / contain operator characters or blanks in quotes /
           regex metacharacters, on all 128 subsets of their universe; parentheses and negations
           nested 8 deep
  tagedit  every depth <= 2 expression with one token deleted, "", blanks only, dangling operators:
           malformed text must be rejected, text that stays well-formed must mean what its tokens say

The reference interpreter is cross-checked against a second formulation (bottom-up tabular
evaluation) on a stated sub-space in every run; a disagreement is a harness error, not a verdict.

State and histories: the schedule above runs ~250 operations on one parser object; a disagreement is
re-decided on a fresh object, then after the operations that preceded it on the same object, then
after the earlier grammars of the unit in the same process (every unit runs in a forked child that
has never run a parser, which is the state a fresh replay starts from); the first variant that
reproduces it is the recorded case.

What the oracle deliberately does not demand (DESIGN.md section 3):
  * no space is put between `!` and its operand in tag expressions (the docs never show one), and
    an unquoted regex atom is always followed by a space (documented: it runs to the next blank).
  * JSON texts outside the documented subset are not generated: leading zeros, single-quoted strings,
    backslash escapes other than \", exponents (so large / small floats are written out in digits), non-ASCII.
  * the side-stack combinators StartTagName / EndTagName / WithIndent / HangingString (not in the
    statement's list; the INI grammar built on them is C15's), Map / Lift functions raising something
    other than Backtrack (documented to abort the parse), the TEXT of error messages.

sep_by is read by its docstring, "zero or more instances of the current parser separated by instances
of sep": x (sep x)* or nothing.  On the unchanged tree its definition Opt(x) then Many(sep >> x) also
consumes "sep x" when no instance precedes the separator; that is reported (findings-draft/C19.json)
under a clause of its own, only when the definitional expansion explains the observation completely,
and as `[,7]` -> [7] in the JSON grammar.
"""
import io
import itertools
import json
import os
import pickle
import re
import signal
import time
import traceback

from mc.result import Result, canon_json
from mc import enumx
from ref import c19_peg as peg

ID = "C19"
LEVEL = "exploration"
RULE = ("terms: all grammar terms with <= N nodes over the core alphabet (10 leaves, 10 unary, 11 binary constructors "
        "incl. Lift/Map with Backtrack and one Forward recursion) and all terms with <= N-1 nodes containing an extended "
        "symbol (None-valued literal, Many lower=3, Opt default 0, naming, debug(), one parser object used twice), plus the operator-shape family (all binary trees of 2..K applications of "
        "+ | << >> & / and Lift's * with every operator at every node, and those trees with one unary constructor on the "
        "root or on an operator node below it) x all "
        "121 inputs over {a,b,A} of length <= 4 (+ 26 inputs with newlines for PosMarker terms), minus the pairs on "
        "which the reference applies a repetition to a sub-term that succeeds without consuming (outside the "
        "quantifier); one evaluation = one (term, input) pair through process(); __call__ and second-pass runs on the "
        "same parser object are counted separately; non-trivial = the reference evaluation absorbed at least one failure "
        "(a choice/option/repetition/look-ahead continued after a failed sub-term, i.e. backtracking happened) on a "
        "non-empty input. json: all values of depth <= 3 (bounded width) x 4 whitespace renderings, plus closed families "
        "of wider / deeper / duplicate-key / special-scalar documents and single-token edits; non-trivial = the value is "
        "a container; number literals (text, no exponent) at and around the integer / double representation boundaries "
        "x 6 document frames, type- and value-exact; non-trivial = the literal has more than 15 significant digits. taglang: all ASTs of depth <= 3 x distinct renderings x 11 tag sets, plus special atoms, deep "
        "nesting and single-token deletions; non-trivial = the AST has >= 2 operators of different precedence levels")
ASSUMPTIONS = [
    "ref/c19_peg.py states the meaning of each combinator as documented in insights/parsr/__init__.py; it is "
    "cross-checked against an independent bottom-up tabular formulation on a sub-space in every run",
    "sep_by is read by its docstring: instances of x separated by sep, x (sep x)* or nothing, value = the values of "
    "the matched instances (None, 0, '' and [] included)",
    "json.loads is the meaning of a JSON document; the documented subset is ASCII, no exponent, no leading zeros, "
    "double-quoted strings, no escapes other than \\\"; number literals -?(0|[1-9][0-9]*)(.[0-9]+)? of any length are inside it "
    "(integers are exact in json.loads, fractions the nearest double)",
    "a tag expression is malformed iff its token list does not derive from expr := term ((|/,) term)*, "
    "term := factor (& factor)*, factor := [!] (atom | '(' expr ')')",
    "bounded: no counterexample within the stated term size / input length / value depth, nothing more",
]

BOUNDS = {
    "quick": {"term_nodes": 4, "extended_term_nodes": 3, "input_len": 4, "call_nodes": 3, "xref_ext_full": 3, "xref_short": 1,
              "xref": "<=3 nodes x all inputs, 4 nodes x len<=1",
              "shape_operators": 3, "shape_operators_two_leaves": 2, "shape_wrapped_operators": 2, "xref_shapes_full": 5,
              "json_depth": 3, "json_width": 2, "json_depth3": "one non-atomic child per container",
              "json_nesting": 12, "json_number_boundaries": 16, "json_number_span": 2, "json_number_frames": 6,
              "tag_depth": 3, "tag_atoms": 5},
    "thorough": {"term_nodes": 5, "extended_term_nodes": 4, "input_len": 4, "call_nodes": 4, "xref_ext_full": 3, "xref_short": 2,
                 "xref": "<=4 nodes x all inputs (extended: <=3), larger x len<=2",
                 "shape_operators": 4, "shape_operators_two_leaves": 3, "shape_wrapped_operators": 3, "xref_shapes_full": 5,
                 "json_depth": 3, "json_width": 2, "json_depth3": "all children of depth <= 2",
                 "json_nesting": 30, "json_number_boundaries": 47, "json_number_span": 8, "json_number_frames": 6,
                 "tag_depth": 3, "tag_atoms": 7},
}
CAP_S = {"quick": 300, "thorough": 2400}

STEP_BUDGET = 5000          # process() calls per parse; legitimate parses here need < 200
CPU_GUARD_S = 1             # user-mode CPU seconds of this process per term (121 parses normally take ~2 ms)
DOC_GUARD_S = 1             # ... per JSON document / tag expression (normally ~0.3 ms)
MAX_HANGS_PER_UNIT = 3      # a unit is abandoned (exhaustive: false) after that many non-terminating cases
UNIT_CPU_S = {"quick": 120, "thorough": 900}   # a unit normally needs 1-10 CPU-s; beyond this it is abandoned and the
                                               # run reports exhaustive: false (never decides a verdict)

SIGMA = "abA"
INPUTS = [""] + ["".join(p) for n in (1, 2, 3, 4) for p in itertools.product(SIGMA, repeat=n)]

# ---------------------------------------------------------------------------------------------
# term alphabet
# ---------------------------------------------------------------------------------------------
# CORE symbols are enumerated up to the full term size of the tier; EXTENDED symbols (boundary values,
# naming / debug(), the same parser object used twice) up to one node less, and only in terms that
# contain at least one of them (so no term is enumerated twice).

LEAVES = [("char", "a"), ("char", "b"), ("inset", "ab"), ("string", "a", 1), ("string", "ab", 0),
          ("lit", "ab", False), ("lit", "Ab", True), ("litv", "ab", 0), ("any",), ("eof",)]
EXT_LEAVES = [("litv", "b", None)]
BINARY = ["seq", "alt", "kl", "kr", "fb", "nfb", "until", "lift", "liftbt", "sepby", "rec"]


def unary(x):
    return [("many", x, 0), ("many", x, 1), ("many", x, 2), ("opt", x, None), ("opt", x, "D"),
            ("map", x), ("mapbt", x), ("lift1bt", x), ("wrap", x), ("mark", x)]


def ext_unary(x):
    return [("many", x, 3), ("opt", x, 0), ("named", x), ("debug", x), ("twice", x), ("retry", x)]


_TERMS = {}
_EXT_IDS = set()            # ids of enumerated terms that contain an extended symbol (terms are kept alive in _TERMS)


def terms_of_size(n, ext=False):
    """All terms with exactly n nodes over the core (ext=False) or core+extended alphabet, canonical
    order; sub-terms are shared objects."""
    key = (n, ext)
    if key in _TERMS:
        return _TERMS[key]
    if n == 1:
        out = list(LEAVES)
        if ext:
            out += EXT_LEAVES
            _EXT_IDS.update(id(x) for x in EXT_LEAVES)
    else:
        out = []
        for x in terms_of_size(n - 1, ext):
            us = unary(x)
            if id(x) in _EXT_IDS:
                _EXT_IDS.update(id(u) for u in us)
            out.extend(us)
            if ext:
                us = ext_unary(x)
                _EXT_IDS.update(id(u) for u in us)
                out.extend(us)
        for i in range(1, n - 1):
            for x in terms_of_size(i, ext):
                for y in terms_of_size(n - 1 - i, ext):
                    e = id(x) in _EXT_IDS or id(y) in _EXT_IDS
                    for b in BINARY:
                        t = (b, x, y)
                        if e:
                            _EXT_IDS.add(id(t))
                        out.append(t)
    _TERMS[key] = out
    return out


_ALL = {}


def all_terms(max_nodes):
    """Core terms with <= max_nodes nodes, then the terms with <= max_nodes - 1 nodes that contain an
    extended symbol."""
    if max_nodes not in _ALL:
        out = []
        for n in range(1, max_nodes + 1):
            out.extend(terms_of_size(n))
        for n in range(1, max_nodes):
            out.extend(t for t in terms_of_size(n, True) if id(t) in _EXT_IDS)
        _ALL[max_nodes] = out
    return _ALL[max_nodes]


# ---- operator association shapes (part "terms" / "xref", family "shapes") --------------------------
# Every way of associating 2 .. K applications of the library's binary OPERATOR forms (+ | << >> & / and
# Lift's *): all binary trees (left-nested, right-nested, mixed), every operator at every inner node.
# `+`, `|` and `*` ACCUMULATE onto a left operand of their own kind and must do nothing of the sort with a
# right operand, so the value structure of a term depends on how it was associated: a + (b + c) is
# [va, [vb, vc]], (a + b) + c is [va, vb, vc].  The same trees with one unary constructor put on the root
# or on the inner operator node (Many lower 0 / 1, Opt, map, Wrapper, `% name`, debug()).  Leaves are
# consuming one-character matchers, so every value is the matched characters and the nesting of the
# value shows the term structure.

SH_OPS = ["seq", "alt", "kl", "kr", "fb", "nfb", "lift"]
SH_LEAF = ("inset", "ab")
SH_LEAVES2 = [("char", "a"), ("inset", "ab")]
SH_LEAVES4 = [("char", "a"), ("inset", "ab"), ("string", "ab", 0), ("eof",)]


def sh_unary(x):
    return [("many", x, 0), ("many", x, 1), ("opt", x, None), ("map", x), ("wrap", x), ("named", x), ("debug", x)]


def sh_trees(k, leaves, memo):
    """All terms with exactly k binary operator nodes over SH_OPS and the given leaves (every tree shape)."""
    if k not in memo:
        if k == 0:
            memo[k] = list(leaves)
        else:
            memo[k] = [(op, x, y) for i in range(k) for x in sh_trees(i, leaves, memo)
                       for y in sh_trees(k - 1 - i, leaves, memo) for op in SH_OPS]
    return memo[k]


def sh_wrapped(k, memo):
    """Trees with k operator nodes over the single leaf and exactly ONE unary constructor, on the root or on an
    operator node directly below the root."""
    out = []
    for t in sh_trees(k, [SH_LEAF], memo):
        out.extend(sh_unary(t))
        op, x, y = t
        if x[0] in SH_OPS:
            out.extend((op, u, y) for u in sh_unary(x))
        if y[0] in SH_OPS:
            out.extend((op, x, u) for u in sh_unary(y))
    return out


_SHAPES = {}


def shape_terms(tier):
    if tier not in _SHAPES:
        b = BOUNDS[tier]
        one, two = {}, {}                # memo tables: single leaf / two leaves
        out = list(sh_trees(2, SH_LEAVES2, two) if tier == "quick" else sh_trees(2, SH_LEAVES4, {}))
        for k in range(3, b["shape_operators"] + 1):
            if k <= b["shape_operators_two_leaves"]:
                out.extend(sh_trees(k, SH_LEAVES2, two))
            else:
                out.extend(sh_trees(k, [SH_LEAF], one))
        for k in range(2, b["shape_wrapped_operators"] + 1):
            out.extend(sh_wrapped(k, one))
        _SHAPES[tier] = out
    return _SHAPES[tier]


def term_list(family, tier):
    """The enumerated term list a terms / xref unit indexes into."""
    if family == "shapes":
        return shape_terms(tier)
    return all_terms(BOUNDS[tier]["term_nodes"])


def term_size(t):
    return 1 + sum(term_size(c) for c in t[1:] if isinstance(c, (list, tuple)))


def has_kind(t, kind):
    if t[0] == kind:
        return True
    for c in t[1:]:
        if isinstance(c, (list, tuple)) and has_kind(c, kind):
            return True
    return False


def is_extended(t):
    k = t[0]
    if k in ("named", "debug", "twice", "retry"):
        return True
    if k == "many" and t[2] == 3:
        return True
    if k == "opt" and t[2] is not None and t[2] != "D":
        return True
    if k == "litv" and t[2] is None:
        return True
    return any(is_extended(c) for c in t[1:] if isinstance(c, (list, tuple)))


# ---------------------------------------------------------------------------------------------
# building a term with the real operators
# ---------------------------------------------------------------------------------------------

_P = None


def P():
    global _P
    if _P is None:
        import insights.parsr as parsr
        _P = parsr
    return _P


def G(v):
    if peg.G_backtracks(v):
        raise P().Backtrack("odd length")
    return ("g", v)


def H1(v):
    if peg.G_backtracks(v):
        raise P().Backtrack("odd length")
    return ("h", v)


def H2(a, b):
    if peg.H2_backtracks(a, b):
        raise P().Backtrack("odd length")
    return ("H", a, b)


def _own(b):
    """% and debug() modify the parser object: never hand them one of the module's shared instances."""
    p = P()
    return p.Wrapper(b) if (b is p.AnyChar or b is p.EOF) else b


def build(t):
    p = P()
    k = t[0]
    if k == "char":
        return p.Char(t[1])
    if k == "inset":
        return p.InSet(t[1])
    if k == "string":
        return p.String(t[1], min_length=t[2])
    if k == "lit":
        return p.Literal(t[1], ignore_case=bool(t[2]))
    if k == "litv":
        return p.Literal(t[1], value=t[2])
    if k == "any":
        return p.AnyChar
    if k == "eof":
        return p.EOF
    if k == "many":
        return p.Many(build(t[1]), lower=t[2])
    if k == "opt":
        return p.Opt(build(t[1])) if t[2] is None else p.Opt(build(t[1]), default=t[2])
    if k == "map":
        return build(t[1]).map(peg.F_total)
    if k == "mapbt":
        return p.Map(build(t[1]), G)
    if k == "lift1bt":
        return p.Lift(H1) * build(t[1])
    if k == "wrap":
        return p.Wrapper(build(t[1]))
    if k == "mark":
        return p.PosMarker(build(t[1]))
    if k == "named":
        return _own(build(t[1])) % "nm"
    if k == "debug":
        return _own(build(t[1])).debug()
    if k == "twice":                    # the same parser OBJECT twice in one grammar
        b = build(t[1])
        return p.Lift(peg.F_lift) * b * b
    if k == "retry":                    # the same parser OBJECT re-tried from the same position after a failure
        b = build(t[1])
        return (b << p.EOF) | b
    if k == "seq":
        return build(t[1]) + build(t[2])
    if k == "alt":
        return build(t[1]) | build(t[2])
    if k == "kl":
        return build(t[1]) << build(t[2])
    if k == "kr":
        return build(t[1]) >> build(t[2])
    if k == "fb":
        return build(t[1]) & build(t[2])
    if k == "nfb":
        return build(t[1]) / build(t[2])
    if k == "until":
        return build(t[1]).until(build(t[2]))
    if k == "lift":
        return p.Lift(peg.F_lift) * build(t[1]) * build(t[2])
    if k == "liftbt":
        return p.Lift(H2) * build(t[1]) * build(t[2])
    if k == "sepby":
        return build(t[1]).sep_by(build(t[2]))
    if k == "rec":
        f = p.Forward()
        f <= ((build(t[1]) + f) | build(t[2]))
        return f
    raise ValueError(k)


# ---------------------------------------------------------------------------------------------
# running the implementation under a budget
# ---------------------------------------------------------------------------------------------

class BudgetExceeded(BaseException):
    """Not an Exception: Many/Opt/Until (`except Exception`) must not treat it as a failed match."""


_CTX = None


def budget_ctx():
    """A Context subclass (the documented extension point) that counts process() calls: the
    wrapper around every process() reads ctx.function_error exactly once per call."""
    global _CTX
    if _CTX is None:
        base = P().Context

        class BudgetCtx(base):
            steps = 0
            _fe = None

            def _get(self):
                self.steps += 1
                if self.steps > STEP_BUDGET:
                    raise BudgetExceeded()
                return self._fe

            def _set(self, v):
                self._fe = v
            function_error = property(_get, _set)
        _CTX = BudgetCtx
    return _CTX


_ALARM = {"installed": False, "fired": False}


def _on_cpu_alarm(signum, frame):
    _ALARM["fired"] = True            # kept as a flag too: Choice's bare `except:` can swallow the exception
    raise BudgetExceeded()


class cpu_guard(object):
    """Safety net for loops that never call process(): SIGVTALRM after `seconds` of *user-mode CPU time
    of this process* (independent of machine load), repeated every 50 ms until disarmed."""

    def __init__(self, seconds=CPU_GUARD_S):
        self.seconds = seconds
        self.fired = False

    def __enter__(self):
        if not _ALARM["installed"]:
            signal.signal(signal.SIGVTALRM, _on_cpu_alarm)
            _ALARM["installed"] = True
        _ALARM["fired"] = False
        signal.setitimer(signal.ITIMER_VIRTUAL, self.seconds, 0.05)
        return self

    def __exit__(self, *a):
        signal.setitimer(signal.ITIMER_VIRTUAL, 0)
        self.fired = _ALARM["fired"]
        return False


def guarded(fn, arg, seconds=DOC_GUARD_S):
    """-> ("ok", value) | ("exc", exception) | ("hang", None); used for the shipped grammars, whose
    public entry points do not take a Context class."""
    out = None
    try:
        with cpu_guard(seconds) as g:
            try:
                out = ("ok", fn(arg))
            except BudgetExceeded:
                out = ("hang", None)
            except Exception as ex:
                out = ("exc", ex)
    except BudgetExceeded:              # fired between the call and disarming
        return ("hang", None)
    if g.fired:
        return ("hang", None)
    return out


HANG = ("<budget exceeded>",)
_MAX_STEPS = [0]            # most process() calls any completed parse needed (reported in the evidence)


def run_process(parser, s):
    """-> FAIL | HANG | (end, value) via the process(pos, data, ctx) protocol on a fresh Context."""
    data = list(s)
    data.append(None)
    ctx = budget_ctx()(data)
    try:
        got = parser.process(0, data, ctx)
    except BudgetExceeded:
        return HANG
    except Exception:
        got = peg.FAIL
    if ctx.steps > STEP_BUDGET or _ALARM["fired"]:
        return HANG
    if ctx.steps > _MAX_STEPS[0]:
        _MAX_STEPS[0] = ctx.steps
    return got


def run_call(parser, s):
    """-> FAIL | HANG | (None, value) via parser(s)."""
    made = []
    cls = budget_ctx()

    def factory(data, src=None):
        c = cls(data, src=src)
        made.append(c)
        return c
    try:
        got = (None, parser(s, Ctx=factory))
    except BudgetExceeded:
        return HANG
    except Exception:
        got = peg.FAIL
    if (made and made[0].steps > STEP_BUDGET) or _ALARM["fired"]:
        return HANG
    return got


def same(g, e):
    """Type-strict equality of an implementation value g with a reference value e."""
    te = type(e)
    if te is tuple and e and e[0] == "mark":
        return (hasattr(g, "lineno") and hasattr(g, "col") and g.lineno == e[1] and g.col == e[2]
                and same(g.value, e[3]))
    if type(g) is not te:
        return False
    if te is list or te is tuple:
        if len(g) != len(e):
            return False
        for x, y in zip(g, e):
            if not same(x, y):
                return False
        return True
    return g == e


def jsonable(v):
    if hasattr(v, "lineno") and hasattr(v, "col"):
        return ["mark", v.lineno, v.col, jsonable(v.value)]
    if isinstance(v, (list, tuple)):
        return [jsonable(x) for x in v]
    if isinstance(v, dict):
        return dict((str(k), jsonable(x)) for k, x in v.items())
    if v is None or isinstance(v, (str, int, float, bool)):
        return v
    return repr(v)


def describe(r):
    if r is peg.FAIL:
        return "FAIL"
    if r is HANG:
        return "no result within %d process() calls / %d CPU-s" % (STEP_BUDGET, CPU_GUARD_S)
    return {"end": r[0], "value": jsonable(r[1])}


def agree(exp, got, with_pos=True):
    if got is HANG:
        return False
    if exp is peg.FAIL or got is peg.FAIL:
        return exp is got
    if with_pos and exp[0] != got[0]:
        return False
    return same(got[1], exp[1])


NL_INPUTS = ["".join(p) for n in (1, 2, 3, 4) for p in itertools.product("a\n", repeat=n) if "\n" in p]
INPUTS_NL = INPUTS + NL_INPUTS
SHORT = 2                   # __call__ on the largest terms is observed on inputs up to this length


def schedule(t, size, tier):
    """The operations run, in this order, on ONE parser object built from t: [via, input] pairs.
    Every input through process(); through __call__ as well (all inputs for the smaller terms, the short
    ones for the largest); for the smaller terms a second pass through process() in reverse order, so
    that every input is also run after longer ones on the same object.  Inputs outside the quantifier
    (reference: LOOP) are left out.  Terms containing PosMarker also get the inputs with newlines."""
    small = size <= BOUNDS[tier]["call_nodes"]
    inputs = INPUTS_NL if has_kind(t, "mark") else INPUTS
    ops = []
    exps = {}
    absorbed = {}
    for s in inputs:
        e = peg.evaluate(t, s)
        if e is peg.LOOP:
            continue
        exps[s] = e
        absorbed[s] = peg.Stats.absorbed
        ops.append(("process", s))
        if small or len(s) <= SHORT:
            ops.append(("call", s))
    skipped = len(inputs) - len(exps)
    if small:
        ops.extend([("process", s) for s in reversed(inputs) if s in exps])
    # the caller-mutates-the-result history, two rounds: parse, check that no mutable container of the result
    # is shared (inside the result / with an earlier result), then modify every container in place
    ops.extend([("mutate", s) for s in MUT_INPUTS if s in exps] * 2)
    return ops, exps, absorbed, skipped


MUT_INPUTS = ["", "a", "b", "ab"]
SENTINEL = "<put here by the caller>"


class Session(object):
    """What a caller keeps from earlier parses on one parser object: the results (alive, so that object
    identities stay meaningful) and the identities of their mutable containers."""

    def __init__(self):
        self.kept = []
        self.ids = set()


def mutable_ids(v, out):
    """ids of the mutable containers (lists, dicts) reachable in a result, with multiplicity."""
    if isinstance(v, list):
        out.append(id(v))
        for x in v:
            mutable_ids(x, out)
    elif isinstance(v, tuple):
        for x in v:
            mutable_ids(x, out)
    elif isinstance(v, dict):
        out.append(id(v))
        for x in v.values():
            mutable_ids(x, out)
    elif hasattr(v, "lineno") and hasattr(v, "value"):
        mutable_ids(v.value, out)


def mutate_in_place(v):
    if isinstance(v, list):
        for x in v:
            mutate_in_place(x)
        v.append(SENTINEL)
    elif isinstance(v, tuple):
        for x in v:
            mutate_in_place(x)
    elif isinstance(v, dict):
        for x in list(v.values()):
            mutate_in_place(x)
        v[SENTINEL] = SENTINEL
    elif hasattr(v, "lineno") and hasattr(v, "value"):
        mutate_in_place(v.value)


def aliasing(value, session):
    """The aliasing oracle: a result is made of NEW mutable objects - none occurs twice inside it and none
    was part of an earlier result (values of different matches are different objects; nothing in the
    alphabet asks for a shared one).  -> None or a description.  Registers the result in the session."""
    ids = []
    mutable_ids(value, ids)
    problem = None
    if len(set(ids)) != len(ids):
        problem = "the same mutable object occurs twice inside one result"
    elif session.ids.intersection(ids):
        problem = "a mutable object that was part of an earlier result is handed out again"
    session.ids.update(ids)
    session.kept.append(value)
    return problem


def after_op(via, got, session):
    """Second half of a "mutate" operation (after the result has been compared with the reference)."""
    if via != "mutate" or got is peg.FAIL or got is HANG:
        return None
    problem = aliasing(got[1], session)
    mutate_in_place(got[1])
    return problem


def hang_explained_by_leading_separator(t, s):
    """A non-terminating run on a pair the reference completes: is it the known sep_by family?  Once the
    definitional expansion has consumed 'separator, instance' without a preceding instance, an enclosing
    repetition can meet a sub-term that succeeds without consuming - the pair is then outside the
    quantifier *for the expansion* (LOOP), although inside it for the documented meaning."""
    peg.evaluate(t, s)
    return peg.Stats.sep_leading > 0 and peg.evaluate(t, s, peg.LEADING_SEP) is peg.LOOP


def run_op(parser, via, s):
    return run_call(parser, s) if via == "call" else run_process(parser, s)


def replay_history(hist, upto):
    """Re-executes, in one process, what a terms unit did before it reached term `upto`: every earlier
    term of the unit, freshly built, through its whole schedule.  Owns state that leaks from one grammar
    to the next through module-level objects."""
    terms = term_list(hist.get("family", "core"), hist["tier"])
    for ti in range(hist["lo"], upto):
        t = terms[ti]
        ops = schedule(t, term_size(t), hist["tier"])[0]
        try:
            with cpu_guard():
                parser = build(t)
                session = Session()
                for via, s in ops:
                    got = run_op(parser, via, s)
                    if got is HANG and not hang_explained_by_leading_separator(t, s):
                        break
                    after_op(via, got, session)
        except BudgetExceeded:
            pass


def check_term_case(case):
    """case = {"kind":"term","term":[...],"input":s,"via":"process"|"call",
               "prior":[[via, input]...]   operations run first on the same parser object (optional),
               "history":{"tier","lo","index"}   earlier terms of the unit run first in this process (optional)}
    -> list of (clause, expected, observed, features)."""
    t, s = case["term"], case["input"]
    via = case.get("via", "process")
    exp = peg.evaluate(t, s)
    if exp is peg.LOOP:
        return []                       # outside the quantifier (repetition over a non-consuming sub-term)
    leading = peg.Stats.sep_leading > 0
    budget_ctx()                        # imports happen outside the CPU guard
    if case.get("history"):
        replay_history(case["history"], case["history"]["index"])
    try:
        with cpu_guard():
            parser = build(t)
            session = Session()
            for pv, q in case.get("prior", []):
                if peg.evaluate(t, q) is not peg.LOOP:
                    after_op(pv, run_op(parser, pv, q), session)
            got = run_op(parser, via, s)
    except BudgetExceeded:
        got = HANG
    with_pos = via != "call"
    feats = {"via": via, "after_earlier_calls_on_the_same_object": bool(case.get("prior")),
             "after_the_caller_modified_earlier_results_in_place": any(pv == "mutate" for pv, _ in case.get("prior", [])),
             "after_earlier_grammars_in_the_same_process": bool(case.get("history"))}
    if agree(exp, got, with_pos):
        shown = describe(got)
        problem = after_op(via, got, session)
        if problem:
            return [("combinators:fresh-mutable-values", "every list inside a result is a new object", {"problem": problem, "result": shown}, feats)]
        return []
    if got is HANG:
        clause = "combinators:terminates"
    elif exp is peg.FAIL:
        clause = "combinators:accepts-only-what-peg-accepts"
    elif got is peg.FAIL:
        clause = "combinators:accepts-all-peg-accepts"
    elif with_pos and exp[0] != got[0]:
        clause = "combinators:end-position"
    else:
        clause = "combinators:value"
    if got is HANG and leading and hang_explained_by_leading_separator(t, s):
        feats["sep_by_separator_without_preceding_instance"] = True
        clause = "combinators:sep_by-separator-follows-an-instance"
    elif got is not HANG and leading:
        # attribution only: the observation equals the definitional expansion Opt(x) then Many(sep >> x),
        # which consumes "separator, instance" although no instance precedes the separator.  That family
        # shows up as a wrong position, value or accept/reject decision depending on the enclosing term,
        # so it gets a clause of its own - only when the expansion explains the observation completely.
        feats["sep_by_separator_without_preceding_instance"] = True
        alt = peg.evaluate(t, s, peg.LEADING_SEP)
        if alt is not peg.LOOP and agree(alt, got, with_pos):
            clause = "combinators:sep_by-separator-follows-an-instance"
    return [(clause, describe(exp if with_pos or exp is peg.FAIL else (None, exp[1])), describe(got), feats)]


# ---------------------------------------------------------------------------------------------
# JSON example grammar
# ---------------------------------------------------------------------------------------------

J_SCALARS = [0, 7, -3, 2.5, "s", "", 'a"b', True, False, None]
J_ATOMS = J_SCALARS + [["A"], ["O"]]          # value descriptors: ["A", item...] array, ["O", [key, value]...] object
J_KEYS1 = ["a", "", 'a"b']
J_KEYS2 = [("a", "b")]
J_RENDERINGS = ["compact", "spaced", "indent", "padded"]
J_PADS = [" ", "\t", "\n", "\r\n"]


def j_containers(pool_a, pool_b=None):
    """Arrays of length 1..2 and objects with 1..2 entries. Children come from pool_a; with pool_b
    given, exactly one child is from pool_b and the other (if any) from pool_a."""
    if pool_b is None:
        for x in pool_a:
            yield ["A", x]
        for x in pool_a:
            for y in pool_a:
                yield ["A", x, y]
        for k in J_KEYS1:
            for x in pool_a:
                yield ["O", [k, x]]
        for (k1, k2) in J_KEYS2:
            for x in pool_a:
                for y in pool_a:
                    yield ["O", [k1, x], [k2, y]]
        return
    # exactly one child from pool_b, the other (if any) from pool_a
    for x in pool_b:
        yield ["A", x]
    for x in pool_b:
        for y in pool_a:
            yield ["A", x, y]
            yield ["A", y, x]
    for k in J_KEYS1:
        for x in pool_b:
            yield ["O", [k, x]]
    for (k1, k2) in J_KEYS2:
        for x in pool_b:
            for y in pool_a:
                yield ["O", [k1, x], [k2, y]]
                yield ["O", [k1, y], [k2, x]]


def j_is_deep(v):
    return isinstance(v, list) and len(v) > 1


_JV = {}


def j_values(tier):
    if tier in _JV:
        return _JV[tier]
    d1 = list(J_ATOMS)
    d2 = list(j_containers(d1))
    if tier == "quick":
        d3 = list(j_containers(d1, d2))
    else:
        le2 = d1 + d2
        d3 = [v for v in j_containers(le2) if any(j_is_deep(c if v[0] == "A" else c[1]) for c in v[1:])]
    _JV[tier] = d1 + d2 + d3
    return _JV[tier]


def j_plain(v):
    if isinstance(v, list):
        if v[0] == "A":
            return [j_plain(x) for x in v[1:]]
        return dict((k, j_plain(x)) for k, x in v[1:])
    return v


def j_scalar_text(v):
    if isinstance(v, str):
        return '"' + v.replace('"', '\\"') + '"'
    if v is True:
        return "true"
    if v is False:
        return "false"
    if v is None:
        return "null"
    return repr(v)


def j_render(v, how, avoid_known_triggers=False):
    """avoid_known_triggers: the padded rendering without whitespace before ':' and inside empty
    containers (used only to attribute a rejection, see check_json_case)."""
    if how == "indent":
        return _j_indent(v, 0)
    if how == "padded":
        toks = []
        _j_tokens(v, toks)
        out = []
        for i, tk in enumerate(toks):
            glued = avoid_known_triggers and (tk == ":" or (tk in "]}" and toks[i - 1] in "[{"))
            if not glued:
                out.append(J_PADS[i % len(J_PADS)])
            out.append(tk)
        out.append(" ")
        return "".join(out)
    item_sep, key_sep = (",", ":") if how == "compact" else (", ", ": ")
    return _j_flat(v, item_sep, key_sep)


def _j_flat(v, item_sep, key_sep):
    if not isinstance(v, list):
        return j_scalar_text(v)
    if v[0] == "A":
        return "[" + item_sep.join(_j_flat(x, item_sep, key_sep) for x in v[1:]) + "]"
    return "{" + item_sep.join(j_scalar_text(k) + key_sep + _j_flat(x, item_sep, key_sep) for k, x in v[1:]) + "}"


def _j_indent(v, lvl):
    if not isinstance(v, list):
        return j_scalar_text(v)
    if len(v) == 1:
        return "[]" if v[0] == "A" else "{}"
    pad = "\n" + " " * (lvl + 1)
    if v[0] == "A":
        body = ",".join(pad + _j_indent(x, lvl + 1) for x in v[1:])
        return "[" + body + "\n" + " " * lvl + "]"
    body = ",".join(pad + j_scalar_text(k) + ": " + _j_indent(x, lvl + 1) for k, x in v[1:])
    return "{" + body + "\n" + " " * lvl + "}"


def _j_tokens(v, toks):
    if not isinstance(v, list):
        toks.append(j_scalar_text(v))
        return
    opener, closer = ("[", "]") if v[0] == "A" else ("{", "}")
    toks.append(opener)
    for n, c in enumerate(v[1:]):
        if n:
            toks.append(",")
        if v[0] == "O":
            toks.append(j_scalar_text(c[0]))
            toks.append(":")
            _j_tokens(c[1], toks)
        else:
            _j_tokens(c, toks)
    toks.append(closer)


def j_facts(v, how):
    """Structural facts about the document (used as violation features)."""
    f = {"empty_string": False, "nonempty_object": False, "empty_container": False, "falsy_first": False}

    def walk(x):
        if isinstance(x, list):
            if len(x) == 1:
                f["empty_container"] = True
            elif x[0] == "O":
                f["nonempty_object"] = True
                for k, c in x[1:]:
                    if k == "":
                        f["empty_string"] = True
                    walk(c)
            else:
                for c in x[1:]:
                    walk(c)
        elif x == "" and isinstance(x, str):
            f["empty_string"] = True
    walk(v)
    return f


def j_without_empty_strings(v):
    """The same descriptor with every empty string (value or key) replaced by "e"."""
    if isinstance(v, list):
        if v[0] == "A":
            return ["A"] + [j_without_empty_strings(x) for x in v[1:]]
        return ["O"] + [[k if k != "" else "e", j_without_empty_strings(x)] for k, x in v[1:]]
    return "e" if (isinstance(v, str) and v == "") else v


def strict_eq(a, b):
    if type(a) is not type(b):
        return False
    if isinstance(a, list):
        return len(a) == len(b) and all(strict_eq(x, y) for x, y in zip(a, b))
    if isinstance(a, dict):
        return list(sorted(a)) == list(sorted(b)) and all(strict_eq(a[k], b[k]) for k in a)
    return a == b


_JL = None


def j_entry(name="loads"):
    """The two public entry points of the example module: loads(text) and load(file object)."""
    global _JL
    if _JL is None:
        from insights.parsr.examples import json_parser
        _JL = {"loads": json_parser.loads, "load": lambda text: json_parser.load(io.StringIO(text))}
    return _JL[name]


def check_json_case(case):
    """case = {"kind":"json","value":<descriptor>,"render":<name>,"entry":"loads"|"load"}"""
    v, how = case["value"], case["render"]
    text = j_render(v, how)
    exp = json.loads(text)                       # the oracle
    if not strict_eq(exp, j_plain(v)):           # the harness' renderer must describe the value it claims to
        raise RuntimeError("C19 json renderer is wrong: %r renders as %r" % (v, text))
    facts = j_facts(v, how)
    loads = j_entry(case.get("entry", "loads"))
    status, got = guarded(loads, text)
    feats = {"render": how, "entry": case.get("entry", "loads")}
    if status == "hang":
        return [("json:terminates", {"text": text, "value": exp}, "no result within %d CPU-s" % DOC_GUARD_S, feats)]
    failed = status == "exc"
    if failed:
        got = "rejected: " + " ".join(str(got).split())[:120]
    elif strict_eq(got, exp):
        ids = []
        mutable_ids(got, ids)
        if len(set(ids)) != len(ids):       # json.loads builds a new list / dict for every container
            return [("json:fresh-mutable-values", {"text": text, "containers": "pairwise distinct objects"},
                     {"problem": "the same list or dict object occurs twice inside one result", "result": jsonable(got)}, feats)]
        return []
    feats["json_contains_empty_string"] = facts["empty_string"]
    if failed:
        feats["json_whitespace_before_colon"] = how == "padded" and facts["nonempty_object"]
        feats["json_whitespace_inside_empty_container"] = how == "padded" and facts["empty_container"]
        # attribution only (never decides the verdict): is the same document accepted once the listed
        # triggers are taken out of it?  If not, something else rejects it and no finding may match.
        rtext = j_render(j_without_empty_strings(v), how, avoid_known_triggers=True)
        feats["accepted_once_listed_triggers_are_removed"] = rtext != text and guarded(loads, rtext)[0] == "ok"
        return [("json:accepts-documented-subset", {"text": text, "value": exp}, got, feats)]
    return [("json:value-equals-json.loads", {"text": text, "value": exp}, jsonable(got), feats)]


# ---- number literals (part "jsonnum") ---------------------------------------------------------------
# The documented subset excludes unicode and scientific notation, nothing else: a number literal
# -?(0|[1-9][0-9]*)(\.[0-9]+)? of ANY size is inside it, and json.loads returns integers exactly (arbitrary
# precision) and fractions as the nearest double.  Literals are enumerated as TEXT (repr() of a large float
# would use an exponent): every integer within +-2 (thorough: +-8) of the representation boundaries of the
# usual machine types, as integer / with ".0" / with ".5", both signs; 10**(k-1) and 10**k - 1 for the digit
# lengths around every such boundary; fractions with 1 .. 40 digits and with up to 400 leading zeros
# (precision, denormal and underflow boundaries of a double written without exponent).

JN_LITERAL = re.compile(r"-?(0|[1-9][0-9]*)(\.[0-9]+)?\Z")
JN_FRAMES = ["bare", "padded", "array", "second", "object", "nested"]
JN_FIXED = ["0", "1", "7", "10", "0.0", "1.0", "10.0", "100.0", "0.1", "0.2", "0.3", "0.7", "1.1", "2.675", "1.005", "4.35",
            "0.000001", "0.0000001", "123456.7", "123456789.123456789", "3.141592653589793238462643383279",
            "1.7976931348623157", "2.2250738585072014", "4.9406564584124654", "0.30000000000000004"]


def jn_boundaries(tier):
    bs = [2 ** 31, 2 ** 32, 2 ** 53, 2 ** 63, 2 ** 64, 10 ** 15, 10 ** 16, 10 ** 17, 10 ** 22, 10 ** 23, 2 ** 100,
          2 ** 1023, 2 ** 1024 - 2 ** 970, 2 ** 1024, 10 ** 308, 10 ** 309]
    if tier != "quick":
        bs += [2 ** k for k in range(50, 71) if 2 ** k not in bs] + [10 ** k for k in range(14, 25) if 10 ** k not in bs]
        bs += [2 ** 24, 2 ** 52, 2 ** 54, 2 ** 127, 2 ** 128, 10 ** 307, 10 ** 310]
    return bs


_JN = {}


def jn_literals(tier):
    if tier in _JN:
        return _JN[tier]
    span = 2 if tier == "quick" else 8
    mags = []
    for b in jn_boundaries(tier):
        for d in range(-span, span + 1):
            mags += [str(b + d), str(b + d) + ".0", str(b + d) + ".5"]
    for k in list(range(1, 25)) + [300, 308, 309, 310, 311, 400, 1000]:
        for text in ("1" + "0" * (k - 1), "9" * k):
            mags += [text, text + ".5"]
    for k in (1, 2, 15, 16, 17, 18, 19, 20, 25, 30, 40):
        mags += ["0." + "1" * k, "0." + "9" * k, "1." + "0" * (k - 1) + "1"]
    for k in (1, 5, 10, 15, 16, 17, 20, 22, 100, 307, 308, 322, 323, 324, 330, 400):
        mags += ["0." + "0" * k + "1", "0." + "0" * k + "49", "0." + "0" * k + "5"]
    mags += JN_FIXED
    out, seen = [], set()
    for m in mags:
        for text in (m, "-" + m):
            if text not in seen:
                seen.add(text)
                out.append(text)
    for text in out:                    # alphabet self-check: only literals of the documented subset
        if not JN_LITERAL.match(text):
            raise RuntimeError("C19 jsonnum: %r is not a number literal of the documented subset" % text[:40])
    _JN[tier] = out
    return out


def jn_text(lit, frame):
    return {"bare": lit, "padded": " \t" + lit + "\n ", "array": "[" + lit + "]", "second": "[0, " + lit + ", 1]",
            "object": '{"a": ' + lit + ', "b": 1}', "nested": '{"k": [[' + lit + "," + lit + "]]}"}[frame]


def exact_eq(a, b):
    """strict_eq, and floats must be the same double (sign of zero included)."""
    if type(a) is not type(b):
        return False
    if isinstance(a, list):
        return len(a) == len(b) and all(exact_eq(x, y) for x, y in zip(a, b))
    if isinstance(a, dict):
        return list(sorted(a)) == list(sorted(b)) and all(exact_eq(a[k], b[k]) for k in a)
    if isinstance(a, float):
        return a.hex() == b.hex()
    return a == b


def jn_shown(v):
    """Large numbers as text (evidence stays readable and JSON-safe: no inf, no 1000-digit integers)."""
    if isinstance(v, list):
        return [jn_shown(x) for x in v]
    if isinstance(v, dict):
        return dict((str(k), jn_shown(x)) for k, x in v.items())
    if isinstance(v, bool) or v is None or isinstance(v, str):
        return v
    if isinstance(v, (int, float)):
        r = repr(v)
        return "%s(%s)" % (type(v).__name__, r if len(r) <= 48 else "%s...%s, %d characters" % (r[:20], r[-20:], len(r)))
    return repr(v)[:80]


def jn_is_hard(lit):
    """Measured: the literal has more significant digits than a double keeps (an integer beyond 2**53 or a
    fraction with more than 15 digits) - the cases where exact integer conversion and rounding matter."""
    digits = lit.lstrip("-").replace(".", "").strip("0")
    return len(digits) > 15


def check_json_num_case(case):
    """case = {"kind":"jsonnum","literal":text,"frame":one of JN_FRAMES,"entry":"loads"|"load"}"""
    lit, frame = case["literal"], case["frame"]
    if not JN_LITERAL.match(lit):
        raise RuntimeError("C19 jsonnum: not a number literal of the documented subset")
    text = jn_text(lit, frame)
    exp = json.loads(text)                       # the oracle
    entry = case.get("entry", "loads")
    status, got = guarded(j_entry(entry), text)
    shown_text = text if len(text) <= 100 else "%s...%s (%d characters)" % (text[:40], text[-40:], len(text))
    feats = {"frame": frame, "entry": entry, "number": "float" if "." in lit else "int",
             "more_digits_than_a_double_keeps": jn_is_hard(lit)}
    if status == "hang":
        return [("json:terminates", {"text": shown_text}, "no result within %d CPU-s" % DOC_GUARD_S, feats)]
    if status == "exc":
        return [("json:accepts-documented-subset", {"text": shown_text, "value": jn_shown(exp)},
                 "rejected: " + " ".join(str(got).split())[:120], feats)]
    if not exact_eq(got, exp):
        return [("json:value-equals-json.loads", {"text": shown_text, "value": jn_shown(exp)}, jn_shown(got), feats)]
    return []


# ---- the caller modifies what it got, then parses again (part "jsonmut") --------------------------

JM_DOCS = ["[]", "{}", "[[],[]]", '{"a":[],"b":[]}', "[{},{}]", "[[],{}]", "[[[]]]", '{"a":{}}', "[ ]", "{ }",
           "[0]", "[[0],[0]]", '{"a":[0]}', "[[],[0]]", '""', "7"]


def jm_steps():
    return [(entry, text) for _round in (0, 1) for text in JM_DOCS for entry in ("loads", "load")]


def check_json_mut_case(case):
    """case = {"kind":"jsonmut","step":n}: steps 0..n of jm_steps() on the module's grammar object, in this
    process; after every step the caller modifies every list / dict of the result in place.  Step n is
    judged: same value as json.loads, and only new list / dict objects (json.loads never hands out a
    container twice)."""
    steps = jm_steps()
    session = Session()
    out = []
    for i, (entry, text) in enumerate(steps[:case["step"] + 1]):
        status, got = guarded(j_entry(entry), text)
        if i == case["step"]:
            exp = json.loads(text)
            feats = {"entry": entry, "after_the_caller_modified_earlier_results_in_place": i > 0}
            if status == "hang":
                return [("json:terminates", {"text": text}, "no result within %d CPU-s" % DOC_GUARD_S, feats)]
            if status == "exc":
                return [("json:accepts-documented-subset", {"text": text, "value": exp},
                         "rejected: " + " ".join(str(got).split())[:120], feats)]
            if not strict_eq(got, exp):
                out.append(("json:value-equals-json.loads", {"text": text, "value": exp}, jsonable(got), feats))
            else:
                problem = aliasing(got, session)
                if problem:
                    out.append(("json:fresh-mutable-values", {"text": text, "containers": "new objects"},
                                {"problem": problem, "result": jsonable(got)}, feats))
            return out
        if status == "ok":
            aliasing(got, session)
            mutate_in_place(got)
    return out


# ---- further JSON families (part "jsonx") ------------------------------------------------------

J_SPECIAL_SCALARS = ["a,b]", "{:", " s ", "'", "tru", "[", "1", "null", "a b", "%s{0}", 10, 100, -10, 0.5, -2.5, 12.25, 1.0, 99, 255]
J_SMALL = [0, "", 7, ["A"]]


def j_nested(shape, depth):
    """Chains of containers `depth` deep around the scalar 7; siblings before / after the nested child."""
    v = 7
    for d in range(depth):
        kind = shape if shape in "AO" else ("AO"[d % 2] if shape == "X" else shape[0])
        sib = shape[1:] if len(shape) > 1 and shape[0] in "AO" else ""
        if kind == "A":
            v = ["A"] + ([0] if sib == "<" else []) + [v] + ([None] if sib == ">" else [])
        else:
            v = ["O"] + ([["b", 0]] if sib == "<" else []) + [["a", v]] + ([["c", None]] if sib == ">" else [])
    return v


def j_extra_values(tier):
    """Duplicate keys, wider containers, special scalars, deep nesting - each a small closed family."""
    out = []
    for x in J_ATOMS:                                   # duplicate keys: the last one wins in json.loads
        for y in J_ATOMS:
            out.append(["O", ["a", x], ["a", y]])
    for n in (3, 4):                                    # more than two elements
        for items in itertools.product(J_SMALL, repeat=n):
            out.append(["A"] + list(items))
    for items in itertools.product([0, "", 7], repeat=3):
        out.append(["O"] + [[k, x] for k, x in zip("abc", items)])
    for x in J_SPECIAL_SCALARS:                         # neighbours and glue, multi-digit numbers
        out += [x, ["A", x], ["A", 0, x], ["A", x, ""], ["O", ["a", x]]]
        if isinstance(x, str):
            out.append(["O", [x, 7]])
    top = 12 if tier == "quick" else 30
    for shape in ("A", "O", "X", "A<", "A>", "O<", "O>"):
        for depth in range(4, top + 1, 1 if tier == "quick" else 2):
            out.append(j_nested(shape, depth))
    return out


def j_edit_bases(tier):
    d1 = list(J_ATOMS)
    return d1 + list(j_containers(d1))


def j_edited_tokens(v, edit):
    toks = []
    _j_tokens(v, toks)
    if edit[0] == "del":
        return toks[:edit[1]] + toks[edit[1] + 1:]
    return toks[:edit[1]] + [","] + toks[edit[1]:]


def j_edits(v):
    toks = []
    _j_tokens(v, toks)
    return [["del", i] for i in range(len(toks))] + [["ins", i] for i in range(len(toks) + 1)]


def check_json_edit_case(case):
    """case = {"kind":"jsonedit","value":<descriptor>,"edit":["del",i]|["ins",i]}: the token list of the
    compact document with one token deleted or one comma inserted, tokens separated by one space (no
    new token can form).  json.loads decides: rejected there -> must be rejected; accepted -> same value."""
    toks = j_edited_tokens(case["value"], case["edit"])
    text = " ".join(toks)
    try:
        exp = ("ok", json.loads(text))
    except ValueError:
        exp = ("rejected", None)
    status, got = guarded(j_entry("loads"), text)
    feats = {"edit": case["edit"][0]}
    if status == "hang":
        return [("json:terminates", {"text": text}, "no result within %d CPU-s" % DOC_GUARD_S, feats)]
    if exp[0] == "ok":
        if status == "ok" and strict_eq(got, exp[1]):
            return []
        if status == "exc":
            return [("json:accepts-documented-subset", {"text": text, "value": exp[1]},
                     "rejected: " + " ".join(str(got).split())[:120], feats)]
        return [("json:value-equals-json.loads", {"text": text, "value": exp[1]}, jsonable(got), feats)]
    if status == "exc":
        return []
    # accepted although the standard decoder rejects it
    lead = [i for i in range(1, len(toks)) if toks[i] == "," and toks[i - 1] in "[{"]
    feats["json_comma_directly_after_opening_bracket"] = bool(lead)
    if lead:
        # attribution only: is the answer what the document means once those commas are taken out?
        rest = [tk for i, tk in enumerate(toks) if i not in lead]
        try:
            feats["equals_document_without_those_commas"] = strict_eq(got, json.loads(" ".join(rest)))
        except ValueError:
            feats["equals_document_without_those_commas"] = False
    return [("json:rejects-what-json.loads-rejects", {"text": text, "json.loads": "rejects"},
             {"accepted_as": jsonable(got)}, feats)]


# ---------------------------------------------------------------------------------------------
# tag-expression language
# ---------------------------------------------------------------------------------------------

TAGS = ["a", "b", "c"]
# all 8 subsets of {a,b,c}, plus sets whose tags have a plain tag as a prefix / substring (Eq is equality,
# a regex atom is a search)
TAGSETS = [list(c) for c in enumx.subsets(TAGS)] + [["ab"], ["ab", "c"], ["abc", "b"]]
T_ATOMS = {
    "quick": [["tag", "a"], ["tag", "b"], ["tag", "c"], ["qtag", "a", '"'], ["re", "[ab]", None]],
    "thorough": [["tag", "a"], ["tag", "b"], ["tag", "c"], ["qtag", "a", '"'], ["qtag", "b", "'"],
                 ["re", "[ab]", None], ["re", "b|c c", "'"]],
}
T_BIN = [("and", "&"), ("or", "|"), ("or", ",")]

# part "tagx": atoms that are prefixes of each other, contain operator characters / blanks inside quotes,
# regex atoms with metacharacters (an unquoted regex runs to the next blank, documented), evaluated on all
# subsets of a tag universe that contains those neighbours
TX_ATOMS = [["tag", "a"], ["tag", "ab"], ["tag", "a.b-c_1"], ["tag", "k=v:1%#"], ["qtag", "a b", "'"], ["qtag", "a&b", '"'],
            ["qtag", "ab", '"'], ["re", "^a$", None], ["re", "a.", None], ["re", "^ab?$", None],
            ["re", "a b", "'"], ["re", "a&b", None], ["re", "^a$|^b$", None], ["re", "\\w[&.]", None]]
TX_TAGSETS = [list(c) for c in enumx.subsets(["a", "ab", "b", "a b", "a&b", "a.b-c_1", "k=v:1%#"])]


def t_asts(tier, depth_exact, atoms=None):
    atoms = T_ATOMS[tier] if atoms is None else atoms
    if depth_exact == 1:
        return atoms
    key = (tier, depth_exact, id(atoms))
    if key in _TA:
        return _TA[key]
    lower = []
    for d in range(1, depth_exact):
        lower.extend(t_asts(tier, d, atoms))
    prev = t_asts(tier, depth_exact - 1, atoms)
    prev_ids = set(id(x) for x in prev)
    out = [["not", x] for x in prev]
    for x in lower:
        for y in lower:
            if id(x) in prev_ids or id(y) in prev_ids:
                for (k, sym) in T_BIN:
                    out.append([k, x, y, sym])
    _TA[key] = out
    return out


_TA = {}


def t_all(tier):
    out = []
    for d in (1, 2, 3):
        out.extend(t_asts(tier, d))
    return out


def t_extra_asts(tier):
    """Special atoms at depth <= 2; redundant parentheses and negations nested up to 8 deep."""
    out = list(TX_ATOMS) + list(t_asts("x", 2, TX_ATOMS))
    a, b, c = ["tag", "a"], ["tag", "b"], ["tag", "c"]
    for core in (a, ["or", a, b, "|"], ["and", ["or", a, b, ","], c, "&"]):
        x = core
        y = core
        for depth in range(1, 9):
            x = ["paren", x]
            y = ["not", y]
            out.append(x)
            out.append(y)
            out.append(["and", x, ["or", y, c, "|"], "&"])
    return out


def t_prec(a):
    return {"or": 1, "and": 2, "not": 3}.get(a[0], 4)


def t_tokens(a, full, out):
    """Token list of the AST under the stated precedence  ! > & > | = ,   (minimal or full parentheses)."""
    k = a[0]
    if k == "tag":
        out.append(("atom", a[1]))
    elif k == "qtag":
        out.append(("atom", a[2] + a[1] + a[2]))
    elif k == "re":
        if a[2]:
            out.append(("atom", "/" + a[2] + a[1] + a[2]))
        else:
            out.append(("regex", "/" + a[1]))      # runs until whitespace: must be followed by a space
    elif k == "paren":                             # explicit redundant parentheses
        out.append(("lp", "("))
        t_tokens(a[1], full, out)
        out.append(("rp", ")"))
    elif k == "not":
        out.append(("not", "!"))
        _t_child(a[1], 4, full, out)              # the operand of ! is an atom or a parenthesised expression
    else:
        need = t_prec(a)
        _t_child(a[1], need, full, out)
        out.append(("op", a[3]))
        _t_child(a[2], need, full, out)


def _t_child(c, need, full, out):
    if t_prec(c) < need or (full and t_prec(c) < 4):
        out.append(("lp", "("))
        t_tokens(c, full, out)
        out.append(("rp", ")"))
    else:
        t_tokens(c, full, out)


def t_join(toks, spaced):
    out = [" "] if spaced else []
    for i, (kind, text) in enumerate(toks):
        out.append(text)
        last = i == len(toks) - 1
        if kind == "not":
            continue                               # no space is documented between ! and its operand
        if spaced or (kind == "regex" and not last):
            out.append(" ")
    return "".join(out)


def t_render(a, full, spaced):
    toks = []
    t_tokens(a, full, toks)
    return t_join(toks, spaced)


def t_renderings(a):
    seen = []
    for full in (False, True):
        for spaced in (False, True):
            txt = t_render(a, full, spaced)
            if txt not in [s for _, s in seen]:
                seen.append(({"full_parens": full, "spaced": spaced}, txt))
    return seen


def t_eval(a, tags):
    k = a[0]
    if k in ("tag", "qtag"):
        return a[1] in tags
    if k == "re":
        return any(re.search(a[1], x) for x in tags)
    if k == "paren":
        return t_eval(a[1], tags)
    if k == "not":
        return not t_eval(a[1], tags)
    if k == "and":
        return t_eval(a[1], tags) and t_eval(a[2], tags)
    return t_eval(a[1], tags) or t_eval(a[2], tags)


def t_levels(a, acc=None):
    acc = set() if acc is None else acc
    if a[0] in ("not", "and", "or", "paren"):
        if a[0] != "paren":
            acc.add(a[0])
        for c in a[1:3]:
            if isinstance(c, list):
                t_levels(c, acc)
    return acc


_TP = None


def t_parse():
    global _TP
    if _TP is None:
        from insights.core import taglang
        _TP = taglang.parse
    return _TP


def t_truth_table(pred, tagsets, how):
    """The predicate on every tag set. `how` = "call-list": pred(list) (the documented way);
    "test-set": pred.test(set) - the docstring promises "a list or set of strings"."""
    def table(p):
        if how == "test-set":
            return [p.test(set(ts)) for ts in tagsets]
        return [p(list(ts)) for ts in tagsets]
    status, val = guarded(table, pred)
    if status == "ok":
        return val
    if status == "hang":
        return None
    out = []
    for ts in tagsets:                   # something raised or hung: find out where, one set at a time
        st, v = guarded(lambda p: table_one(p, ts, how), pred)
        out.append(v if st == "ok" else ("raised " + repr(v)[:60] if st == "exc" else "no result"))
    return out


def table_one(p, ts, how):
    return p.test(set(ts)) if how == "test-set" else p(list(ts))


def check_tag_case(case):
    """case = {"kind":"tag","ast":[...],"full_parens":bool,"spaced":bool,
               "universe":"abc"|"x" (which tag sets), "how":"call-list"|"test-set"}"""
    a = case["ast"]
    text = t_render(a, case["full_parens"], case["spaced"])
    tagsets = TX_TAGSETS if case.get("universe") == "x" else TAGSETS
    how = case.get("how", "call-list")
    feats = {"spaced": bool(case["spaced"]), "full_parens": bool(case["full_parens"]), "how": how}
    parse = t_parse()
    status, pred = guarded(parse, text)
    if status == "hang":
        return [("taglang:terminates", {"text": text}, "no result within %d CPU-s" % DOC_GUARD_S, feats)]
    if status == "exc":
        return [("taglang:accepts-documented-expression", {"text": text},
                 "rejected: " + " ".join(str(pred).split())[:120], feats)]
    exp = [t_eval(a, ts) for ts in tagsets]
    got = t_truth_table(pred, tagsets, how)
    if got is None:
        return [("taglang:terminates", {"text": text}, "no truth table within %d CPU-s" % DOC_GUARD_S, feats)]
    if exp != got or any(type(g) is not bool for g in got):
        return [("taglang:boolean-meaning-under-stated-precedence",
                 {"text": text, "truth_table": exp, "tag_sets": tagsets if len(tagsets) <= 16 else "all subsets of the tagx universe"},
                 got, feats)]
    return []


# ---- malformed tag expressions: one token deleted from a spaced rendering ------------------------

def t_recognise(toks):
    """Token-level reading of the documented language:  expr := term ((| or ,) term)* ;
    term := factor (& factor)* ;  factor := [!] (atom | '(' expr ')').  -> AST or None (malformed)."""
    pos = [0]

    def peek():
        return toks[pos[0]] if pos[0] < len(toks) else (None, None)

    def factor():
        neg = False
        if peek()[0] == "not":
            neg = True
            pos[0] += 1
        kind, text = peek()
        if kind in ("atom", "regex"):
            pos[0] += 1
            node = ["tok", text]
        elif kind == "lp":
            pos[0] += 1
            node = expr()
            if node is None or peek()[0] != "rp":
                return None
            pos[0] += 1
        else:
            return None
        return ["not", node] if neg else node

    def chain(sub, ops, kind):
        left = sub()
        while left is not None and peek()[0] == "op" and peek()[1] in ops:
            sym = peek()[1]
            pos[0] += 1
            right = sub()
            if right is None:
                return None
            left = [kind, left, right, sym]
        return left

    def term():
        return chain(factor, "&", "and")

    def expr():
        return chain(term, "|,", "or")

    node = expr()
    if node is None or pos[0] != len(toks):
        return None
    return node


def t_tok_eval(node, tags):
    k = node[0]
    if k == "tok":
        text = node[1]
        if text.startswith("/"):
            body = text[1:]
            if body[:1] in "'\"" and body[-1:] == body[:1]:
                body = body[1:-1]
            return any(re.search(body, x) for x in tags)
        if text[:1] in "'\"" and text[-1:] == text[:1]:
            text = text[1:-1]
        return text in tags
    if k == "not":
        return not t_tok_eval(node[1], tags)
    if k == "and":
        return t_tok_eval(node[1], tags) and t_tok_eval(node[2], tags)
    return t_tok_eval(node[1], tags) or t_tok_eval(node[2], tags)


T_FIXED_MALFORMED = ["", " ", " \t\n ", "&", "a &", "& a", "a | ", ", a", "( a", "a )", "( )", "!", "a b", "a & | b", "( a | b ) c"]


def check_tag_edit_case(case):
    """case = {"kind":"tagedit","ast":[...],"delete":i}  (token i of the minimal spaced rendering removed)
            | {"kind":"tagedit","text":"..."}             (fixed malformed texts: must be rejected).
    Malformed -> parse must raise; still well-formed -> same Boolean meaning as the remaining tokens."""
    if "text" in case:
        text, node = case["text"], None
    else:
        toks = []
        t_tokens(case["ast"], False, toks)
        toks = toks[:case["delete"]] + toks[case["delete"] + 1:]
        text = t_join(toks, True)
        node = t_recognise(toks)
    feats = {"well_formed_after_edit": node is not None}
    status, pred = guarded(t_parse(), text)
    if status == "hang":
        return [("taglang:terminates", {"text": text}, "no result within %d CPU-s" % DOC_GUARD_S, feats)]
    if node is None:
        if status == "exc":
            return []
        return [("taglang:rejects-malformed-expression", {"text": text}, "accepted", feats)]
    if status == "exc":
        return [("taglang:accepts-documented-expression", {"text": text},
                 "rejected: " + " ".join(str(pred).split())[:120], feats)]
    exp = [t_tok_eval(node, ts) for ts in TAGSETS]
    got = t_truth_table(pred, TAGSETS, "call-list")
    if got is None:
        return [("taglang:terminates", {"text": text}, "no truth table within %d CPU-s" % DOC_GUARD_S, feats)]
    if exp != got:
        return [("taglang:boolean-meaning-under-stated-precedence", {"text": text, "truth_table": exp, "tag_sets": TAGSETS}, got, feats)]
    return []


def t_edit_cases(tier):
    out = [{"kind": "tagedit", "text": x} for x in T_FIXED_MALFORMED]
    for d in (1, 2):
        for a in t_asts(tier, d):
            toks = []
            t_tokens(a, False, toks)
            out += [{"kind": "tagedit", "ast": a, "delete": i} for i in range(len(toks))]
    return out


# ---------------------------------------------------------------------------------------------
# units
# ---------------------------------------------------------------------------------------------

def units(tier, seed):
    b = BOUNDS[tier]
    terms = all_terms(b["term_nodes"])             # built in the parent: forked workers inherit it
    n = len(terms)
    per = 300 if tier == "quick" else 4000
    us = [{"part": "terms", "lo": lo, "hi": min(n, lo + per)} for lo in range(0, n, per)]
    xper = 600 if tier == "quick" else 6000
    us += [{"part": "xref", "lo": lo, "hi": min(n, lo + xper)} for lo in range(0, n, xper)]
    ns = len(shape_terms(tier))                    # built in the parent as well
    us += [{"part": "terms", "family": "shapes", "lo": lo, "hi": min(ns, lo + per)} for lo in range(0, ns, per)]
    us += [{"part": "xref", "family": "shapes", "lo": lo, "hi": min(ns, lo + xper)} for lo in range(0, ns, xper)]
    nj = len(j_values(tier))
    jper = 1200 if tier == "quick" else 6000
    us += [{"part": "json", "lo": lo, "hi": min(nj, lo + jper)} for lo in range(0, nj, jper)]
    nx = len(j_extra_values(tier))
    us += [{"part": "jsonx", "lo": lo, "hi": min(nx, lo + 250)} for lo in range(0, nx, 250)]
    ne = len(j_edit_bases(tier))
    us += [{"part": "jsonedit", "lo": lo, "hi": min(ne, lo + 120)} for lo in range(0, ne, 120)]
    nt = len(t_all(tier))
    tper = 700 if tier == "quick" else 2400
    us += [{"part": "taglang", "lo": lo, "hi": min(nt, lo + tper)} for lo in range(0, nt, tper)]
    ntx = len(t_extra_asts(tier))
    us += [{"part": "tagx", "lo": lo, "hi": min(ntx, lo + 350)} for lo in range(0, ntx, 350)]
    nn = len(jn_literals(tier))
    us += [{"part": "jsonnum", "lo": lo, "hi": min(nn, lo + 200)} for lo in range(0, nn, 200)]
    us += [{"part": "tagedit"}, {"part": "jsonmut"}]
    return us


def unit_weight(u):
    if u.get("family") == "shapes" or u["part"] == "jsonnum":
        return 4                        # small units: started first, so a wall-clock cap on a busy machine never drops them
    return {"terms": 3, "xref": 2, "taglang": 2}.get(u["part"], 1)


def _in_child(fn, *args):
    """Runs fn(*args) in a forked child and returns its (picklable) result.  The calling process has
    imported the library but NEVER runs a parser itself, so every child starts from exactly the module
    state a replay in a fresh interpreter starts from.  That is what makes a disagreement caused by
    state left behind on long-lived objects (one parser object called many times, module-level
    grammar objects, one grammar after another) reproducible from a descriptor ("prior" operations,
    "history" of the unit) instead of ending as 'does not reproduce'."""
    r, w = os.pipe()
    pid = os.fork()
    if pid == 0:
        status = 1
        try:
            os.close(r)
            try:
                payload = pickle.dumps(("ok", fn(*args)))
            except BaseException:
                payload = pickle.dumps(("error", traceback.format_exc()))
            with os.fdopen(w, "wb") as fh:
                fh.write(payload)
            status = 0
        finally:
            os._exit(status)
    os.close(w)
    with os.fdopen(r, "rb") as fh:
        data = fh.read()
    os.waitpid(pid, 0)
    if not data:
        raise RuntimeError("C19: a child process died without a result")
    status, out = pickle.loads(data)
    if status != "ok":
        raise RuntimeError("C19: failure in a child process:\n" + out)
    return out


def _class_open(res, clause, feats):
    """True while the Result still keeps violations of this (clause, features) class (first 3)."""
    key = (clause, canon_json(feats or {}))
    return sum(1 for w in res.violations if (w["clause"], canon_json(w.get("features") or {})) == key) < 3


def _not_reproduced(res, n=1):
    res.stat("disagreements_not_reproduced_from_a_descriptor_and_not_recorded", n)
    note = "some disagreements did not reproduce from a case descriptor in a pristine process and were not recorded (see counters)"
    if note not in res.notes:
        res.notes.append(note)


def run_unit(unit, tier):
    if unit["part"] == "xref":          # reference interpreters only
        return _xref_unit(unit, tier)
    P()                                 # the library is imported before any fork; no parser ever runs in this process
    res = Result()
    if unit["part"] == "terms":
        d, pending = _in_child(_terms_hot, unit, tier)
        res.merge_dict(d)
        _decide_terms(res, unit, tier, pending)
    else:
        d, candidates = _in_child(_stream_hot, unit, tier)
        res.merge_dict(d)
        _decide_stream(res, unit, tier, candidates)
    return res


# ---- terms ---------------------------------------------------------------------------------------

def _terms_hot(unit, tier):
    """The hot loop: every term of the unit, one parser object each, through its whole schedule.
    Nothing but the schedule runs here (re-deciding a disagreement would disturb the very history it
    may depend on); disagreements are returned as (term index, operation index)."""
    res = Result()
    terms = term_list(unit.get("family", "core"), tier)
    FAILV = peg.FAIL
    budget_ctx()                        # imports happen outside the CPU guard
    pending = []
    hangs = 0
    t0 = time.process_time()
    for ti in range(unit["lo"], unit["hi"]):
        if time.process_time() - t0 > UNIT_CPU_S[tier]:
            res.exhaustive = False
            res.notes.append("a terms unit was abandoned after %d CPU-s" % UNIT_CPU_S[tier])
            break
        t = terms[ti]
        size = term_size(t)
        res.maxi("term_nodes_completed", size)
        ops, exps, absorbed, skipped = schedule(t, size, tier)
        if skipped:
            res.stat("pairs_skipped_repetition_over_nonconsuming", skipped)
        if id(t) in _EXT_IDS:
            res.stat("terms_with_extended_symbols", 1)
        res.evals += len(exps)
        res.nontrivial += sum(1 for s in exps if s and absorbed[s])
        ncall = sum(1 for o in ops if o[0] == "call")
        nmut = sum(1 for o in ops if o[0] == "mutate")
        res.stat("call_evaluations", ncall)
        res.stat("mutate_between_parses_evaluations", nmut)
        res.stat("second_pass_evaluations", len(ops) - len(exps) - ncall - nmut)
        hung = False
        k = 0
        mine = []
        try:
            with cpu_guard():
                parser = build(t)
                session = Session()
                for k, (via, s) in enumerate(ops):
                    if via == "call":
                        got = run_call(parser, s)
                        ok = agree(exps[s], got, False)
                    else:
                        got = run_process(parser, s)
                        ok = agree(exps[s], got)
                        if via == "mutate" and after_op(via, got, session):
                            ok = False
                    if not ok:
                        mine.append(k)
                        if got is HANG and not hang_explained_by_leading_separator(t, s):
                            hung = True
                            break       # do not burn the budget on every input of a looping term
        except BudgetExceeded:
            hung = True
            if k not in mine:
                mine.append(k)
        pending.extend((ti, k) for k in mine)
        for e in set(-1 if e is FAILV else e[0] for e in exps.values()):
            res.outcomes.add(t[0] + ":F" if e < 0 else "%s:ok%d" % (t[0], e))
        if hung:
            hangs += 1
            if hangs >= MAX_HANGS_PER_UNIT:
                res.exhaustive = False
                res.notes.append("a terms unit was abandoned after %d non-terminating terms" % hangs)
                break
    res.maxi("max_process_calls_in_a_completed_parse", _MAX_STEPS[0])
    res.samples.append({"kind": "term", "term": terms[unit["lo"]], "input": "abA", "via": "process"})
    if unit.get("family") == "shapes":
        res.stat("operator_shape_terms", unit["hi"] - unit["lo"])
    return res.to_dict(), pending


def _check_many(cases):
    """Fresh-parser decisions for many cases in one child; None = not decided (after 5 non-terminating ones the
    rest of a unit's disagreements are only counted)."""
    out = []
    hangs = 0
    for c in cases:
        if hangs >= 5:
            out.append(None)
            continue
        vio = check_term_case(c)
        hangs += any(v[0] == "combinators:terminates" for v in vio)
        out.append(vio)
    return out


MAX_REDECIDED = 1000                # per unit: disagreements re-decided from a descriptor (the rest is counted)
MAX_REDECIDED_WITH_HISTORY = 3      # per unit: disagreements that need "prior" / "history" to reproduce
MAX_STREAM_HISTORIES = 6            # per unit: kept violations re-run after the earlier cases of the unit


def _decide_terms(res, unit, tier, pending):
    """Every disagreement of the hot loop is re-decided from a case descriptor: (1) on a freshly built
    parser - all of them in one child; those that open a new (clause, features) class once more ALONE in
    a pristine child, which is what the runner's fresh-interpreter confirmation will do; (2) the first few
    that do not reproduce that way: after the operations that preceded them on the same parser object;
    (3) after the earlier grammars of the unit.  The first variant that reproduces is recorded."""
    if not pending:
        return
    if len(pending) > MAX_REDECIDED:
        res.stat("disagreements_beyond_the_first_%d_per_unit_only_counted" % MAX_REDECIDED, len(pending) - MAX_REDECIDED)
        pending = pending[:MAX_REDECIDED]
    family = unit.get("family", "core")
    terms = term_list(family, tier)
    sched = {}
    cases = []
    for ti, k in pending:
        if ti not in sched:
            sched[ti] = schedule(terms[ti], term_size(terms[ti]), tier)[0]
        via, s = sched[ti][k]
        cases.append({"kind": "term", "term": terms[ti], "input": s, "via": via})
    fresh = _in_child(_check_many, cases)
    left = []
    for (ti, k), case, vio in zip(pending, cases, fresh):
        if vio is None:
            res.stat("disagreements_after_5_nonterminating_ones_per_unit_only_counted", 1)
            continue
        if vio and any(_class_open(res, c, f) for c, _, _, f in vio):
            vio = _in_child(check_term_case, case)       # alone, pristine
        if not vio:
            left.append((ti, k))
            continue
        for c, e, o, f in vio:
            res.violation(c, case, e, o, f)
    for n, (ti, k) in enumerate(left):
        if n >= MAX_REDECIDED_WITH_HISTORY:
            res.stat("disagreements_beyond_the_first_%d_per_unit_that_need_a_history_not_redecided" % MAX_REDECIDED_WITH_HISTORY,
                     len(left) - n)
            break
        via, s = sched[ti][k]
        prior = [list(o) for o in sched[ti][:k]]
        found = False
        for extra in ({"prior": prior}, {"prior": prior, "history": {"tier": tier, "lo": unit["lo"], "index": ti, "family": family}}):
            if not extra["prior"] and "history" not in extra:
                continue
            case = {"kind": "term", "term": terms[ti], "input": s, "via": via}
            case.update((key, val) for key, val in extra.items() if val)
            vio = _in_child(check_term_case, case)
            for c, e, o, f in vio:
                res.violation(c, case, e, o, f)
            if vio:
                found = True
                break
        if not found:
            _not_reproduced(res)


# ---- case streams (json, jsonx, jsonedit, taglang, tagx, tagedit) ----------------------------------

def stream_cases(unit, tier):
    """The cases of a unit in execution order: (case, nontrivial, outcome prefix, stat increments)."""
    part = unit["part"]
    if part in ("json", "jsonx"):
        vals = j_values(tier) if part == "json" else j_extra_values(tier)
        entries = ("loads",) if part == "json" else ("loads", "load")
        for vi in range(unit["lo"], unit["hi"]):
            v = vals[vi]
            for how in J_RENDERINGS:
                for entry in entries:
                    case = {"kind": "json", "value": v, "render": how}
                    if entry != "loads":
                        case["entry"] = entry
                    yield case, j_is_deep(v), "%s:%s" % (part, how), None
    elif part == "jsonedit":
        bases = j_edit_bases(tier)
        for vi in range(unit["lo"], unit["hi"]):
            for edit in j_edits(bases[vi]):
                yield {"kind": "jsonedit", "value": bases[vi], "edit": edit}, True, "jsonedit:" + edit[0], None
    elif part in ("taglang", "tagx"):
        asts = t_all(tier) if part == "taglang" else t_extra_asts(tier)
        nsets = len(TX_TAGSETS if part == "tagx" else TAGSETS)
        for ai in range(unit["lo"], unit["hi"]):
            a = asts[ai]
            lv = t_levels(a)
            for n, (opts, _txt) in enumerate(t_renderings(a)):
                case = {"kind": "tag", "ast": a, "full_parens": opts["full_parens"], "spaced": opts["spaced"]}
                if part == "tagx":
                    case["universe"] = "x"
                if (ai + n) % 2:             # both documented ways of asking, alternating over the cases
                    case["how"] = "test-set"
                yield case, len(lv) >= 2, "%s:%s" % (part, "".join(sorted(x[0] for x in lv))), ("tagset_evaluations", nsets)
    elif part == "tagedit":
        for case in t_edit_cases(tier):
            yield case, True, "tagedit", None
    elif part == "jsonnum":
        lits = jn_literals(tier)
        for li in range(unit["lo"], unit["hi"]):
            for frame in JN_FRAMES:
                for entry in (("loads", "load") if frame in ("bare", "object") else ("loads",)):
                    case = {"kind": "jsonnum", "literal": lits[li], "frame": frame}
                    if entry != "loads":
                        case["entry"] = entry
                    yield case, jn_is_hard(lits[li]), "jsonnum:%s:%s" % (frame, "float" if "." in lits[li] else "int"), None
    elif part == "jsonmut":
        for n in range(len(jm_steps())):
            yield {"kind": "jsonmut", "step": n}, n > 0, "jsonmut", None
    else:
        raise ValueError(part)


CHECKERS = {}


def check_stream_case(case):
    h = case.get("history")
    if h:
        # the earlier cases of the unit first, in this process (state on the module-level grammar objects)
        for n, (c, _, _, _) in enumerate(stream_cases(h["unit"], h["tier"])):
            if n >= h["count"]:
                break
            CHECKERS[c["kind"]](c)
    return CHECKERS[case["kind"]](case)


def _stream_hot(unit, tier):
    """All cases of the unit, in order, in one process (the module-level grammar objects are long-lived:
    thousands of documents go through the same objects).  Returns the Result and, for every violation the
    Result keeps, its position in the stream."""
    res = Result()
    hangs = 0
    candidates = []
    proposed = {}
    sample = None
    t0 = time.process_time()
    for n, (case, nontrivial, prefix, stat) in enumerate(stream_cases(unit, tier)):
        if sample is None:
            sample = case
        if time.process_time() - t0 > UNIT_CPU_S[tier]:
            res.exhaustive = False
            res.notes.append("a %s unit was abandoned after %d CPU-s" % (unit["part"], UNIT_CPU_S[tier]))
            break
        vio = CHECKERS[case["kind"]](case)
        res.case(nontrivial=nontrivial, outcome="%s:%s" % (prefix, vio[0][0] if vio else "agree"))
        if stat:
            res.stat(stat[0], stat[1])
        for c, e, o, f in vio:
            key = (c, canon_json(f or {}))
            if proposed.get(key, 0) < 6:                  # a few spares in case some do not reproduce alone
                proposed[key] = proposed.get(key, 0) + 1
                candidates.append((n, c, case, e, o, f))
            else:                                         # counted only; the class has its candidate examples
                res.violation_total += 1
                res.violation_counts[c] = res.violation_counts.get(c, 0) + 1
            hangs += c.endswith(":terminates")
        if hangs >= MAX_HANGS_PER_UNIT:
            res.exhaustive = False
            res.notes.append("a %s unit was abandoned after %d non-terminating cases" % (unit["part"], hangs))
            break
    if sample is not None:
        res.samples.append(sample)
    return res.to_dict(), candidates


def _decide_stream(res, unit, tier, candidates):
    """A violation that would be kept (and later replayed by the runner) is first reproduced ALONE in a
    pristine child; if it only shows after the earlier cases of the unit, the recorded case carries that
    history; if neither reproduces it, it is not recorded."""
    histories = 0
    for n, c, case, e, o, f in candidates:
        if not _class_open(res, c, f):
            res.violation(c, case, e, o, f)
            continue
        vio = _in_child(check_stream_case, case)
        use = case
        if not any(c2 == c for c2, _, _, _ in vio) and n and histories < MAX_STREAM_HISTORIES:
            histories += 1
            use = dict(case, history={"unit": unit, "tier": tier, "count": n})
            vio = _in_child(check_stream_case, use)
        hit = [v for v in vio if v[0] == c]
        if hit:
            c2, e2, o2, f2 = hit[0]
            if use is not case:
                f2 = dict(f2, after_earlier_cases_on_the_same_grammar_object=True)
            res.violation(c2, use, e2, o2, f2)
        else:
            _not_reproduced(res)


def _xref_unit(unit, tier):
    res = Result()
    b = BOUNDS[tier]
    shapes = unit.get("family") == "shapes"
    terms = term_list(unit.get("family", "core"), tier)
    top = b["term_nodes"]
    for ti in range(unit["lo"], unit["hi"]):
        t = terms[ti]
        size = term_size(t)
        ext = id(t) in _EXT_IDS
        if shapes:
            full = size <= b["xref_shapes_full"]
        else:
            full = size < top if not ext else size <= b["xref_ext_full"]
        for s in (INPUTS_NL if has_kind(t, "mark") else INPUTS):
            if not full and len(s) > b["xref_short"]:
                continue
            a = peg.evaluate(t, s)
            c = peg.tabular(t, s)
            if (a is peg.LOOP) != (c is peg.LOOP) or a != c or repr(a) != repr(c):
                raise RuntimeError("C19 reference interpreters disagree on %r %r: direct %r, tabular %r" % (t, s, a, c))
            res.stat("reference_cross_checked_pairs", 1)
    return res


def replay(case):
    kind = case.get("kind")
    if kind == "term":
        vio = check_term_case(case)
    elif kind in CHECKERS:
        vio = check_stream_case(case)
    else:
        raise ValueError(kind)
    return [{"clause": c, "case": case, "expected": e, "observed": o, "features": f} for c, e, o, f in vio]


CHECKERS.update({"json": check_json_case, "jsonnum": check_json_num_case, "jsonedit": check_json_edit_case, "jsonmut": check_json_mut_case,
                 "tag": check_tag_case, "tagedit": check_tag_edit_case})


TECHNIQUE = ("bounded exhaustive enumeration of grammar terms x inputs (stateless exploration of the real combinators, one "
             "long-lived parser object per term) against a reference PEG interpreter; exhaustive JSON values and single-token "
             "edits vs json.loads; exhaustive tag expressions vs Boolean evaluation")
LEVEL_TEXT = ("Every grammar term with <= 4 (quick) / <= 5 (thorough) nodes over all listed combinators, built with the "
              "real operators, and every association shape of 2..3 (thorough 4) applications of the binary operator forms "
              "(also under Many / Opt / map / Wrapper / naming), is run on every input of length <= 4 over {a,b,A} through process() and __call__ and compared "
              "with a reference PEG interpreter on accept/reject, end position and value, under a step budget so that "
              "non-termination is a reported divergence. The shipped JSON grammar is compared with json.loads on every value "
              "of depth <= 3 in four whitespace renderings, on every single-token edit of the depth <= 2 documents and on number "
              "literals at and around 2**53, 2**63, 2**64, 10**22, the largest double and 10**308/10**309 (type- and value-exact), the "
              "tag language with Boolean evaluation on every AST of depth <= 3 and 11 tag sets. The statement decided is 'no "
              "counterexample within the bound'; compositional errors (look-ahead inside repetition, choice under sequence "
              "after backtracking, a failed Lift/Map alternative leaving a trace) live at small term sizes, which is why "
              "exhaustive small scope is the right level here.")
LEVEL_NOTE = ("Trusted: ref/c19_peg.py (cross-checked against a bottom-up tabular formulation in every run), json.loads, "
              "the precedence stated in taglang's docstring. Not covered: StartTagName/EndTagName/WithIndent/HangingString "
              "side stacks, Map/Lift functions raising something other than Backtrack, JSON escapes other than \\\", "
              "leading zeros / single quotes / non-ASCII in JSON, the text of error messages.")
