"""C02 - a component fires exactly when its requirements are met; arguments bind in order.

Programs (component graphs) are enumerated exhaustively up to a size bound, built with the real
decorators, evaluated with the real engine and compared with the reference evaluator of the
documented rules (harness/graphs.py: ref_eval).
"""
import itertools

from mc.result import Result
from mc import enumx

ID = "C02"
LEVEL = "exploration"
TECHNIQUE = ("bounded exhaustive enumeration of component declarations x component types x dependency outcome "
             "vectors x enable switches, each executed with the real engine and compared with a reference evaluator")
LEVEL_TEXT = ("Every declaration (sequence of required items and at-least-one groups over 3 leaves, incl. repeated and shared "
              "members, plus every optional list) x every component type x every outcome vector of the leaves x enabled/disabled "
              "is built with the real decorators and run through dr.run; invocation, the identity and order of positional "
              "arguments, missing-requirement reports / rule skip responses and the enable switch (incl. apply_default_enabled / "
              "apply_configs name-prefix matching) are compared with a 40-line reference. Part 'dag': EVERY dependency DAG over "
              "<= 5 (quick) / 6 (thorough) components (every node depends on any subset of the earlier ones: chains, fans, diamonds, "
              "shared dependencies that have dependencies of their own ...), edges uniformly required / one at-least-one group / "
              "optional, all-value plus every single deviating node, both iteration orders of the engine's dependency sets, is "
              "evaluated through every entry point that BUILDS the graph from targets (dr.run(target), dr.run([targets]), "
              "dr.run(get_dependency_graph(..)), run_incremental / run_all) and compared node by node with the same reference. "
              "Complete within the stated bounds.")
LEVEL_NOTE = ("Bounded: <= 3 leaves, <= 2 (quick) / 3 (thorough) declaration items, chains of depth 2. A dependency that returns None "
              "counts as having produced a value (documented for conditions); datasource/parser calling conventions are checked in their "
              "documented form (broker / first dependency), not the positional sentence.")
RULE = ("focus component over 3 leaves: all declaration sequences x optional lists x 7 component types x leaf outcome vectors; "
        "plus depth-2 chains, class-level requires/optional, enable/disable configurations. A case is non-trivial when at least one "
        "leaf produced no value and the focus declares it (so firing / reporting is actually decided by the rule under test). "
        "Part dag: all DAG shapes (node i depends on any subset of nodes < i; targets = the nodes nothing depends on) x edge kind "
        "x type palette x {all value, one node skip / disabled} x hash order x graph-building entry point; non-trivial when the "
        "shape has a shared dependency (a node with >= 2 dependents)")
ASSUMPTIONS = ["reference evaluator harness/graphs.py:ref_eval encodes the documented dr semantics",
               "None return value counts as a produced value (weaker reading of the statement)"]
# "zero": the leaf produces the falsy value 0 - a value all the same (added after a seeded change that bound falsy
# values as None showed every generated value was truthy)
BOUNDS = {"quick": {"leaves": 3, "max_items": 2, "leaf_outcomes": ["value", "skip", "none", "zero", "disabled"],
                    "dag": {"max_nodes": 5, "edge_kinds": {"req": 5, "group": 4, "opt": 4}, "palettes": ["plain", "mixed"],
                            "deviations": ["skip", "disabled"], "hash_orders": ["index", "reversed (shapes with a shared dependency)"],
                            "entries": ["run-target", "run-list", "graph-of"],
                            "note": "5 nodes: required edges, deviation skip only, one door per shape (dr.run(target) when the shape "
                                    "has a single target, dr.run([targets]) otherwise); everything else in full up to 4 nodes"}},
          "thorough": {"leaves": 3, "max_items": 3, "leaf_outcomes": ["value", "skip", "none", "zero", "disabled", "content", "error"],
                       "dag": {"max_nodes": 6, "edge_kinds": {"req": 6, "group": 5, "opt": 5},
                               "palettes": ["plain", "component", "combiner", "condition", "mixed"] ,
                               "deviations": ["skip", "disabled", "error", "none"], "hash_orders": ["index", "reversed"],
                               "entries": ["run-target", "run-list", "graph-of", "incremental", "run-all"],
                               "note": "6 nodes: palette plain, required edges, deviation skip only"}}}
CAP_S = {"quick": 300, "thorough": 3000}

SINGLES = [0, 1, 2]
GROUPS = [[0], [0, 1], [1, 0], [1, 2], [0, 1, 2], [0, 0], []]     # [] = an at-least-one group without members: never satisfiable
ITEMS = SINGLES + GROUPS
OPTS = [[], [0], [2], [1, 2]]
FOCUS_TYPES = ["plain", "component", "combiner", "rule", "condition", "datasource", "parser"]


def decls(max_items):
    out = [[]]
    for k in range(1, max_items + 1):
        out.extend([list(t) for t in itertools.product(ITEMS, repeat=k)])
    return out


def leaf_node(outcome):
    nd = {"t": "plain", "decl": [], "out": "value"}
    if outcome == "disabled":
        nd["en"] = False
    else:
        nd["out"] = outcome
    return nd


def focus_case(ftype, decl, opt, leaves, focus_en=True, focus_out="value"):
    nodes = [leaf_node(o) for o in leaves]
    f = {"t": ftype, "decl": decl, "out": focus_out}
    if opt:
        f["opt"] = opt
    if not focus_en:
        f["en"] = False
    nodes.append(f)
    return {"kind": "graph", "nodes": nodes, "targets": [len(nodes) - 1]}


def units(tier, seed):
    b = BOUNDS[tier]
    ds = decls(b["max_items"])
    us = []
    nchunk = 12 if tier == "quick" else 60
    for ft in FOCUS_TYPES:
        for ci in range(nchunk):
            us.append({"part": "focus", "type": ft, "chunk": ci, "of": nchunk})
    for i in range(8):
        us.append({"part": "chain", "shard": i, "of": 8})
    for k in range(9):
        us.append({"part": "class-level", "shard": k})
    us.append({"part": "configs"})
    us.extend(dag_units(tier))
    return us


def unit_weight(u):
    if u["part"] == "dag":
        return 4 if u["n"] >= 5 else 1
    return 3 if u["part"] == "focus" else 1


# ---- part "dag": every small dependency DAG, evaluated through the doors that build the graph from targets ---------

DAG = {"quick": {"kinds": {"req": 5, "group": 4, "opt": 4}, "palettes": ["plain", "mixed"], "dev": ["skip", "disabled"],
                 "entries": ["run-target", "run-list", "graph-of"], "rev": "shared", "big": None,
                 "top": {"n": 5, "dev": ["skip"], "one_door": True}},
       "thorough": {"kinds": {"req": 5, "group": 5, "opt": 5}, "palettes": ["plain", "component", "combiner", "condition", "mixed"],
                    "dev": ["skip", "disabled", "error", "none"],
                    "entries": ["run-target", "run-list", "graph-of", "incremental", "run-all"], "rev": "all",
                    "big": {"n": 6, "kinds": ["req"], "palettes": ["plain"], "dev": ["skip"]}}}


def dag_shapes(n):
    """All DAGs over n nodes in topological index order: node i depends on any subset of the nodes < i (as sorted lists)."""
    per_node = [[[j for j in range(i) if m >> j & 1] for m in range(1 << i)] for i in range(n)]
    return [list(t) for t in itertools.product(*per_node)]


def dag_units(tier):
    cfg = DAG[tier]
    us = []
    for pal in cfg["palettes"]:
        us.append({"part": "dag", "n": 0, "palette": pal, "shard": 0, "of": 1})       # n = 0: all shapes over 1..4 nodes
        for i in range(8):
            us.append({"part": "dag", "n": 5, "palette": pal, "shard": i, "of": 8})
    if cfg["big"]:
        for pal in cfg["big"]["palettes"]:
            for i in range(64):
                us.append({"part": "dag", "n": cfg["big"]["n"], "palette": pal, "shard": i, "of": 64})
    return us


def dag_types(shape, palette):
    if palette != "mixed":
        return [palette] * len(shape)
    # mixed: as in a real rule set - sources are plain components, inner nodes combiners / conditions, targets rules
    depended = set(j for deps in shape for j in deps)
    out = []
    for i, deps in enumerate(shape):
        if i not in depended:
            out.append("rule")
        elif not deps:
            out.append("component")
        else:
            out.append("combiner" if i % 2 else "condition")
    return out


def dag_case(shape, kind, palette, dev, rev, entry):
    types = dag_types(shape, palette)
    nodes = []
    for i, deps in enumerate(shape):
        nd = {"t": types[i], "decl": [], "out": "value"}
        if deps:
            if kind == "req":
                nd["decl"] = list(deps)
            elif kind == "group":
                nd["decl"] = [list(deps)]
            else:
                nd["opt"] = list(deps)
        if dev is not None and dev[0] == i:
            if dev[1] == "disabled":
                nd["en"] = False
            else:
                nd["out"] = dev[1]
        nodes.append(nd)
    depended = set(j for deps in shape for j in deps)
    case = {"kind": "graph", "nodes": nodes, "targets": [i for i in range(len(shape)) if i not in depended], "entry": entry}
    if rev:
        case["hashes"] = list(range(len(shape) - 1, -1, -1))
    return case


def _shared(shape):
    cnt = {}
    for deps in shape:
        for j in deps:
            cnt[j] = cnt.get(j, 0) + 1
    return any(v >= 2 for v in cnt.values())


def run_dag_unit(unit, tier):
    res = Result()
    cfg = DAG[tier]
    pal = unit["palette"]
    big = cfg["big"] if cfg["big"] and unit["n"] == cfg["big"]["n"] else None
    sizes = [1, 2, 3, 4] if unit["n"] == 0 else [unit["n"]]
    for n in sizes:
        shapes = [s for k, s in enumerate(dag_shapes(n)) if k % unit["of"] == unit["shard"]]
        kinds = big["kinds"] if big else [k for k in ("req", "group", "opt") if cfg["kinds"][k] >= n]
        devkinds = big["dev"] if big else cfg["dev"]
        top = cfg.get("top") if cfg.get("top") and cfg["top"]["n"] == n else None     # the largest quick size is thinned out
        if top:
            devkinds = top["dev"]
        for shape in shapes:
            shared = _shared(shape)
            nedges = sum(len(d) for d in shape)
            nsinks = n - len(set(j for deps in shape for j in deps))
            for kind in kinds:
                if kind != "req" and not nedges:
                    continue                      # without edges the edge kind is no variation
                devs = [None] + [(i, d) for i in range(n) for d in devkinds]
                for dev in devs:
                    for rev in (False, True):
                        # the reversed hash order only matters where a set holds >= 2 components
                        if rev and (nedges < 2 or (cfg["rev"] == "shared" and not shared)):
                            continue
                        for entry in cfg["entries"]:
                            if entry == "run-target" and nsinks != 1:
                                continue
                            if top and top["one_door"] and entry != ("run-target" if nsinks == 1 else "run-list"):
                                continue
                            case = dag_case(shape, kind, pal, dev, rev, entry)
                            _run(res, case, nontrivial=shared, tag="%s/%s" % (entry, kind))
    return res


# ---- the checker ---------------------------------------------------------------------------

def check_graph_case(case):
    """Builds the graph, runs it with the real engine, compares every node with the reference."""
    from insights.core import dr
    from harness import graphs as G
    desc = case
    # "hashes": forced hash per node = the iteration order of the engine's dependency sets (owned, part of the case)
    g = G.Graph(desc, hashes=case.get("hashes"))
    out = []
    try:
        names = [c.__name__ for c in g.nodes]
        targets = case.get("targets") or [len(g.nodes) - 1]
        broker = g.make_broker()
        # "entry": the public door through which the graph is BUILT FROM THE TARGETS and evaluated
        entry = case.get("entry") or "graph-of"
        tnodes = [g.nodes[t] for t in targets]
        if entry not in ("graph-of", "run-target", "run-list", "incremental", "run-all"):
            raise ValueError(entry)
        try:
            if entry == "graph-of":
                dr.run(g.dep_graph(targets), broker)            # dr.run(dr.get_dependency_graph(t) [merged over targets])
            elif entry == "run-target":
                dr.run(tnodes[0], broker)                       # a single component: the graph is built for you
            elif entry == "run-list":
                dr.run(tnodes, broker)                          # a list of components
            elif entry == "incremental":
                for _ in dr.run_incremental(tnodes, broker):    # one evaluation per connected sub-graph, same broker
                    pass
            else:
                dr.run_all(tnodes, broker)
        except Exception as ex:
            return [("run:raises", "dr.run returns", repr(ex))]
        in_graph = G.closure(desc, targets)
        R = G.ref_eval(desc, names, in_graph)
        invokes = {}
        for ev in g.log:
            if ev[0] == "invoke":
                invokes.setdefault(ev[1], []).append(ev[2])
        for i, nd in enumerate(desc["nodes"]):
            if i not in in_graph:
                continue
            r = R[i]
            c = g.nodes[i]
            n_inv = len(invokes.get(i, []))
            if n_inv != r.invocations:
                out.append(("fires:iff-requirements-met", {"node": i, "invocations": r.invocations, "status": r.status},
                            {"node": i, "invocations": n_inv}))
                continue
            t = nd["t"]
            if r.invocations == 1 and r.args is not None:
                got = invokes[i][0]
                if G.canon_value(got) != G.canon_ref_value(_to_list(r.args)):
                    out.append(("args:declaration-order", {"node": i, "args": _to_list(r.args)}, {"node": i, "args": G.canon_value(got)}))
                elif t in G.POSITIONAL:
                    # identity: each positional argument IS the dependency's value in the broker
                    deps = G.flat_deps(nd)
                    for k, j in enumerate(deps):
                        want = broker.get(g.nodes[j]) if R[j].present else None
                        if got[k] is not want:
                            out.append(("args:identity", {"node": i, "pos": k, "dep": j}, repr(got[k])))
                            break
            # reports
            mr = broker.missing_requirements.get(c)
            if r.status == "missing":
                exp = ([g.nodes[j] for j in r.missing[0]], [[g.nodes[j] for j in grp] for grp in r.missing[1]])
                exp_names = _names(exp)
                if t == "rule":
                    resp = broker.get(c)
                    ok = (resp is not None and getattr(resp, "get", lambda k: None)("type") == "skip")
                    got_m = _names(resp.missing) if ok else None
                    if not ok or got_m != exp_names or resp.get("rule_fqdn") != dr.get_name(c):
                        out.append(("report:rule-skip-response", {"node": i, "missing": exp_names, "rule_fqdn": dr.get_name(c)},
                                    {"node": i, "value": G.canon_value(resp), "missing": got_m}))
                else:
                    got_m = _names(mr) if mr is not None else None
                    if got_m != exp_names:
                        out.append(("report:missing-requirements", {"node": i, "missing": exp_names}, {"node": i, "missing": got_m}))
                    if c in broker:
                        out.append(("report:unfired-has-value", {"node": i, "absent": True}, {"node": i, "value": G.canon_value(broker.get(c))}))
            else:
                if mr is not None:
                    out.append(("report:spurious-missing", {"node": i, "status": r.status}, {"node": i, "missing": _names(mr)}))
            if r.status == "disabled" and (c in broker or n_inv):
                out.append(("enable:disabled-not-run", {"node": i}, {"node": i, "in_broker": c in broker, "invocations": n_inv}))
            if r.status == "fired":
                if c not in broker:
                    out.append(("fires:value-stored", {"node": i, "value": G.canon_ref_value(r.value)}, {"node": i, "absent": True}))
                elif t != "rule" and G.canon_value(broker[c]) != G.canon_ref_value(_to_list(r.value)):
                    out.append(("fires:value-stored", {"node": i, "value": G.canon_ref_value(_to_list(r.value))},
                                {"node": i, "value": G.canon_value(broker[c])}))
                elif t == "rule" and G.canon_value(broker[c])[:2] != list(r.value[:2]):
                    out.append(("fires:value-stored", {"node": i, "value": list(r.value)}, {"node": i, "value": G.canon_value(broker[c])}))
            if r.status == "failed" and c in broker:
                out.append(("fires:failed-has-no-value", {"node": i}, {"node": i, "value": G.canon_value(broker[c])}))
        f = R[targets[0]]
        case["_outcome"] = "%s:%s:args=%s" % (desc["nodes"][targets[0]]["t"], f.status, len(f.args) if f.args is not None else "-")
        return out
    finally:
        g.cleanup()


def _to_list(x):
    if isinstance(x, tuple):
        return [_to_list(y) for y in x]
    if isinstance(x, list):
        return [_to_list(y) for y in x]
    return x


def _names(m):
    if m is None:
        return None
    return [[getattr(c, "__name__", repr(c)).split("_")[-1] for c in m[0]],
            [[getattr(c, "__name__", repr(c)).split("_")[-1] for c in grp] for grp in m[1]]]


def _nontrivial(case):
    nodes = case["nodes"]
    f = nodes[case["targets"][0]] if case.get("targets") else nodes[-1]
    from harness.graphs import all_deps
    for j in all_deps(f):
        nd = nodes[j]
        if nd.get("en", True) is False or nd.get("out", "value") in ("skip", "content", "error", "cpe", "timeout"):
            return True
    return False


# ---- class-level requires / optional --------------------------------------------------------

def check_classlevel_case(case):
    """case = {"kind":"classlevel","implicit_req":[...leaf idx],"implicit_opt":[...],"decl":[...],"opt":[...],"leaves":[outcomes]}"""
    from insights.core import dr
    from harness import graphs as G
    out = []
    leaves_desc = {"nodes": [leaf_node(o) for o in case["leaves"]]}
    g = G.Graph(leaves_desc)
    focus = None
    try:
        L = g.nodes

        class implicit(dr.ComponentType):
            requires = [L[j] for j in case["implicit_req"]]
            optional = [L[j] for j in case["implicit_opt"]]
        calls = []

        def body(*a):
            calls.append(a)
            return "focus"
        body.__name__ = "clsfocus_%d" % G._counter[0]
        body.__module__ = G.MODNAME
        args = [[L[j] for j in it] if isinstance(it, list) else L[it] for it in case["decl"]]
        kw = {"optional": [L[j] for j in case["opt"]]} if case["opt"] else {}
        form = case.get("form", "positional")
        if form == "optional-not-a-list" and len(case["opt"]) == 1:
            kw = {"optional": L[case["opt"][0]]}              # documented convenience: a single component instead of a list
        if form == "requires-keyword":
            kw["requires"] = args                               # the deprecated spelling requires=[...]
            args = []
        if form == "optional-empty-list":
            kw.setdefault("optional", [])
        implicit(*args, **kw)(body)
        focus = body
        broker = dr.run(dr.get_dependency_graph(body), g.make_broker())
        present = [o not in ("skip", "content", "error", "disabled") for o in case["leaves"]]     # "zero" is present
        req = list(case["implicit_req"]) + [it for it in case["decl"] if not isinstance(it, list)]
        grp = [it for it in case["decl"] if isinstance(it, list)]
        miss = ([j for j in req if not present[j]], [gr for gr in grp if not any(present[j] for j in gr)])
        fire = not miss[0] and not miss[1]
        flat = list(case["implicit_req"])
        for it in case["decl"]:
            flat.extend(it if isinstance(it, list) else [it])
        flat += list(case["implicit_opt"]) + list(case["opt"])
        if fire:
            exp = [broker.get(L[j]) if present[j] else None for j in flat]
            if len(calls) != 1:
                out.append(("fires:iff-requirements-met", 1, len(calls)))
            elif len(calls[0]) != len(exp) or any(a is not b for a, b in zip(calls[0], exp)):
                out.append(("args:declaration-order", G.canon_value(exp), G.canon_value(list(calls[0]))))
        else:
            if calls:
                out.append(("fires:iff-requirements-met", 0, len(calls)))
            mr = broker.missing_requirements.get(body)
            exp_names = [["n%d" % j for j in miss[0]], [["n%d" % j for j in gr] for gr in miss[1]]]
            if _names(mr) != exp_names:
                out.append(("report:missing-requirements", exp_names, _names(mr)))
        # the class-level lists must not have been mutated by instantiation
        if implicit.requires != [L[j] for j in case["implicit_req"]] or implicit.optional != [L[j] for j in case["implicit_opt"]]:
            out.append(("class-level:lists-untouched", "unchanged", "mutated"))
        return out
    finally:
        if focus is not None:
            G.cleanup_components([focus])
        g.cleanup()
        # the per-case ComponentType subclass must not stay in the by-type table (registration scans every known type)
        for k in [k for k in dr.COMPONENTS_BY_TYPE if k.__name__ == "implicit" and k.__module__ == __name__]:
            del dr.COMPONENTS_BY_TYPE[k]


# ---- enable / disable configuration ------------------------------------------------------------

def _run_cfg(res, case, default, cf):
    try:
        vio = check_config_case(case)
    except Exception as ex:
        vio = [("harness:raises", "no exception", repr(ex))]
    res.case(nontrivial=any(c["enabled"] is False or default is False for c in cf), outcome="cfg:%d" % len(vio))
    for v in vio:
        res.violation(v[0], case, v[1], v[2])


def check_config_case(case):
    """case = {"kind":"config","default":bool|None,"configs":[{"name_kind":..,"enabled":bool|None}],"via":...}
    Three fresh components named <p>a, <p>ab, <p>b ; config names are built from the prefix p."""
    import insights
    from insights.core import dr
    from harness import graphs as G
    out = []
    desc = {"nodes": [{"t": "plain", "decl": []}, {"t": "plain", "decl": []}, {"t": "plain", "decl": []},
                      {"t": "plain", "decl": [], "opt": [0, 1, 2]}]}
    tag = "cfg%d" % (G._counter[0] + 1)
    g = G.Graph(desc, name_tag=tag)
    saved_enabled = dr.ENABLED
    saved_items = dict(dr.ENABLED)
    try:
        # rename for prefix relations: n0 -> X, n1 -> Xy (X is a prefix of Xy), n2 -> Z
        base = G.MODNAME + "." + tag
        # "order": which of the three names is REGISTERED first (the registries are insertion-ordered; the rule must
        # not depend on the longer name coming after the name it extends)
        order = case.get("order") or [0, 1, 2]
        for c, suffix in zip(g.nodes[:3], [("_X", "_Xy", "_Z")[j] for j in order]):
            c.__name__ = tag + suffix
            c.__qualname__ = tag + suffix
        fq = [dr.get_name(c) for c in g.nodes[:3]]
        namemap = {"exact0": fq[0], "exact1": fq[1], "exact2": fq[2], "prefix-all": base, "nomatch": base + "_Q",
                   "longer": fq[0] + "yy"}
        cfg = {"configs": []}
        if case["default"] is not None:
            cfg["default_component_enabled"] = case["default"]
        for cc in case["configs"]:
            e = {"name": namemap[cc["name_kind"]]}
            if cc["enabled"] is not None:
                e["enabled"] = cc["enabled"]
            cfg["configs"].append(e)
        if case.get("warm"):
            # history: the components were evaluated / asked about BEFORE the configuration is applied (dr.ENABLED is a
            # defaultdict that remembers every component it was ever asked about)
            for c in g.nodes:
                dr.is_enabled(c)
        if case.get("apply_default"):
            insights.apply_default_enabled(cfg)
        insights.apply_configs(cfg)
        default = True if case["default"] is None else case["default"]
        # reference: documented rule - every component whose name starts with `name` gets the entry's
        # enabled value (default when absent); later entries override earlier ones; unmatched
        # components keep the default (when apply_default_enabled ran) or stay enabled.
        exp = []
        for k in range(3):
            val = default if case.get("apply_default") else True
            for cc in case["configs"]:
                nm = namemap[cc["name_kind"]]
                # "name is the prefix or exact name": an exact name selects that component only
                hit = (fq[k] == nm) if nm in fq else fq[k].startswith(nm)
                if hit:
                    val = default if cc["enabled"] is None else cc["enabled"]
            exp.append(bool(val))
        got = [bool(dr.is_enabled(c)) for c in g.nodes[:3]]
        if got != exp:
            out.append(("enable:config-prefix-rule", exp, got))
        broker = dr.run(g.dep_graph([3]), g.make_broker())
        ran = [any(ev[0] == "invoke" and ev[1] == k for ev in g.log) for k in range(3)]
        if ran != exp:
            out.append(("enable:disabled-not-run", exp, ran))
        inv = [ev for ev in g.log if ev[0] == "invoke" and ev[1] == 3]
        focus_enabled = bool(dr.is_enabled(g.nodes[3]))
        if focus_enabled:
            want = [("v" if exp[k] else None) for k in range(3)]
            seen = [(a[0] if a is not None else None) for a in inv[0][2]] if inv else None
            if seen != want:
                out.append(("enable:dependents-see-disabled-as-missing", want, seen))
        return out
    finally:
        dr.ENABLED = saved_enabled
        for k in list(dr.ENABLED.keys()):
            if k not in saved_items:
                del dr.ENABLED[k]
        for k, v in saved_items.items():
            dr.ENABLED[k] = v
        g.cleanup()


# ---- exploration ---------------------------------------------------------------------------

def run_unit(unit, tier):
    res = Result()
    b = BOUNDS[tier]
    part = unit["part"]
    if part == "dag":
        return run_dag_unit(unit, tier)
    if part == "focus":
        ft = unit["type"]
        ds = decls(b["max_items"])
        mine = [d for k, d in enumerate(ds) if k % unit["of"] == unit["chunk"]]
        vectors = list(itertools.product(b["leaf_outcomes"], repeat=3))
        for d in mine:
            if ft == "parser" and (not d or isinstance(d[0], list)):
                continue       # a parser's first dependency is by definition its (single) datasource
            for opt in (OPTS if ft != "parser" else [[]]):
                used = set()
                for it in d:
                    used.update(it if isinstance(it, list) else [it])
                used.update(opt)
                for vec in vectors:
                    # leaves the focus does not mention cannot influence it: keep them at the default
                    if any(vec[j] != "value" and j not in used for j in range(3)):
                        continue
                    for focus_en in ((True, False) if len(d) <= 1 else (True,)):
                        case = focus_case(ft, d, opt, list(vec), focus_en)
                        _run(res, case)
        return res
    if part == "chain":
        # depth-2 chains: leaf -> mid (any type, any outcome) -> focus (any type) with a sibling leaf
        outs = ["value", "none", "skip", "content", "error", "cpe"]
        mids = ["plain", "component", "combiner", "condition", "rule", "datasource"]
        foci = FOCUS_TYPES
        space = itertools.product(mids, outs, [True, False], foci, [[1], [[1, 2]], [2, 1], [[1], 2]], [[], [1]],
                                  ["value", "skip"], ["value", "skip"])
        for (mt, mo, men, ft, fdecl, fopt, l0, l2) in enumx.shard(space, unit["shard"], unit["of"]):
            if ft == "parser" and (isinstance(fdecl[0], list) or fopt):
                continue
            nodes = [leaf_node(l0), {"t": mt, "decl": [0], "out": mo}, leaf_node(l2), {"t": ft, "decl": fdecl, "out": "value"}]
            if not men:
                nodes[1]["en"] = False
            if fopt:
                nodes[3]["opt"] = fopt
            case = {"kind": "graph", "nodes": nodes, "targets": [3]}
            _run(res, case)
        return res
    if part == "class-level":
        for ireq, iopt in list(itertools.product([[], [0], [0, 1]], [[], [2], [1]]))[unit["shard"]:unit["shard"] + 1]:
            for d in decls(1 if tier == "quick" else 2):
                for opt, form in (([], "positional"), ([2], "positional"), ([2], "optional-not-a-list"), ([], "optional-empty-list"),
                                  ([2], "requires-keyword")):
                    if form == "requires-keyword" and not d:
                        continue
                    for vec in itertools.product(["value", "skip", "zero", "disabled"], repeat=3):
                        case = {"kind": "classlevel", "implicit_req": ireq, "implicit_opt": iopt, "decl": d, "opt": opt,
                                "leaves": list(vec), "form": form}
                        try:
                            vio = check_classlevel_case(case)
                        except Exception as ex:
                            vio = [("harness:raises", "no exception", repr(ex))]
                        res.case(nontrivial=bool(ireq or iopt) and any(v != "value" for v in vec), outcome="cls:%d" % len(vio))
                        for v in vio:
                            res.violation(v[0], case, v[1], v[2])
        res.samples.append({"kind": "classlevel", "implicit_req": [0], "implicit_opt": [2], "decl": [[0, 1]], "opt": [], "leaves": ["skip", "value", "value"]})
        return res
    if part == "configs":
        kinds = ["exact0", "exact1", "exact2", "prefix-all", "nomatch", "longer"]
        entries = [{"name_kind": k, "enabled": e} for k in kinds for e in (True, False, None)]
        cfgs = [[]] + [[e] for e in entries] + [[e1, e2] for e1 in entries for e2 in entries]
        for default in (None, True, False):
            for apply_default, order in itertools.product((False, True), ([0, 1, 2], [1, 0, 2], [2, 1, 0])):
                for cf in cfgs:
                    case = {"kind": "config", "default": default, "configs": cf, "apply_default": apply_default}
                    if order != [0, 1, 2]:
                        case["order"] = order
                    variants = [case]
                    if apply_default and order == [0, 1, 2]:
                        variants.append(dict(case, warm=True))
                    for case in variants:
                        _run_cfg(res, case, default, cf)
        res.samples.append({"kind": "config", "default": False, "configs": [{"name_kind": "exact0", "enabled": True}], "apply_default": True})
        return res
    raise ValueError(part)


def _run(res, case, nontrivial=None, tag=None):
    try:
        vio = check_graph_case(case)
    except Exception as ex:
        import traceback
        vio = [("harness:raises", "no exception", traceback.format_exc()[-800:])]
    oc = case.pop("_outcome", "?")
    if tag:
        oc = "%s|%s" % (tag, oc.split(":args=")[0])
    res.case(nontrivial=_nontrivial(case) if nontrivial is None else nontrivial,
             outcome="g:%s|%s" % (",".join(sorted(set(v[0] for v in vio))), oc),
             sample=case if (res.evals % 5000 == 17) else None)
    for v in vio:
        res.violation(v[0], case, v[1], v[2])


def replay(case):
    kind = case.get("kind")
    if kind == "graph":
        vio = check_graph_case(case)
    elif kind == "classlevel":
        vio = check_classlevel_case(case)
    elif kind == "config":
        vio = check_config_case(case)
    else:
        raise ValueError(kind)
    return [{"clause": v[0], "case": case, "expected": v[1], "observed": v[2], "features": {}} for v in vio]
