"""C13 - package version comparison is RPM's ordering.

Exhaustive enumeration of all ordered pairs of version strings over a sharp alphabet, compared
with a C transcription of upstream rpmvercmp() (ref/rpmvercmp.c, validated against rpm's own
rpmvercmp.at table on every run), plus the total-preorder argument (rank classes), the
epoch/version/release layering, every rich operator of InstalledRpm and newest/oldest.

Boundary dimension (parts "boundary-*"): EMPTY fields.  The empty string is a real version / release value (RPM:
rpmvercmp("", "1") == -1, rpmvercmp("", "~") == 1) that is falsy in Python, so `if not release`, `release or ...`
shortcuts are invisible while every generated field is non-empty.  A small epoch x version x release universe whose
version and release sets contain "" is explored through every constructor that can produce such a package (dict, the
JSON rpm -qa line, and the package string where the form can express it: an empty version needs the "epoch:" prefix,
an empty release cannot be written), as ALL ordered pairs (reference answer, six operators, antisymmetry), ALL ordered
triples (transitivity of the comparison and of <=, ==, < - reference-free) and ALL lists of <= 3 in every order
(newest / oldest / get_max / get_min, mixin and parser).
Outside the quantifier ("epoch, version and release STRINGS"), hence not enumerated: a missing / None version or release
(not a string) and epoch "" (RPM epochs are unsigned integers or absent; "" is neither).
"""
import ctypes
import functools
import itertools
import json
import os
import subprocess

from mc.result import Result
from mc import enumx

ID = "C13"
LEVEL = "exploration"
RULE = ("all ordered pairs of all strings of length <= L over the alphabet {0,1,9,a,B,.,:,e-acute,~,^} "
        "(vercmp), all pairs over epoch x version x release universes (EVR and InstalledRpm operators), "
        "all lists of <= 3 packages (newest/oldest); a case is non-trivial when the two operands differ "
        "and share their first character (the decision is not made on the first character); boundary parts: all ordered "
        "pairs / triples / lists of <= 3 over an epoch x version x release universe whose version and release sets contain "
        "the EMPTY string, per constructor (dict, JSON line, package string where expressible); non-trivial there = the "
        "operands differ and at least one version / release field is empty")
ASSUMPTIONS = ["ref/rpmvercmp.c is a faithful transcription of upstream rpmvercmp(); it is re-validated "
               "against the official rpmvercmp.at rows on every run",
               "bounded: no counterexample with <= L symbols over the stated alphabet, nothing more"]

SIGMA = ["0", "1", "9", "a", "B", ".", ":", "é", "~", "^"]   # two ASCII separators: one of "._+-" and one outside that set
BOUNDS = {"quick": {"max_len": 3, "evr_versions": 12, "list_len": 3,
                    "boundary_universe": "epoch {absent,0,1} x version {'',0,1} x release {'',0,1,2,~} = 45 EVRs: all pairs x "
                                         "{dict,json,package*}, all triples x {dict,json}; lists <= 3 over 8 EVRs x {mixin,parser}"},
          "thorough": {"max_len": 4, "plus_len5_over": "0 1 a . ~ ^", "evr_versions": 43, "list_len": 3,
                       "boundary_universe": "epoch {absent,(none),0,1,10} x version {'',0,1,1.0,a,~} x release {'',0,1,2,~,^,1.el7} "
                                            "= 210 EVRs: all pairs x {dict,json,package*}, all triples x {dict,json}; lists <= 3 over "
                                            "30 EVRs x {mixin,parser}"}}
CAP_S = {"quick": 300, "thorough": 2400}

HERE = os.path.dirname(os.path.dirname(os.path.abspath(__file__)))
_LIB = None


def lib():
    global _LIB
    if _LIB is None:
        so = os.path.join(HERE, "ref", "build", "librpmvercmp.so")
        src = os.path.join(HERE, "ref", "rpmvercmp.c")
        if not os.path.exists(so) or os.path.getmtime(so) < os.path.getmtime(src):
            os.makedirs(os.path.dirname(so), exist_ok=True)
            tmp = so + ".%d" % os.getpid()
            subprocess.check_call(["gcc", "-O2", "-shared", "-fPIC", "-o", tmp, src])
            os.replace(tmp, so)
        _LIB = ctypes.CDLL(so)
        _LIB.ref_rpmvercmp.argtypes = [ctypes.c_char_p, ctypes.c_char_p]
        _LIB.ref_rpmvercmp.restype = ctypes.c_int
    return _LIB


def ref_cmp(a, b):
    return lib().ref_rpmvercmp(a.encode("utf-8"), b.encode("utf-8"))


def ref_matrix(universe, lo, hi):
    n = len(universe)
    arr = (ctypes.c_char_p * n)(*[u.encode("utf-8") for u in universe])
    out = (ctypes.c_byte * ((hi - lo) * n))()
    lib().ref_rpmvercmp_matrix(n, arr, lo, hi, out)
    return out


def official_rows():
    rows = []
    with open(os.path.join(HERE, "ref", "rpmvercmp_at.txt"), encoding="utf-8") as fh:
        for l in fh:
            if "RPMVERCMP(" not in l:
                continue
            body = l[l.find("RPMVERCMP(") + len("RPMVERCMP("):].strip().rstrip(")")
            a, b, r = [c.strip() for c in body.split(",")]
            rows.append((a, b, int(r)))
    return rows


def model_cmp(a, b):
    """Second opinion: the ordering rpmvercmp induces, written as a key-free segment walk.
    ~ < end-of-string < ^ < alpha segment < numeric segment."""
    def segs(s):
        out = []
        i = 0
        s = "".join(c if ord(c) < 128 else "." for c in s)
        while i < len(s):
            c = s[i]
            if c == "~" or c == "^":
                out.append((c,))
                i += 1
            elif c.isdigit():
                j = i
                while j < len(s) and s[j].isdigit():
                    j += 1
                out.append(("n", s[i:j]))
                i = j
            elif c.isalpha():
                j = i
                while j < len(s) and s[j].isalpha():
                    j += 1
                out.append(("a", s[i:j]))
                i = j
            else:
                i += 1
        return out
    if a == b:
        return 0
    x, y = segs(a), segs(b)
    i = 0
    while True:
        p = x[i] if i < len(x) else None
        q = y[i] if i < len(y) else None
        if p is None and q is None:
            return 0
        pk = p[0] if p else "$"
        qk = q[0] if q else "$"
        if pk == "~" or qk == "~":
            if pk != "~":
                return 1
            if qk != "~":
                return -1
        elif pk == "^" or qk == "^":
            if pk == "$":
                return -1
            if qk == "$":
                return 1
            if pk != "^":
                return 1
            if qk != "^":
                return -1
        elif pk == "$":
            return -1
        elif qk == "$":
            return 1
        elif pk != qk:
            return 1 if pk == "n" else -1
        elif pk == "n":
            l, r = p[1].lstrip("0"), q[1].lstrip("0")
            if len(l) != len(r):
                return 1 if len(l) > len(r) else -1
            if l != r:
                return 1 if l > r else -1
        else:
            if p[1] != q[1]:
                return 1 if p[1] > q[1] else -1
        i += 1


SIGMA5 = ["0", "1", "a", ".", "~", "^"]     # reduced alphabet for the length-5 universe (thorough)


def long_universe():
    """Segments far longer than the enumerated universe reaches: digit runs beyond 64 bits, many leading zeros,
    long alpha runs, many segments, many markers (one symbol per counter/length shortcut in the algorithm)."""
    big = "98765432109876543210"
    out = ["", "0", "00000000000000000000", big, "0" * 20 + big, big + "0", big[:-1] + "1", "1" + "0" * 20, "9" * 20, "9" * 21,
           big + "." + big, big + ".0" + big, big + "a", "a" + big, "a" * 30, "a" * 29 + "b", "a" * 31, "A" * 30,
           ".".join(["1"] * 30), ".".join(["1"] * 31), ".".join(["1"] * 30) + "a", "~" * 10, "~" * 11, "^" * 10, "^" * 11,
           "1" + "~" * 10, "1" + "^" * 10, "1~" + big, "1^" + big, "1." * 30, "1." * 30 + "~", "1." * 30 + "^",
           "é" * 20, "1" + "é" * 20 + "2", big + "é" + big, "1_" * 20 + "1", "1-" * 20 + "1", "1+" * 20 + "1"]
    return out


def universe(max_len):
    if max_len == "long":
        return long_universe()
    if max_len == 5:
        return list(enumx.text_strings(SIGMA5, 5))
    return list(enumx.text_strings(SIGMA, max_len))


def impl_ranks(u):
    """Rank classes derived from the implementation's own order (sort + adjacent comparison)."""
    _rpm_vercmp = _imp()[0]
    n = len(u)
    srt = sorted(range(n), key=functools.cmp_to_key(lambda i, j: _rpm_vercmp(u[i], u[j])))
    rank = [0] * n
    cls = 0
    for k, idx in enumerate(srt):
        if k and _rpm_vercmp(u[srt[k - 1]], u[idx]) != 0:
            cls += 1
        rank[idx] = cls
    return rank, cls + 1


def sign(x):
    return (x > 0) - (x < 0)


EPOCHS = [None, "(none)", "0", "1", "2", "10"]
V_QUICK = ["1", "1.0", "01", "10", "9", "a", "1a", "1~", "1^", "1.", "B", "a1"]
R_SMALL = ["1", "2", "1.el7", "1~rc", "1^p", "01"]


def evr_versions(tier):
    if tier == "quick":
        return V_QUICK
    return [s for s in enumx.text_strings(["0", "1", "a", ".", "~", "^"], 2) if s]


# ---- boundary universe: EMPTY (falsy but real) fields ---------------------------------------
B_EPOCHS = {"quick": [None, "0", "1"], "thorough": [None, "(none)", "0", "1", "10"]}
B_VERSIONS = {"quick": ["", "0", "1"], "thorough": ["", "0", "1", "1.0", "a", "~"]}
B_RELEASES = {"quick": ["", "0", "1", "2", "~"], "thorough": ["", "0", "1", "2", "~", "^", "1.el7"]}
B_HOWS = ["dict", "json", "package"]
B_TRIPLE_ROWS = {"quick": 45, "thorough": 14}      # first-index rows per triples unit


def boundary_universe(tier):
    return [[e, v, r] for e in B_EPOCHS[tier] for v in B_VERSIONS[tier] for r in B_RELEASES[tier]]


def boundary_list_universe(tier):
    """Same-name packages that differ (mostly) in the field that can be empty; lists are enumerated in EVERY order because
    max()/min() keep the first of several elements the comparison calls equal."""
    if tier == "quick":
        return [[None, v, r] for v in ["", "1"] for r in ["", "1", "2"]] + [["1", "", ""], ["0", "1", ""]]
    return [[e, v, r] for e in [None, "1"] for v in ["", "0", "1"] for r in ["", "0", "1", "2", "~"]]


def package_constructible(e, v, r):
    """Can 'name-[epoch:]version-release.arch' express this EVR?  Neither field may contain the dash; an empty release cannot be
    written (the dot of the architecture would follow the dash); an empty version exists only behind an explicit 'epoch:'."""
    if r == "" or "-" in r or "-" in v:
        return False
    if v == "" and e in (None, "(none)"):
        return False
    return True


def boundary_elements(tier, how):
    u = boundary_universe(tier)
    if how == "package":
        # "(none)" is written like an absent epoch in this form: keep one of the two spellings (no repeated cases)
        u = [t for t in u if t[0] != "(none)" and package_constructible(*t)]
    return u


def _has_empty(t):
    return t[1] == "" or t[2] == ""


def units(tier, seed):
    b = BOUNDS[tier]
    n = len(universe(b["max_len"]))
    rows = 64 if tier == "quick" else 48
    us = [{"part": "reference-validation"}]
    us += [{"part": "vercmp", "lo": lo, "hi": min(n, lo + rows)} for lo in range(0, n, rows)]
    us += [{"part": "vercmp", "lo": 0, "hi": len(long_universe()), "max_len": "long"}]
    if tier == "thorough":
        n5 = len(universe(5))
        us += [{"part": "vercmp", "lo": lo, "hi": min(n5, lo + 40), "max_len": 5} for lo in range(0, n5, 40)]
    nv = len(evr_versions(tier))
    us += [{"part": "evr", "vi": i} for i in range(nv)]
    us += [{"part": "operators", "shard": i, "of": 16} for i in range(16)]
    us += [{"part": "lists", "shard": i, "of": 16} for i in range(16)]
    for how in B_HOWS:
        us.append({"part": "boundary-pairs", "how": how})
    nb = len(boundary_universe(tier))
    step = B_TRIPLE_ROWS[tier]
    for how in ("dict", "json"):
        us += [{"part": "boundary-triples", "how": how, "lo": lo, "hi": min(nb, lo + step)} for lo in range(0, nb, step)]
    nl = 1 if tier == "quick" else 8
    us += [{"part": "boundary-lists", "shard": i, "of": nl} for i in range(nl)]
    return us


def unit_weight(u):
    return {"vercmp": 3, "evr": 2}.get(u["part"], 1)


def _imp():
    from insights.parsers.rpm_vercmp import _rpm_vercmp, rpm_version_compare
    from insights.parsers.installed_rpms import InstalledRpm, InstalledRpms, RpmList
    return _rpm_vercmp, rpm_version_compare, InstalledRpm, InstalledRpms, RpmList


# ---- individual case checkers (used by exploration and by replay) ---------------------------

def check_pair(a, b, ranks=None):
    """vercmp on one ordered pair. Returns list of (clause, expected, observed)."""
    _rpm_vercmp = _imp()[0]
    out = []
    got = _rpm_vercmp(a, b)
    exp = ref_cmp(a, b)
    if got != exp:
        out.append(("vercmp:matches-rpm", exp, got))
    if got not in (-1, 0, 1):
        out.append(("vercmp:result-domain", "one of -1,0,1", got))
    back = _rpm_vercmp(b, a)
    if back != -got:
        out.append(("vercmp:antisymmetric", -got, back))
    if a == b and got != 0:
        out.append(("vercmp:reflexive", 0, got))
    return out


class _EVR(object):
    def __init__(self, e, v, r):
        self.epoch, self.version, self.release = e, v, r


def mk_rpm(InstalledRpm, name, e, v, r, how):
    if how == "package":
        # the documented package-string form name-[epoch:]version-release.arch (third construction channel)
        ep = "" if e in (None, "(none)") else "%s:" % e
        return InstalledRpm.from_package("%s-%s%s-%s.x86_64" % (name, ep, v, r))
    if how == "dict":
        d = {"name": name, "version": v, "release": r, "arch": "x86_64"}
        if e is not None:
            d["epoch"] = e
        return InstalledRpm(d)
    if how == "json":
        d = {"name": name, "version": v, "release": r, "arch": "x86_64"}
        if e is not None:
            d["epoch"] = e
        return InstalledRpm.from_json(json.dumps(d))
    raise ValueError(how)


def ref_evr(e1, v1, r1, e2, v2, r2):
    def ep(e):
        return 0 if e in (None, "(none)") else int(e)
    if ep(e1) != ep(e2):
        return -1 if ep(e1) < ep(e2) else 1
    c = ref_cmp(v1, v2)
    if c:
        return c
    return ref_cmp(r1, r2)


OPS = ["==", "!=", "<", "<=", ">", ">="]


def op_expect(c):
    return {"==": c == 0, "!=": c != 0, "<": c < 0, "<=": c <= 0, ">": c > 0, ">=": c >= 0}


def check_evr_case(case):
    """case = {"l": [e,v,r], "r": [e,v,r], "how": "dict"|"json", "names": [n1, n2]}"""
    _, rpm_version_compare, InstalledRpm, _, _ = _imp()
    out = []
    l, r = case["l"], case["r"]
    exp = ref_evr(l[0], l[1], l[2], r[0], r[1], r[2])
    n1, n2 = case.get("names", ["pkg", "pkg"])
    how = case.get("how", "dict")
    a = mk_rpm(InstalledRpm, n1, l[0], l[1], l[2], how)
    b = mk_rpm(InstalledRpm, n2, r[0], r[1], r[2], how)
    if n1 != n2:
        for op in OPS:
            try:
                v = _apply(op, a, b)
                out.append(("operators:differing-names-raise", "ValueError", "%s -> %r" % (op, v)))
            except ValueError:
                pass
        return out
    got = rpm_version_compare(a, b)
    if sign(got) != exp:
        out.append(("evr:epoch-version-release", exp, got))
    back = rpm_version_compare(b, a)
    if sign(back) != -sign(got):
        out.append(("evr:antisymmetric", -sign(got), back))
    obs = {}
    for op in OPS:
        obs[op] = _apply(op, a, b)
    want = op_expect(exp)
    if obs != want:
        out.append(("operators:agree-with-compare", want, obs))
    tri = [obs["<"], obs["=="], obs[">"]]
    if sum(1 for t in tri if t) != 1:
        out.append(("operators:exactly-one-of", "exactly one of < == >", tri))
    return out


def _apply(op, a, b):
    if op == "==":
        return a == b
    if op == "!=":
        return a != b
    if op == "<":
        return a < b
    if op == "<=":
        return a <= b
    if op == ">":
        return a > b
    return a >= b


def check_list_case(case):
    """case = {"evrs": [[e,v,r],...], "via": "mixin"|"parser"}"""
    _, _, InstalledRpm, InstalledRpms, RpmList = _imp()
    out = []
    evrs = case["evrs"]
    if case.get("via") == "parser":
        from harness.ctx import make_context
        lines = []
        for (e, v, r) in evrs:
            d = {"name": "pkg", "version": v, "release": r, "arch": "x86_64"}
            if e is not None:
                d["epoch"] = e
            lines.append(json.dumps(d))
        holder = InstalledRpms(make_context(lines))
        if len(holder.packages.get("pkg", [])) != len(evrs):
            out.append(("lists:parser-keeps-every-package", len(evrs), len(holder.packages.get("pkg", []))))
            return out
    else:
        class Holder(RpmList):
            packages = {}
        holder = Holder()
        holder.packages = {"pkg": [mk_rpm(InstalledRpm, "pkg", e, v, r, "dict") for (e, v, r) in evrs]}
    for fname, want_sign in (("newest", 1), ("get_max", 1), ("oldest", -1), ("get_min", -1)):
        res = getattr(holder, fname)("pkg")
        if res is None or not any(res is p for p in holder.packages["pkg"]):
            out.append(("lists:returns-member", "a member of the list", repr(res)))
            continue
        for (e, v, r) in evrs:
            c = ref_evr(res.epoch, res.version, res.release, e, v, r)
            if c * want_sign < 0:
                out.append(("lists:%s-is-extremum" % fname, "extremum under RPM order",
                            "%s returned %s but list has %s" % (fname, [res.epoch, res.version, res.release], [e, v, r])))
                break
    if holder.newest("absent") is not None or holder.oldest("absent") is not None:
        out.append(("lists:absent-name-none", None, "not None"))
    return out


def check_triple_case(case):
    """case = {"kind": "evr-triple", "x": [e,v,r], "y": [e,v,r], "z": [e,v,r], "how": ...}
    The ordering laws on one ordered triple of same-name packages, REFERENCE-FREE: only the implementation's own answers are
    related to each other (total preorder: x <= y and y <= z imply x <= z, strictly if one premise is strict; '==' is transitive;
    the rich operators obey the same laws)."""
    _, rpm_version_compare, InstalledRpm, _, _ = _imp()
    how = case.get("how", "dict")
    x, y, z = [mk_rpm(InstalledRpm, "pkg", t[0], t[1], t[2], how) for t in (case["x"], case["y"], case["z"])]
    return _triple_laws(sign(rpm_version_compare(x, y)), sign(rpm_version_compare(y, z)), sign(rpm_version_compare(x, z)),
                        (x <= y, x == y, x < y), (y <= z, y == z, y < z), (x <= z, x == z, x < z))


def _triple_laws(xy, yz, xz, oxy, oyz, oxz):
    out = []
    if xy <= 0 and yz <= 0:
        want = 0 if (xy == 0 and yz == 0) else -1
        if xz != want:
            out.append(("order:transitive", "compare(x,z) = %d because compare(x,y) = %d and compare(y,z) = %d" % (want, xy, yz), xz))
    (le_xy, eq_xy, lt_xy), (le_yz, eq_yz, lt_yz), (le_xz, eq_xz, lt_xz) = oxy, oyz, oxz
    if le_xy and le_yz and not le_xz:
        out.append(("operators:le-transitive", "x <= z because x <= y and y <= z", "x <= z is %r" % (le_xz,)))
    if eq_xy and eq_yz and not eq_xz:
        out.append(("operators:eq-transitive", "x == z because x == y and y == z", "x == z is %r" % (eq_xz,)))
    if ((lt_xy and le_yz) or (le_xy and lt_yz)) and not lt_xz:
        out.append(("operators:lt-transitive", "x < z because x <= y <= z with one strict", "x < z is %r" % (lt_xz,)))
    return out


def evr_universe40():
    u = []
    for e in [None, "0", "1"]:
        for v in ["1", "1.0", "01", "1a", "1~", "1^", "a"]:
            for r in ["1", "2"]:
                u.append([e, v, r])
    return u[:40] + [["(none)", "1", "1"], ["10", "1", "1"]]


# ---- exploration ---------------------------------------------------------------------------

def run_unit(unit, tier):
    res = Result()
    part = unit["part"]
    b = BOUNDS[tier]
    _rpm_vercmp = _imp()[0]
    if part == "reference-validation":
        rows = official_rows()
        for a, bb, exp in rows:
            got = ref_cmp(a, bb)
            if got != exp:
                raise RuntimeError("reference rpmvercmp.c disagrees with rpmvercmp.at: %r %r %r != %r" % (a, bb, got, exp))
            m = model_cmp(a, bb)
            if m != exp:
                raise RuntimeError("second-opinion model disagrees with rpmvercmp.at: %r %r %r != %r" % (a, bb, m, exp))
            # the implementation on the same official rows
            impl = _rpm_vercmp(a, bb)
            res.case(nontrivial=(a != bb), outcome="official:%d" % impl)
            if impl != exp:
                res.violation("vercmp:matches-rpm", {"kind": "pair", "a": a, "b": bb}, exp, impl,
                              {"source": "rpmvercmp.at"})
        res.stat("official_rows", len(rows))
        # reference vs second-opinion model on the quick universe (keeps the oracle honest)
        u = universe(2 if tier == "quick" else 3)
        mat = ref_matrix(u, 0, len(u))
        n = len(u)
        for i in range(n):
            for j in range(n):
                if mat[i * n + j] != model_cmp(u[i], u[j]):
                    raise RuntimeError("reference C and python model disagree on %r %r" % (u[i], u[j]))
        res.stat("reference_cross_checked_pairs", n * n)
        return res

    if part == "vercmp":
        ml = unit.get("max_len", b["max_len"])
        u = universe(ml)
        n = len(u)
        lo, hi = unit["lo"], unit["hi"]
        mat = ref_matrix(u, lo, hi)
        # rank classes from the implementation's own order: total preorder <=> cmp(x,y)=sign(rank x-rank y) for all pairs
        try:
            rank, ncls = impl_ranks(u)
        except Exception as ex:          # an exception while comparing is itself a violation
            res.violation("vercmp:raises", {"kind": "sort-universe", "max_len": b["max_len"]}, "no exception", repr(ex))
            return res
        res.maxi("rank_classes", ncls)
        for i in range(lo, hi):
            a = u[i]
            base = (i - lo) * n
            a0 = a[:1]
            ra = rank[i]
            for j in range(n):
                bb = u[j]
                try:
                    got = _rpm_vercmp(a, bb)
                except Exception as ex:
                    res.violation("vercmp:raises", {"kind": "pair", "a": a, "b": bb}, "no exception", repr(ex))
                    continue
                res.evals += 1
                if a != bb and a0 == bb[:1]:
                    res.nontrivial += 1
                exp = mat[base + j]
                if got != exp:
                    res.violation("vercmp:matches-rpm", {"kind": "pair", "a": a, "b": bb}, exp, got)
                rj = rank[j]
                if got != ((ra > rj) - (ra < rj)):
                    res.violation("vercmp:total-preorder", {"kind": "rank", "a": a, "b": bb, "max_len": ml},
                                  "sign(rank a - rank b) = %d" % ((ra > rj) - (ra < rj)), got)
        res.outcomes.update(["vercmp:-1", "vercmp:0", "vercmp:1"][k] for k in range(3)
                            if any(mat[x] == k - 1 for x in range(0, len(mat), max(1, len(mat) // 2000))))
        res.samples.append({"kind": "pair", "a": u[lo], "b": u[min(n - 1, lo + 7)]})
        return res

    if part == "evr":
        vs = evr_versions(tier)
        v1 = vs[unit["vi"]]
        for e1, e2 in itertools.product(EPOCHS, EPOCHS):
            for v2 in vs:
                for r1, r2 in itertools.product(R_SMALL, R_SMALL):
                    case = {"kind": "evr", "l": [e1, v1, r1], "r": [e2, v2, r2], "how": "dict"}
                    try:
                        vio = check_evr_case(case)
                    except Exception as ex:
                        vio = [("evr:raises", "no exception", repr(ex))]
                    res.case(nontrivial=(e1 in (None, "(none)", "0")) == (e2 in (None, "(none)", "0")) and (v1, r1) != (v2, r2),
                             outcome="evr:%s" % (len(vio),))
                    for c, exp, got in vio:
                        res.violation(c, case, exp, got)
        res.samples.append({"kind": "evr", "l": [None, v1, "1"], "r": ["1", vs[0], "2"], "how": "dict"})
        return res

    if part == "operators":
        u = evr_universe40()
        pairs = itertools.product(range(len(u)), range(len(u)), ["dict", "json", "package"], [("pkg", "pkg"), ("pkg", "other")])
        for (i, j, how, names) in enumx.shard(pairs, unit["shard"], unit["of"]):
            case = {"kind": "evr", "l": u[i], "r": u[j], "how": how, "names": list(names)}
            try:
                vio = check_evr_case(case)
            except Exception as ex:
                vio = [("operators:raises", "no exception", repr(ex))]
            res.case(nontrivial=(i != j and names[0] == names[1]), outcome="op:%d:%s" % (ref_evr(*(u[i] + u[j])), names[0] == names[1]))
            for c, exp, got in vio:
                res.violation(c, case, exp, got)
        res.samples.append({"kind": "evr", "l": u[1], "r": u[2], "how": "json", "names": ["pkg", "pkg"]})
        return res

    if part == "boundary-pairs":
        how = unit["how"]
        u = boundary_elements(tier, how)
        InstalledRpm = _imp()[2]
        # vacuity guard: the constructor really yields packages with an EMPTY version / release where the descriptor says so
        n_empty = 0
        for t in u:
            if _has_empty(t):
                try:
                    o = mk_rpm(InstalledRpm, "pkg", t[0], t[1], t[2], how)
                    n_empty += int((o.version == "" or o.release == "") and o.version == t[1] and o.release == t[2])
                except Exception:
                    pass
        if not n_empty:
            raise RuntimeError("boundary universe is vacuous through %r: no constructed package has an empty field" % how)
        res.stat("boundary_packages_with_empty_field_%s" % how, n_empty)
        for l in u:
            for r in u:
                case = {"kind": "evr", "l": l, "r": r, "how": how, "names": ["pkg", "pkg"]}
                try:
                    vio = check_evr_case(case)
                except Exception as ex:
                    vio = [("evr:raises", "no exception", repr(ex))]
                res.case(nontrivial=(l != r and (_has_empty(l) or _has_empty(r))),
                         outcome="bpair:%s:%d:%d%d" % (how, ref_evr(*(l + r)), _has_empty(l), _has_empty(r)))
                for c, exp, got in vio:
                    res.violation(c, case, exp, got, {"empty_field": _has_empty(l) or _has_empty(r)})
        res.samples.append({"kind": "evr", "l": u[0], "r": u[1], "how": how, "names": ["pkg", "pkg"]})
        return res

    if part == "boundary-triples":
        how = unit["how"]
        u = boundary_elements(tier, how)
        n = len(u)
        _, rpm_version_compare, InstalledRpm, _, _ = _imp()
        # two separately built object sets: compare(A[i], B[j]) never takes an identity shortcut
        A = [mk_rpm(InstalledRpm, "pkg", t[0], t[1], t[2], how) for t in u]
        B = [mk_rpm(InstalledRpm, "pkg", t[0], t[1], t[2], how) for t in u]
        try:
            M = [[sign(rpm_version_compare(a, bb)) for bb in B] for a in A]
            O = [[(a <= bb, a == bb, a < bb) for bb in B] for a in A]
        except Exception as ex:
            res.violation("evr:raises", {"kind": "boundary-matrix", "how": how, "tier": tier}, "no exception", repr(ex))
            return res
        if unit["lo"] == 0:
            res.evals += n * n
            res.nontrivial += sum(1 for i in range(n) for j in range(n) if i != j and (_has_empty(u[i]) or _has_empty(u[j])))
        triples = premises = 0
        for i in range(unit["lo"], unit["hi"]):
            Mi, Oi = M[i], O[i]
            for j in range(n):
                xy, oxy = Mi[j], Oi[j]
                Mj, Oj = M[j], O[j]
                for k in range(n):
                    triples += 1
                    bad = _triple_laws(xy, Mj[k], Mi[k], oxy, Oj[k], Oi[k])
                    if xy <= 0 and Mj[k] <= 0:
                        premises += 1
                    if bad:
                        case = {"kind": "evr-triple", "x": u[i], "y": u[j], "z": u[k], "how": how}
                        vio = check_triple_case(case)
                        if not vio:
                            raise RuntimeError("triple laws fail on the matrix but not on fresh objects: %r" % (case,))
                        for c, exp, got in vio:
                            res.violation(c, case, exp, got,
                                          {"empty_field": any(_has_empty(t) for t in (u[i], u[j], u[k]))})
        res.stat("boundary_triples_checked", triples)
        res.stat("boundary_triples_with_premise", premises)
        res.outcomes.add("btriple:%s:%s" % (how, premises > 0))
        res.samples.append({"kind": "evr-triple", "x": u[unit["lo"]], "y": u[1], "z": u[2], "how": how})
        return res

    if part == "boundary-lists":
        u = boundary_list_universe(tier)

        def bgen():
            for n in range(1, b["list_len"] + 1):
                for t in itertools.product(range(len(u)), repeat=n):
                    for via in ("mixin", "parser"):
                        yield t, via
        for t, via in enumx.shard(bgen(), unit["shard"], unit["of"]):
            case = {"kind": "list", "evrs": [u[i] for i in t], "via": via}
            try:
                vio = check_list_case(case)
            except Exception as ex:
                vio = [("lists:raises", "no exception", repr(ex))]
            res.case(nontrivial=len(set(t)) > 1 and any(_has_empty(u[i]) for i in t), outcome="blist:%d:%s" % (len(t), via))
            for c, exp, got in vio:
                res.violation(c, case, exp, got, {"empty_field": any(_has_empty(u[i]) for i in t)})
        res.samples.append({"kind": "list", "evrs": [u[0], u[1], u[2]], "via": "parser"})
        return res

    if part == "lists":
        u = evr_universe40()
        def gen():
            for n in range(1, b["list_len"] + 1):
                for t in itertools.product(range(len(u)), repeat=n):
                    yield t
        k = 0
        for t in enumx.shard(gen(), unit["shard"], unit["of"]):
            k += 1
            via = "parser" if (len(t) < 3 or k % 8 == 0) else "mixin"
            case = {"kind": "list", "evrs": [u[i] for i in t], "via": via}
            try:
                vio = check_list_case(case)
            except Exception as ex:
                vio = [("lists:raises", "no exception", repr(ex))]
            res.case(nontrivial=len(set(t)) > 1, outcome="list:%d:%s" % (len(t), via))
            for c, exp, got in vio:
                res.violation(c, case, exp, got)
        res.samples.append({"kind": "list", "evrs": [u[0], u[5], u[9]], "via": "mixin"})
        return res
    raise ValueError(part)


def replay(case):
    kind = case.get("kind")
    if kind == "pair":
        vio = check_pair(case["a"], case["b"])
        # the rank argument needs the universe; re-derive it for this pair from a small closure
        return [{"clause": c, "case": case, "expected": e, "observed": o, "features": {}} for c, e, o in vio]
    if kind == "rank":
        return _replay_rank(case)
    if kind == "evr":
        vio = check_evr_case(case)
    elif kind == "list":
        vio = check_list_case(case)
    elif kind == "evr-triple":
        vio = check_triple_case(case)
    elif kind == "boundary-matrix":
        _, rpm_version_compare, InstalledRpm, _, _ = _imp()
        u = boundary_elements(case["tier"], case["how"])
        vio = []
        for l in u:
            for r in u:
                try:
                    a = mk_rpm(InstalledRpm, "pkg", l[0], l[1], l[2], case["how"])
                    bb = mk_rpm(InstalledRpm, "pkg", r[0], r[1], r[2], case["how"])
                    rpm_version_compare(a, bb), a <= bb, a == bb, a < bb
                except Exception as ex:
                    vio = [("evr:raises", "no exception", repr(ex))]
                    break
            if vio:
                break
    elif kind == "sort-universe":
        return []
    else:
        raise ValueError(kind)
    return [{"clause": c, "case": case, "expected": e, "observed": o, "features": {}} for c, e, o in vio]


def _replay_rank(case):
    """Recomputes the rank classes over the whole universe and re-checks this one pair."""
    _rpm_vercmp = _imp()[0]
    u = universe(case["max_len"])
    rank, _ = impl_ranks(u)
    ra, rb = rank[u.index(case["a"])], rank[u.index(case["b"])]
    got = _rpm_vercmp(case["a"], case["b"])
    exp = (ra > rb) - (ra < rb)
    if got != exp:
        return [{"clause": "vercmp:total-preorder", "case": case, "expected": "sign(rank a - rank b) = %d" % exp,
                 "observed": got, "features": {}}]
    return []


TECHNIQUE = ("bounded exhaustive enumeration of all ordered pairs of version strings (stateless exploration of the "
             "real comparison code) against a C transcription of rpmvercmp(); total preorder decided by rank classes")
LEVEL_TEXT = ("Every ordered pair of strings of length <= 3 (quick) / <= 4 (thorough, 54 M pairs) over an alphabet with one "
              "symbol per branch of the algorithm is compared with RPM's reference; reflexivity, antisymmetry and the total "
              "preorder are decided on the whole universe via rank classes; epoch/version/release layering, all six rich "
              "operators and newest/oldest are enumerated over EVR universes, including a boundary universe with EMPTY version / release "
              "fields (all pairs per constructor against the reference, all triples for the transitivity laws, all lists of <= 3 in "
              "every order). No sampling: the statement is 'no counterexample "
              "within the bound'.")
LEVEL_NOTE = ("Trusted: ref/rpmvercmp.c (transcribed from upstream, re-validated against rpm's rpmvercmp.at rows and a second "
              "Python model on every run); bounded by string length and alphabet; real rpm binary not available offline.")
