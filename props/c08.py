"""C08 - nothing configured or recognised as sensitive survives cleaning.

Bounded exhaustive enumeration of lines  d0 t1 d1 t2 d2 [t3 d3]  over a sharp alphabet of sensitive tokens T and
delimiters D (including word-character neighbours and no delimiter at all), under every configuration that deviates in
at most one place from "everything on", executed against the real Cleaner through every entry point the statement
names: clean_content (list, single str, two calls on one Cleaner, width=True), clean_file on a real file (also named
netstat_-neopa), TextFileProvider.write of a simple_file spec and DatasourceProvider.write under a HostContext.  The
oracle looks for *survivors* in the output after masking the substitutes the obfuscators themselves report in
mapping() (DESIGN.md section 3 rule 5).

Further parts (round 5): "patlists" - exclusion pattern LISTS of 1..2 (thorough 3) structured regular expressions in
every order (capturing groups, numbered / named back-references, alternation, anchors, inline flag), regex and plain
form, every entry judged on its own; "repeats" - every sequence of 3..4 (thorough 5) tokens of one kind on a line (MAC,
IPv4, host names, mixed with IPv6 neighbours), exempted members of the kind in between; "longlines" - 1..12 distinct
tokens of one kind on a line.

Clauses
  redaction:pattern-line-remains     an output line matches a configured exclusion pattern, or more lines remain
                                     than input lines that match none (the oracle has its own matchers)
  keyword:survives                   a configured keyword occurs in the output
  password:secret-survives           the secret planted after a `password` key occurs in the output
  obfuscation:ipv4-survives          a planted non-loopback IPv4 address occurs in the output
  obfuscation:ipv4-unissued-address  the output holds an IPv4 address that is neither loopback nor a substitute
                                     listed by mapping() (the statement says "no IPv4 address", not "no planted one");
                                     not evaluated on keep-width paths nor when an address is glued to a following
                                     word character (substitute + rest of line reads as a longer dotted number)
  obfuscation:hostname-survives      short / FQDN / other host of the domain occurs in the output
  obfuscation:mac-survives           a planted non-trivial MAC delimited by non-word characters occurs in the output
  obfuscation:survives-in-foreign-line   safety net (a planted text shows up in another line than its own)
  exemption:not-honoured             a spec exempted for exactly that kind (no_redact / no_obfuscate member) came
                                     out changed although the token stands isolated (neighbours are line boundary,
                                     space, tab, `,`, `[`, `]`, `"` - characters no recogniser looks at)
  cleaning:raises                    the cleaner raised on a content of the alphabet (not on the keep-width paths,
                                     where the unchanged tree raises at line end: no output, nothing survives)

What is demanded where tokens touch (see _demanded): MAC only when delimited by non-word characters on both sides (the
statement says so); IPv4 unless glued to a preceding word character / '.' or followed by a digit / '.'; host names,
keywords, exclusion patterns and password keys always - the statement speaks of occurrences, of lines containing the
pattern and of the secret that follows a password key, without any delimiter condition.

What the oracle deliberately does not demand (DESIGN.md section 4, C08, "not demanded"):
  * leading-zero notations, secrets with characters outside the documented class [a-zA-Z0-9_!@#$%^&*()+=/-], upper-case
    spellings of the host name / of the DOMAIN (the statement is silent about case; a host of the domain - spelled as
    configured - with an upper-case LABEL is in the alphabet and must be replaced);
  * a `password` key that lies inside the secret-class run that follows an earlier `password` key (then it is part
    of the earlier secret, not a key): see _shadowed();
  * that loopback / all-zero / broadcast stay unchanged (the statement only exempts them);
  * that a token of a switched-off or exempted kind stays unchanged when it is NOT isolated (a neighbouring
    obfuscator may legitimately claim it: `10.1.1.1-db.corp.test` is one host label for the host-name pattern,
    `password=S-AA-BB-CC-DD-EE-FF` is one secret);
  * partial remains of a token another obfuscator took a bite of (`kw+host2.example.com`, `bb:cc:dd:ee:ff`);
  * anything about IPv6 (the statement names IPv4, host names and MAC; IPv6 is on by default only as a neighbour).

Defects of the unchanged tree this check reports (known_findings.json / findings-draft/C08.json, narrow features):
  * mac.py:29  a MAC directly preceded/followed by ':' or '-' is not recognised     features {"kind":"mac","adjacent":":"|"-"}
  * hostname.py:99-105  `A ... A-B` / `A ... B-A` (A, B hosts of the domain): replacing the earlier, shorter match A
    everywhere destroys the longer compound match, B survives.   features {"kind":"host","position":
    "hyphen-compound-after-earlier-occurrence"}; joined by '_', a letter or nothing: "glued-compound-after-..."
    (three tokens: host-only triples in quick, all triples in thorough)
  * keyword before password: `password=S1-srv[1]-password: S3` -> `keyword3` closes the gap in the first secret run, the
    second key is swallowed, S3 survives.   features {"kind":"pw","position":"key-inside-earlier-secret-run-after-
    keyword-substitution"}  (three tokens: thorough tier)
  * keyword before mac: `srv[1]aa:bb:cc:dd:ee:ff` -> `keyword3aa:...`, the look-behind now sees a digit.
    features {"kind":"mac","adjacent":"glued-after-keyword"}
  * ip.py keep-width (netstat): `10.1.1.1 password=S` -> `10.230.230.1sword=S`.
    features {"kind":"pw","position":"key-truncated-by-ipv4-keep-width"}
"""
import itertools
import os
import re

from mc.result import Result

ID = "C08"
LEVEL = "exploration"
RULE = ("every content of <= 2 lines, each line d0 t1 d1 t2 d2 [t3 d3] with t_i from the token alphabet T (34 tokens: IPv4 "
        "incl. prefix-related/containing/loopback; host tokens derived from the system host name (short, FQDN, other/dotted/mixed-case-label hosts of the domain, a "
        "prefix-related short name, a host of the parent domain); MACs incl. all-zero/broadcast and a 00/ff-only one that is neither; keywords incl. two with regex "
        "metacharacters; plain/regex/POSIX/backslash-class/backslash-anchor pattern words; 6 password forms incl. tab; a "
        "neutral word) and d_i from the delimiter set D (13 incl. tab and the line boundary) extended by the word "
        "character 'x' (after IPv4 also '_') and, between tokens, by no delimiter at all; x every configuration with <= 1 "
        "deviation from everything-on (incl. an allow-list and system host names of 1, 2, 4, 5 labels); x entry point; plus keyword lists with internal structure "
        "(12 entries, prefixes, substitute look-alikes), the empty exclusion pattern, the keep-width paths; plus exclusion pattern "
        "LISTS of 1-2 (thorough 3) entries in every order over 8 regular expressions with groups / numbered and named "
        "back-references / alternation / anchors / an inline flag (each entry judged on its own by a hand-written matcher), "
        "regex and plain form; plus every sequence of 3-4 (thorough 5) tokens of one kind per line (MAC, IPv4, host names, "
        "mixed with IPv6 neighbours; exempted members in between) and lines of 1..12 distinct tokens of one kind. A case is "
        "non-trivial when it holds >= 2 sensitive tokens and the cleaner actually rewrote or dropped something")
ASSUMPTIONS = [
    "bounded: no counterexample with <= 2 (quick; 3 for host-name-only lines) / <= 3 (thorough) tokens per line, <= 2 lines, "
    "over the stated T and D",
    "substitutes are taken from the obfuscators' own mapping() and masked before looking for survivors",
    "the write path is driven through a real SpecSet/RegistryPoint/simple_file + TextFileProvider.write under a "
    "HostContext rooted in a scratch directory; the dr engine and Hydration are not involved (C11 covers them)",
    "per-case fresh Cleaner; the obfuscators run in the order the tree applies them (the sorted order since the C10 fix, "
    "the PYTHONHASHSEED=0 set order before it - both trees were explored); order effects as such are C10's subject",
]

FQDN = "web01.corp.test"
SHORT = "web01"
DOMAIN = "corp.test"
# The system host name is a dimension of the configuration: 2, 3 (default), 4 and 5 labels, a short name with a hyphen
# and a digit, and the bare name without a domain.  The host tokens are derived from it (host_profile / host_text).
FQDN_VARIANTS = ["web01.test", "node7.lab.corp.test", "node-7.a.lab.corp.test"]
HOST_ROLES = ["@short", "@fqdn", "@other", "@deep", "@mixed", "@prefix", "@parent"]


def host_profile(fqdn):
    """(short name, domain or None) as the statement reads them: the first label / everything after it"""
    labels = fqdn.split(".")
    return labels[0], (".".join(labels[1:]) or None)


def host_text(role, fqdn):
    """The text of a host token for the system host name `fqdn`:
      @short  the short name alone            @fqdn   the fully-qualified name
      @other  another host of the domain      @deep   one with a dotted label      @mixed  one with an upper-case/hyphen/digit label
      @prefix a host of the domain whose short name has the system's short name as a prefix
      @parent a host of the PARENT domain (not in the system's domain: nothing is demanded for it)
    For the bare name the tokens are spelled as if the domain were corp.test (only the bare name in them is sensitive)."""
    short, domain = host_profile(fqdn)
    dom = domain or DOMAIN
    if role == "@short":
        return short
    if role == "@fqdn":
        return short + "." + dom
    if role == "@parent":
        up = dom.split(".", 1)[1] if "." in dom else "example"
        return "db." + up
    return {"@other": "db.", "@deep": "a.b.", "@mixed": "Db-2.", "@prefix": short + "2."}[role] + dom
# the last two read differently as regular expressions than as literals: a keyword is a literal, not a pattern
KEYWORDS = ["SECRETKW", "kw-1", "kw+1", "srv[1]"]
# configured exclusion patterns and the oracle's own, independently written matcher for each
PAT_PLAIN = ["PAT"]
PAT_REGEX = ["PAT", "P[0-9]+T", "Q[[:digit:]]+R", "^192\\.168\\.", "K\\d\\dZ", "\\bBND\\b"]
PAT_VARIANTS = {"plain-empty": [""], "regex-empty": {"regex": [""]}}     # the empty pattern is contained in every line
_ORACLE_PLAIN = [lambda l: "PAT" in l]
_ORACLE_REGEX = [lambda l: "PAT" in l,
                 re.compile(r"P[0123456789]+T").search,
                 re.compile(r"Q[0123456789]+R").search,
                 lambda l: l.startswith("192.168."),
                 re.compile(r"K[0123456789][0123456789]Z").search,          # backslash class, no other regex syntax
                 re.compile(r"(?<![A-Za-z0-9_])BND(?![A-Za-z0-9_])").search]  # backslash anchors only

# secrets from the documented class, one per token position so that a survivor can be attributed
SECRETS = ["S3cr_t!1", "h@nter/2", "Pa$$+w=3", "q&W*e(r)4", "zX^9#-k5", "m%N+7=b6"]
PW_FORMS = ["password=%s", "password: %s", "password %s", "password=\"%s", "password --md5 %s", "password\t= %s"]

TOKENS = (
    [["ip", t] for t in ("10.1.1.1", "10.1.1.10", "110.1.1.1", "192.168.0.254", "255.255.255.255")]
    + [["lo", "127.0.0.1"]]
    # the last one: another host of the domain (domain spelled as configured) whose LABEL has upper case, '-', a digit
    + [["host", r] for r in HOST_ROLES]          # resolved per system host name by _tok()
    # the third is made of 00/ff octets only but is neither all-zero nor broadcast: it must be obfuscated
    + [["mac", t] for t in ("aa:bb:cc:dd:ee:ff", "AA-BB-CC-DD-EE-FF", "00:ff:00:ff:00:ff")]
    + [["mac0", t] for t in ("00:00:00:00:00:00", "ff:ff:ff:ff:ff:ff")]
    + [["kw", t] for t in KEYWORDS]
    + [["pat", t] for t in ("PAT", "P12T", "Q7R", "K47Z", "BND")]
    + [["pw", f] for f in PW_FORMS]
    + [["word", "zzz"]]
)
NT = len(TOKENS)

D_FULL = ["", " ", ":", "/", ",", "=", "(", ")", "[", "]", "\"", "-", "\t"]      # "" = line start / end
D_RED = ["", " ", ":", "-", "/", "="]
D_MIN = ["", " ", ":"]
# Right-hand neighbours offered to IPv4 tokens only: the statement puts no delimiter condition on IPv4 addresses ("no
# IPv4 address other than loopback appears in the output"; only the MAC clause says "delimited by non-word
# characters") and the tree's pattern has no trailing boundary, so an address directly followed by a letter or '_'
# must be obfuscated as well.  (A following digit would make it a different address; a PRECEDING word character
# stays excluded, DESIGN.md.)  The token that follows such a neighbour is glued to a word character: not demanded.
IPV4_RIGHT = ["x", "_"]
# Glue.  The statement puts a delimiter condition on MAC addresses only.  A keyword / an exclusion pattern / a host name
# "occurs" wherever its text stands, a `password` key is a key whatever precedes it (`db_password`), an IPv4 address is
# one whatever non-digit follows it.  So every outer position additionally offers the word character 'x' and every inner
# position 'x' and "" (two tokens with nothing between them); oracle._demanded() says per kind what is still demanded.
WORD_NB = ["x"]
GLUE = ["", "x"]
# filters of the allow-list configuration: every token of the alphabet contains one of these characters, so the filter
# keeps every line (the point is the code path "allowlist is not None", not the filtering)
ALLOW_KEYS = ["0", "1", "5", "a", "A", "e", "s", "z", "P", "Q", "K", "B", "D", "S"]

_ALNUM = "abcdefghijklmnopqrstuvwxyzABCDEFGHIJKLMNOPQRSTUVWXYZ0123456789"
WORD = frozenset(_ALNUM + "_")
SECRET_CLASS = frozenset(_ALNUM + "_!@#$%^&*()+=/-")
# delimiters no recogniser of any obfuscator looks at: used to decide when an exempted token is isolated
INERT = frozenset(["", " ", ",", "[", "]", "\"", "\n", "\t"])

DEFAULT_CFG = {"obf": 1, "hn": 1, "mac": 1, "v6": 1, "no_redact": 0, "no_obf": [], "pat": "regex", "fqdn": FQDN}
OBF_NAMES = ["hostname", "ip", "ipv6", "keyword", "mac", "password"]


def configs():
    """default first, then every single deviation."""
    out = [dict(DEFAULT_CFG)]
    for k in ("obf", "hn", "mac", "v6"):
        out.append(dict(DEFAULT_CFG, **{k: 0}))
    out.append(dict(DEFAULT_CFG, no_redact=1))
    for n in OBF_NAMES:
        out.append(dict(DEFAULT_CFG, no_obf=[n]))
    out.append(dict(DEFAULT_CFG, pat="plain"))
    out.append(dict(DEFAULT_CFG, fqdn=SHORT))
    for f in FQDN_VARIANTS:
        out.append(dict(DEFAULT_CFG, fqdn=f))
    out.append(dict(DEFAULT_CFG, allow=1))          # an allow-list is passed (clean_content / clean_file only)
    return out


def keyword_list_variants():
    """keyword lists with internal structure (used by the part "kwlists"): >= 10 entries (keyword1 is a prefix of
    keyword10), one keyword a prefix of another in both orders, a keyword inside the substitute text, a keyword equal
    to a substitute that gets issued"""
    return [["K%d" % i for i in range(12)],
            ["SECRET", "SECRETKW"], ["SECRETKW", "SECRET"],
            ["SECRETKW", "word"], ["word", "SECRETKW"], ["key", "SECRETKW"],
            ["SECRETKW", "keyword0"], ["keyword1", "SECRETKW"]]


# ---- exclusion pattern LISTS with internal structure (part "patlists") -------------------------------------------
# The statement quantifies over "every exclusion pattern list (plain and regular-expression form)" and demands that no
# line containing A configured pattern remains: each entry of the list is a pattern of its own, whatever the other
# entries look like.  The atoms below are regular expressions whose meaning is NOT closed under textual combination
# with other patterns (numbered / named groups and back-references, top-level alternation, anchors, an inline flag):
# every list of 1 and of 2 distinct atoms in both orders (thorough: also of 3) is configured, in the regular-expression
# form (each atom means what `re` says it means ALONE) and in the plain form (each atom text is a literal).
# Per atom: the text, the oracle's own hand-written matcher (no groups, no back-references; cross-checked against the
# stdlib on every line of the alphabet by _selfcheck(), one pattern at a time) and words (two matching, one near miss).
_DIGITS = "0123456789"


def _m_bref(l):
    """tk=<quote><one or more word characters><the same quote>"""
    i = l.find("tk=")
    while i >= 0:
        q = l[i + 3:i + 4]
        if q in ("\"", "'"):
            j = i + 4
            while j < len(l) and l[j] in WORD:
                j += 1
            if j > i + 4 and l[j:j + 1] == q:
                return True
        i = l.find("tk=", i + 1)
    return False


def _m_anch(l):
    return (l[:2] == "HD" and l[2:3] != "" and l[2:3] in _DIGITS) or (len(l) >= 3 and l[-3:-1] == "TL" and l[-1] in _DIGITS)


PAT_ATOMS = [
    # name, pattern text, oracle matcher, words
    ("grp", "(AB|CD)=1", lambda l: "AB=1" in l or "CD=1" in l, ["AB=1", "CD=1", "EF=1"]),
    ("bref", "tk=([\"'])\\w+\\1", _m_bref, ["tk=\"s3\"", "tk='s3'", "tk=\"s3'"]),
    ("dbl", "([xy])([pq])=\\2\\1", lambda l: any(w in l for w in ("xp=px", "xq=qx", "yp=py", "yq=qy")),
     ["xp=px", "yq=qy", "xp=xp"]),
    ("named", "(?P<q>[#%])v\\d(?P=q)", lambda l: any(c + "v" + d + c in l for c in "#%" for d in _DIGITS),
     ["#v1#", "%v2%", "#v1%"]),
    ("named2", "(?P<q>[<>])w(?P=q)", lambda l: "<w<" in l or ">w>" in l, ["<w<", ">w>", "<w>"]),
    ("alt", "LFT1|RGT2", lambda l: "LFT1" in l or "RGT2" in l, ["LFT1", "RGT2", "LFT2"]),
    ("anch", "^HD\\d|TL\\d$", _m_anch, ["HD5", "TL6", "HDX"]),
    ("flag", "(?i)mixd", lambda l: "mixd" in l.lower(), ["MiXd", "mixd", "mxd"]),
]
PAT_ATOM = dict((a[0], a) for a in PAT_ATOMS)
PAT_ATOM_NAMES = [a[0] for a in PAT_ATOMS]
# the words of every atom, then every atom text as a word (what the plain form looks for)
PAT_WORDS = [w for a in PAT_ATOMS for w in a[3]] + [a[1] for a in PAT_ATOMS]
PAT_WORD_DELIMS = [("", ""), (" ", " "), ("x", "x")]


def patlist_cfg(form, atoms, **kw):
    return dict(DEFAULT_CFG, pat="list", patlist={"form": form, "atoms": list(atoms)}, **kw)


def patlists(tier, first):
    """the pattern lists that start with atom `first`: length 1, 2 (quick), 3 (thorough) of distinct atoms, ordered"""
    others = [n for n in PAT_ATOM_NAMES if n != first]
    out = [[first]] + [[first, b] for b in others]
    if tier == "thorough":
        out += [[first, b, c] for b in others for c in others if c != b]
    return out


# ---- more than N of a thing per line (parts "repeats", "longlines") -----------------------------------------------
# The statement says "repeated, mixed on one line": every sequence of K tokens over a small per-kind alphabet that
# includes the exempted members of the kind (loopback, all-zero / broadcast, a host of the parent domain) - so that
# "the first N recognised ones" and "an ignored one uses up a slot" are both in the space - joined by one separator.
# IPv6 addresses carry no clause of their own (the statement does not name them); they are neighbours in "mix".
REP_ALPHABET = {
    "mac": [["mac", "aa:bb:cc:dd:ee:ff"], ["mac", "AA-BB-CC-DD-EE-FF"], ["mac", "52:54:00:aa:03:01"],
            ["mac", "02-42-ac-11-00-02"], ["mac0", "00:00:00:00:00:00"], ["mac0", "ff:ff:ff:ff:ff:ff"]],
    "ip": [["ip", "10.1.1.1"], ["ip", "10.1.1.10"], ["ip", "172.16.0.9"], ["ip", "8.8.8.8"], ["lo", "127.0.0.1"],
           ["ip", "255.255.255.255"]],
    "host": [["host", host_text(r, FQDN)] for r in HOST_ROLES],
    "mix": [["ip", "10.1.1.1"], ["lo", "127.0.0.1"], ["mac", "aa:bb:cc:dd:ee:ff"], ["mac0", "ff:ff:ff:ff:ff:ff"],
            ["host", host_text("@other", FQDN)], ["host", SHORT],
            ["v6", "fe80::1"], ["v6", "2001:db8:0:1:2:3:4:5"], ["v6", "::1"]],
}
REP_SEPS = [" ", ","]
REP_LEN = {"quick": [3, 4], "thorough": [3, 4, 5]}
# n distinct tokens of one kind on one line, n = 1 .. LONG_MAX (the substitute counters cross 9 -> 10), optionally with
# one exempted token of the kind at any position
LONG_MAX = 12
LONG_GEN = {
    "mac": (lambda i: ["mac", "52:54:00:aa:00:%02x" % (i + 1)], ["mac0", "ff:ff:ff:ff:ff:ff"]),
    "ip": (lambda i: ["ip", "10.2.0.%d" % (i + 1)], ["lo", "127.0.0.1"]),
    "host": (lambda i: ["host", "n%s.%s" % ("abcdefghijkl"[i], DOMAIN)], ["host", host_text("@parent", FQDN)]),
}


def rep_sequences(kind, k, first=None):
    al = REP_ALPHABET[kind]
    heads = range(len(al)) if first is None else [first]
    for h in heads:
        for rest in itertools.product(range(len(al)), repeat=k - 1):
            yield [al[h]] + [al[i] for i in rest]


def rep_line(tokens, sep):
    return mk_line_tok(tokens, [""] + [sep] * (len(tokens) - 1) + [""])


def long_lines(kind):
    gen, exempt = LONG_GEN[kind]
    for n in range(1, LONG_MAX + 1):
        toks = [gen(i) for i in range(n)]
        yield toks
        for p in range(n + 1):
            yield toks[:p] + [list(exempt)] + toks[p:]


_SELFCHECKED = []


def _selfcheck():
    """Fails loudly when the new alphabets are vacuous or the hand-written pattern matchers disagree with the stdlib
    (one pattern at a time - the reading of the statement: every configured pattern is a pattern of its own)."""
    if _SELFCHECKED:
        return
    for kind, al in REP_ALPHABET.items():
        texts = [t[1] for t in al]
        if len(set(texts)) != len(texts):
            raise AssertionError("repeats alphabet %s has duplicate members" % kind)
    for kind in LONG_GEN:
        texts = [LONG_GEN[kind][0](i)[1] for i in range(LONG_MAX)]
        if len(set(texts)) != LONG_MAX:
            raise AssertionError("long-line generator %s repeats itself" % kind)
    lines = [d0 + w + d2 for w in PAT_WORDS for d0, d2 in PAT_WORD_DELIMS]
    for name, text, fn, words in PAT_ATOMS:
        rx = re.compile(text)
        for l in lines:
            if bool(fn(l)) != bool(rx.search(l)):
                raise AssertionError("oracle matcher of pattern atom %s disagrees with re on %r" % (name, l))
        if not (fn(words[0]) and fn(words[1]) and not fn(words[2])):
            raise AssertionError("words of pattern atom %s are not match, match, near miss" % name)
    _SELFCHECKED.append(1)


BOUNDS = {
    "quick": {"tokens": NT, "configs": len(configs()), "max_tokens_per_line": "2 (3 on host-name-only lines)", "max_lines": 2,
              "pairs_default_cfg": "d0 in {boundary, space, ':', 'x'}, d1 in D_RED minus boundary + {'', 'x'}, d2 in D_RED + {'x'} "
                                   "(after IPv4 also '_'); clean_content",
              "pairs_deviation_cfgs": "(d0,d2) in {boundary, space, ':'} diagonal (+ boundary/'x','_' after IPv4), d1 in "
                                      "{space, ':', '-', ''}; clean_content",
              "system_host_name": "default web01.corp.test; deviations: bare web01, 2 / 4 / 5 labels (web01.test, node7.lab.corp.test, "
                                  "node-7.a.lab.corp.test); host tokens derived per name (short, fqdn, other / dotted-label / "
                                  "mixed-case-label host of the domain, prefix-related short name, host of the parent domain); "
                                  "in these configurations only lines holding a host token are enumerated",
              "singles_all_cfgs": "d0,d2 in full D (13) + 'x' via clean_content(list) (clean_content(str): default cfg full, "
                                  "deviations small set); d0,d2 in D_RED "
                                  "(default cfg) / {boundary, space, ':'} (deviations) + word neighbours via clean_file, "
                                  "TextFileProvider.write, DatasourceProvider.write",
              "pairs_file_paths": "d0=d2=line boundary, d1 in D_RED minus boundary + '' (default cfg) / {space} (deviations); "
                                  "clean_file and provider write",
              "two_lines_default_cfg": "lines single-token with (d0,d2) in {(boundary,boundary),(space,':')}, IPv4+'x'/'_', the "
                                       "blank line; clean_content, two calls on one Cleaner, clean_file, provider write",
              "host_triples_default_cfg": "6 host tokens (all roles but the parent-domain host) ^3, outer diagonal {boundary, space, ':'}, inner {space, '-', '', '_'}",
              "width": "keep-width paths (width=True, file / spec named netstat_-neopa): singles over D_RED, pairs with an address",
              "patvariants": "pattern list [''] plain and regex: singles and two-line contents, four entry points",
              "kwlists": "8 keyword lists with internal structure: singles and pairs of their keywords",
              "patlists": "exclusion pattern lists of 1 and of 2 distinct entries (both orders) over %d regular expressions "
                          "with internal structure (capturing group, numbered back-reference x2, named group + named "
                          "back-reference x2 with the SAME group name, top-level alternation, anchors, inline flag), regex "
                          "form and plain form (1-entry lists; 2-entry lists on the all-words content); lines: %d words "
                          "(match, match, near miss per entry + every entry text as a literal) x 3 neighbourhoods; "
                          "one content holding all words; clean_content list/str/2 calls, clean_file, both provider writes"
                          % (len(PAT_ATOMS), len(PAT_WORDS)),
              "repeats": "every sequence of 3 and of 4 tokens of ONE kind on a line: MAC (4 + all-zero + broadcast), IPv4 "
                         "(5 + loopback), host names (6 roles + parent-domain host), and mixed (IPv4, loopback, MAC, "
                         "broadcast, 2 host names, 3 IPv6 addresses as neighbours); separator space / ',' (length 4: space)",
              "longlines": "1..%d DISTINCT tokens of one kind (MAC, IPv4, host of the domain) on a line, alone and with one "
                           "exempted token of the kind at every position; separator space / ','; four entry points" % LONG_MAX,
              "D_RED": D_RED},
    "thorough": {"tokens": NT, "configs": len(configs()), "max_tokens_per_line": 3, "max_lines": 2,
                 "pairs_default_cfg": "d0,d2 in full D (13) + 'x' (after IPv4 also '_'), d1 in full D minus boundary + {'', 'x'}; "
                                      "clean_content",
                 "pairs_deviation_cfgs": "d0,d2 in D_RED (+ 'x','_' after IPv4), d1 in full D minus boundary + ''; clean_content",
                 "system_host_name": "as in quick (host-token lines only in the host-name configurations)",
                 "singles_all_cfgs": "d0,d2 in full D + 'x' via all six entry points",
                 "pairs_file_paths": "d0=d2=line boundary, d1 in full D minus boundary + ''; clean_file and provider write; all cfgs",
                 "two_lines_default_cfg": "lines single-token with d0,d2 in {boundary, space, ':'}, IPv4+'x'/'_', the blank line; "
                                          "four entry points",
                 "triples_default_cfg": "all 34^3 token triples, d0,d3 in {boundary, space, ':'} (+ 'x','_' after IPv4), d1,d2 in "
                                        "D_RED minus boundary + ''; clean_content",
                 "width/patvariants/kwlists/longlines": "as in quick",
                 "patlists": "as in quick plus every list of 3 distinct entries (all orders), regex form",
                 "repeats": "as in quick plus every sequence of 5 tokens (separator space)",
                 "D_RED": D_RED, "D_FULL": D_FULL},
}
CAP_S = {"quick": 300, "thorough": 3600}


# ---- building a case -------------------------------------------------------------------------

def _tok(idx, pos, fqdn=FQDN):
    k, t = TOKENS[idx]
    if k == "host":
        return [k, host_text(t, fqdn)]
    if k == "pw":
        s = SECRETS[pos]
        return [k, t % s, s]
    return [k, t]


def mk_line(tidx, delims, pos0=0, fqdn=FQDN):
    """[d0, tok, d1, tok, ..., dn] - the JSON form of one line."""
    out = [delims[0]]
    for i, ti in enumerate(tidx):
        out.append(_tok(ti, pos0 + i, fqdn))
        out.append(delims[i + 1])
    return out


def line_text(struct):
    return "".join(x if isinstance(x, str) else x[1] for x in struct)


def line_spans(struct):
    """[(token, start, end)] in the line's text."""
    out = []
    p = 0
    for x in struct:
        if isinstance(x, str):
            p += len(x)
        else:
            out.append((x, p, p + len(x[1])))
            p += len(x[1])
    return out


class _Config(object):
    def __init__(self, cfg, scratch):
        self.obfuscate = bool(cfg["obf"])
        self.obfuscate_hostname = bool(cfg["hn"])
        self.obfuscate_mac = bool(cfg["mac"])
        self.obfuscate_ipv6 = bool(cfg["v6"])
        self.rhsm_facts_file = os.path.join(scratch or "/dev/shm/verif-c08-unused", "insights-client.facts")


def build_cleaner(cfg, scratch=None):
    from insights.cleaner import Cleaner
    if cfg["pat"] == "list":
        texts = [PAT_ATOM[a][1] for a in cfg["patlist"]["atoms"]]
        pats = texts if cfg["patlist"]["form"] == "plain" else {"regex": texts}
    elif cfg["pat"] in PAT_VARIANTS:
        pats = PAT_VARIANTS[cfg["pat"]]
        pats = list(pats) if isinstance(pats, list) else {"regex": list(pats["regex"])}
    else:
        pats = list(PAT_PLAIN) if cfg["pat"] == "plain" else {"regex": list(PAT_REGEX)}
    c = Cleaner(_Config(cfg, scratch), {"keywords": list(cfg.get("kw") or KEYWORDS), "patterns": pats}, fqdn=cfg["fqdn"])
    c.report_dir = scratch or "/dev/shm/verif-c08-unused"      # never written: no report is generated here
    return c


_SPECS = {}


def _spec_for(no_redact, no_obf, name="the_file"):
    """A real registry point + simple_file implementation carrying the per-spec exemptions; built once per
    (exemption, file name) per process - the components are never evaluated by the engine, only called directly."""
    key = (bool(no_redact), tuple(no_obf), name)
    if key not in _SPECS:
        from insights.core.context import HostContext
        from insights.core.spec_factory import RegistryPoint, SpecSet, simple_file
        n = len(_SPECS)
        rp = RegistryPoint(no_redact=bool(no_redact), no_obfuscate=list(no_obf))
        base = type("VerifC08Specs%d" % n, (SpecSet,), {"the_file": rp})
        impl = simple_file("/data/" + name, context=HostContext)
        type("VerifC08Impl%d" % n, (base,), {"the_file": impl})
        _SPECS[key] = impl
    return _SPECS[key]


NETSTAT = "netstat_-neopa"        # the file name that switches the IPv4 keep-width variant on
WIDTH_PATHS = ("content-width", "file-netstat", "write-netstat")
PATHS = ("content", "content-str", "content-2calls", "content-width", "file", "file-netstat", "write", "write-netstat",
         "dswrite")


def _split_written(data):
    return data.split("\n")


def run_path(path, cfg, in_lines, scratch):
    """Executes the real code. Returns (output lines without line terminators, cleaner).
      content         clean_content(list)                     content-str     clean_content(str) (single line only)
      content-2calls  one clean_content([line]) per line on ONE Cleaner (state carried between calls)
      content-width   clean_content(list, width=True)         file            clean_file on a real file
      file-netstat    clean_file on a file named netstat_-neopa (keep-width variant)
      write           SpecSet/RegistryPoint/simple_file -> TextFileProvider.write under a HostContext
      write-netstat   the same for /data/netstat_-neopa       dswrite         DatasourceProvider.write under a HostContext"""
    c = build_cleaner(cfg, scratch)
    no_obf = list(cfg["no_obf"])
    no_red = bool(cfg["no_redact"])
    allow = dict((k, 100000) for k in ALLOW_KEYS) if cfg.get("allow") else None
    if path == "content":
        return c.clean_content(list(in_lines), no_obfuscate=no_obf, no_redact=no_red, allowlist=allow), c
    if path == "content-width":
        return c.clean_content(list(in_lines), no_obfuscate=no_obf, no_redact=no_red, allowlist=allow, width=True), c
    if path == "content-str":
        if len(in_lines) != 1:
            raise ValueError("content-str takes one line")
        out = c.clean_content(in_lines[0], no_obfuscate=no_obf, no_redact=no_red, allowlist=allow)
        return ([] if out is None else [out]), c
    if path == "content-2calls":
        out = []
        for l in in_lines:
            out.extend(c.clean_content([l], no_obfuscate=no_obf, no_redact=no_red, allowlist=allow))
        return out, c
    if path in ("file", "file-netstat"):
        fn = os.path.join(scratch, "f" if path == "file" else NETSTAT)
        with open(fn, "w") as fh:
            fh.write("".join(l + "\n" for l in in_lines))
        try:
            c.clean_file(fn, no_obfuscate=no_obf, no_redact=no_red, allowlist=allow)
            if not os.path.exists(fn):
                return [], c
            with open(fn) as fh:
                data = fh.read()
        finally:
            if os.path.exists(fn):
                os.remove(fn)
        return data.split("\n")[:-1] if data.endswith("\n") else data.split("\n"), c
    if cfg.get("allow"):
        raise ValueError("the allow-list configuration is defined for clean_content / clean_file only")
    from insights.core.context import HostContext
    from insights.core.exceptions import ContentException
    root = os.path.join(scratch, "root")
    if path in ("write", "write-netstat"):
        name = "the_file" if path == "write" else NETSTAT
        src = os.path.join(root, "data", name)
        dst = os.path.join(scratch, "out", "data", name)
        if not os.path.isdir(os.path.dirname(src)):
            os.makedirs(os.path.dirname(src))
        with open(src, "w") as fh:
            fh.write("".join(l + "\n" for l in in_lines))
        if os.path.exists(dst):
            os.remove(dst)
        spec = _spec_for(cfg["no_redact"], no_obf, name)
        provider = spec({HostContext: HostContext(root=root), "cleaner": c})
    elif path == "dswrite":
        from insights.core.spec_factory import DatasourceProvider
        dst = os.path.join(scratch, "out", "data", "ds_file")
        if os.path.exists(dst):
            os.remove(dst)
        provider = DatasourceProvider(list(in_lines), "data/ds_file", root=root, ctx=HostContext(root=root), cleaner=c,
                                      no_obfuscate=no_obf, no_redact=no_red)
    else:
        raise ValueError(path)
    try:
        provider.write(dst)
    except ContentException:
        return [], c            # empty after cleaning: nothing is written
    with open(dst) as fh:
        data = fh.read()
    os.remove(dst)
    return data.split("\n"), c


# ---- oracle ----------------------------------------------------------------------------------

_IPV4_SHAPED = re.compile(r"(?<![\w.])[0-9]{1,3}\.[0-9]{1,3}\.[0-9]{1,3}\.[0-9]{1,3}(?![0-9.])")
_HOST_IN_DOMAIN = {}


def _host_in_domain(domain):
    if domain not in _HOST_IN_DOMAIN:
        _HOST_IN_DOMAIN[domain] = re.compile(r"[A-Za-z0-9_-]\." + re.escape(domain) + r"(?![A-Za-z0-9_.-])")
    return _HOST_IN_DOMAIN[domain]


def _matches(cfg, line):
    if cfg["pat"] == "list":
        # a line contains a configured pattern when it contains ANY ONE entry, each entry read on its own: as a
        # literal (plain form) / as the regular expression it is alone (the atom's hand-written matcher)
        if cfg["patlist"]["form"] == "plain":
            return any(PAT_ATOM[a][1] in line for a in cfg["patlist"]["atoms"])
        return any(PAT_ATOM[a][2](line) for a in cfg["patlist"]["atoms"])
    if cfg["pat"] in PAT_VARIANTS:
        return True                     # the empty pattern: contained in / found in every line
    fs = _ORACLE_PLAIN if cfg["pat"] == "plain" else _ORACLE_REGEX
    for f in fs:
        if f(line):
            return True
    return False


def _shadowed(struct, i_elem, kw_substituted=False):
    """True when the `password` key of the token at struct[i_elem] lies inside the secret-class run that follows
    an earlier password token on the same line: every character between the end of that earlier token (which
    ends with its secret) and the start of this one is of the secret class. Then the regular expression, and the
    documented class, make it part of the earlier secret - it is not a key.
    With kw_substituted the run is judged as it looks once the configured keywords on the line have been replaced by
    `keywordN` (secret-class characters): a keyword containing other characters (`srv[1]`) interrupts the run in the
    input but no longer in what the password expression gets to see.  That variant is only used to NAME the position
    of a survivor (feature for a recorded defect), never to excuse it."""
    between = ""
    for j in range(i_elem - 1, -1, -1):
        x = struct[j]
        if isinstance(x, str):
            between = x + between
            continue
        if x[0] == "pw" and all(ch in SECRET_CLASS for ch in between):
            return True
        between = ("keyword0" if (kw_substituted and x[0] == "kw") else x[1]) + between
        if not all(ch in SECRET_CLASS for ch in between):
            return False
    return False


def _adjacent(text, s, e):
    before = text[s - 1] if s > 0 else ""
    after = text[e] if e < len(text) else ""
    return before, after


def _demanded(kind, before, after):
    """Is the survival clause of `kind` demanded for a token with these neighbour characters ("" = line boundary)?
      mac : only when delimited by non-word characters on both sides (the statement says so)
      ip  : not when glued to a preceding word character or '.' (DESIGN.md exclusion) and not when a digit or '.' follows
            (that is a different / longer dotted number); any other right-hand neighbour is demanded
      host, kw, pat, pw : always - the statement speaks of occurrences / of a line containing the pattern / of the secret
            that follows a password key, with no delimiter condition (lo, mac0, word carry no clause)"""
    if kind == "mac":
        return before not in WORD and after not in WORD
    if kind == "ip":
        return before not in WORD and before != "." and not (after.isdigit() or after == ".")
    return True


HOST_GLUE = {"-": "hyphen", "": "glued", "x": "glued", "_": "glued"}     # characters of the host-name pattern's class


def _is_domain_host(x, domain=DOMAIN):
    return (not isinstance(x, str)) and x[0] == "host" and bool(domain) and x[1].endswith("." + domain)


def _explainable(st, ei, kind, before, after, domain=DOMAIN):
    """Structural position (a fact about the INPUT line only) that a recorded defect of the tree explains; "" when
    there is none.  Used as the narrow feature known findings match on, never to suppress anything here.
      mac : the address is directly preceded / followed by ':' or '-'  -> that character (mac.py look-around);
            it directly follows a keyword that ends with a non-word character -> "glued-after-keyword" (delimited in the
            input, but keyword replacement runs first and `keywordN` ends with a digit)
      host: the name is joined by '-' to a neighbouring host name of the domain whose text also stands earlier on
            the same line -> "hyphen-compound-after-earlier-occurrence" (hostname.py replaces the earlier, shorter
            match everywhere first, after which the longer compound match is no longer found in the line); joined by
            another character of the host-name pattern's class or by nothing -> "glued-compound-after-..."."""
    if kind == "mac":
        if before in (":", "-"):
            return before
        if after in (":", "-"):
            return after
        if ei >= 2 and st[ei - 1] == "" and st[ei - 2][0] == "kw" and st[ei - 2][1][-1:] not in WORD:
            return "glued-after-keyword"          # ...] + MAC: `keywordN` ends with a digit, the look-behind rejects it
        return ""
    if kind == "host" and _is_domain_host(st[ei], domain):
        partners = []
        if ei >= 2 and st[ei - 1] in HOST_GLUE and _is_domain_host(st[ei - 2], domain):
            partners.append((ei - 2, HOST_GLUE[st[ei - 1]]))
        if ei + 2 < len(st) and st[ei + 1] in HOST_GLUE and _is_domain_host(st[ei + 2], domain):
            partners.append((ei + 2, HOST_GLUE[st[ei + 1]]))
        for pi, how in partners:
            for j in range(1, min(ei, pi), 2):
                if not isinstance(st[j], str) and st[j][1] == st[pi][1] and st[j + 1] not in HOST_GLUE:
                    return how + "-compound-after-earlier-occurrence"
    return ""


def oracle(cfg, structs, in_lines, out_lines, cleaner, path="content"):
    """-> (violations [(clause, expected, observed, features)], statuses per token)"""
    v = []
    no_obf = cfg["no_obf"]
    ip_on = cfg["obf"] and "ip" not in no_obf
    hn_on = cfg["obf"] and cfg["hn"] and "hostname" not in no_obf
    mac_on = cfg["obf"] and cfg["mac"] and "mac" not in no_obf
    kw_on = "keyword" not in no_obf
    pw_on = "password" not in no_obf
    red_on = not cfg["no_redact"]

    raw = "\n".join(out_lines)
    # substitute masking: everything the obfuscators report as issued
    subs = []
    for name in ("ip", "ipv6", "hostname", "mac", "keyword"):
        ob = cleaner.obfuscate.get(name)
        if ob:
            for m in ob.mapping():
                if m.get("obfuscated"):
                    subs.append(m["obfuscated"])
    masked = raw
    for s in sorted(set(subs), key=lambda x: (-len(x), x)):
        masked = masked.replace(s, "#")
    masked_lines = masked.split("\n") if out_lines else []

    # -- exclusion patterns
    matching = [_matches(cfg, l) for l in in_lines]
    if red_on:
        for ol, ml in zip(out_lines, masked_lines):
            if _matches(cfg, ol) and _matches(cfg, ml):
                v.append(("redaction:pattern-line-remains", "no output line contains a configured exclusion pattern",
                          ol, {"kind": "pat", "how": "output-line-matches"}))
        expected_n = sum(1 for m in matching if not m)
        if len(out_lines) > expected_n:
            v.append(("redaction:pattern-line-remains",
                      "%d line(s): every input line containing an exclusion pattern is removed" % expected_n,
                      out_lines, {"kind": "pat", "how": "matching-input-line-kept"}))
        kept = [i for i, m in enumerate(matching) if not m]
    else:
        kept = list(range(len(in_lines)))
    aligned = len(kept) == len(out_lines)

    # -- keywords (configured, wherever they are)
    if kw_on:
        for kw in (cfg.get("kw") or KEYWORDS):
            if kw in masked:
                v.append(("keyword:survives", "keyword %r absent" % kw, raw, {"kind": "kw"}))

    # -- IPv4-shaped survivors that are neither loopback nor an issued substitute
    # (not on the keep-width paths: that variant deliberately removes / inserts characters next to the substitute, and
    #  what is left of a neighbouring token can complete a dotted number - an artefact, not an original address)
    #  (nor when an address of the line is glued to a following word character: a substitute followed by the rest of
    #  the line - `10.230.230.1` + `7f1f....example.com`, + `0:ff:00:...` - reads as a longer dotted number)
    glued_ip = any(t[0] in ("ip", "lo") and a in WORD
                   for st, text in zip(structs, in_lines) for (t, b, e) in line_spans(st)
                   for a in [text[e:e + 1]])
    if ip_on and path not in WIDTH_PATHS and not glued_ip:
        issued = set(subs)
        for m in _IPV4_SHAPED.finditer(raw):
            a = m.group(0)
            if a != "127.0.0.1" and a not in issued:
                octs = a.split(".")
                if all(o == str(int(o)) and int(o) <= 255 for o in octs) and octs[0] != "0":
                    planted = any(t[0] == "ip" and t[1] == a for st in structs for t in st if not isinstance(t, str))
                    if not planted:
                        v.append(("obfuscation:ipv4-unissued-address", "every IPv4 address in the output is loopback "
                                  "or a substitute listed by mapping()", raw, {"kind": "ip", "address": "not-planted"}))
    short, domain = host_profile(cfg["fqdn"])
    if hn_on and domain:
        if _host_in_domain(domain).search(masked) and not any(
                t[0] == "host" and t[1] in masked for st in structs for t in st if not isinstance(t, str)):
            v.append(("obfuscation:hostname-survives", "no host of the domain %s" % domain, raw,
                      {"kind": "host", "how": "partially-replaced"}))

    def host_needle(t):
        """what must not occur for a host token: the token itself when it is a host of the system's domain (the FQDN
        included), else the system's short name if the token contains it, else nothing (a host of another / of the
        parent domain is not the statement's business)"""
        if domain and t.endswith("." + domain):
            return t
        return short if short in t else None
    planted_hosts = set(host_needle(t[1]) for st in structs for t in st if not isinstance(t, str) and t[0] == "host")

    # -- per planted token.  Survivors are counted in the output line that derives from the token's own input line
    #    (when the line count is off - already reported above - in the whole output).  The same text may be planted
    #    more than once in that scope, one occurrence well delimited and one in a position a recorded defect explains
    #    (see _explainable): the survivors are attributed to the explainable occurrences FIRST, so that a survivor
    #    count the recorded defect cannot explain is attributed to an ordinary occurrence and stays a violation.
    statuses = []
    occs = []                                   # one record per planted token
    for li, st in enumerate(structs):
        text = in_lines[li]
        p = 0
        for ei, x in enumerate(st):
            if isinstance(x, str):
                p += len(x)
                continue
            kind, t = x[0], x[1]
            before, after = _adjacent(text, p, p + len(t))
            p += len(t)
            if kind == "pw":
                needle = x[2]
            elif kind == "host":
                needle = host_needle(t)
            else:
                needle = t
            scope = kept.index(li) if (aligned and li in kept) else (None if not aligned else -1)
            occs.append({"li": li, "ei": ei, "st": st, "kind": kind, "t": t, "needle": needle, "before": before,
                         "after": after, "scope": scope, "why": _explainable(st, ei, kind, before, after, domain),
                         "demanded": _demanded(kind, before, after)})

    def scope_text(scope):
        return masked if scope is None else ("" if scope == -1 else masked_lines[scope])

    def count(needle, scope, kind=None):
        txt = scope_text(scope)
        if kind == "ip":
            # the address itself, not a stretch of a longer dotted number (10.1.1.1 inside 10.1.1.10 / 110.1.1.1)
            return len(re.findall(r"(?<![0-9.])" + re.escape(needle) + r"(?![0-9])", txt))
        n = txt.count(needle)
        if kind == "host" and needle == short:
            # the short name inside a surviving longer planted host name belongs to that token
            for h in planted_hosts:
                if h and h != short and short in h:
                    n -= txt.count(h) * h.count(short)
        return n

    survivors = set()
    groups = {}
    for o in occs:
        if o["needle"] is not None and o["kind"] in ("ip", "host", "mac", "pw"):
            groups.setdefault((o["scope"], o["needle"]), []).append(o)
    for (scope, needle), group in groups.items():
        n = count(needle, scope, group[0]["kind"])
        if n <= 0:
            continue
        # first the occurrences that may survive (not demanded where they stand), then the explainable, then the rest
        order = ([o for o in group if not o["demanded"]] + [o for o in group if o["demanded"] and o["why"]]
                 + [o for o in group if o["demanded"] and not o["why"]])
        for o in order[:max(n, 0)]:
            survivors.add((o["li"], o["ei"]))

    for o in occs:
        li, ei, st, kind, t = o["li"], o["ei"], o["st"], o["kind"], o["t"]
        before, after = o["before"], o["after"]
        oline = out_lines[o["scope"]] if o["scope"] not in (None, -1) else None
        if o["scope"] == -1:
            statuses.append(kind + "D")
        else:
            statuses.append(kind + ("K" if (o["needle"] or t) in raw else "M"))
        if not o["demanded"]:
            continue
        feats = {"kind": kind}
        isolated = before in INERT and after in INERT
        alive = (li, ei) in survivors
        if kind == "ip":
            if ip_on and alive:
                v.append(("obfuscation:ipv4-survives", "%s absent" % t, raw, feats))
            elif "ip" in no_obf and isolated and oline is not None and t not in oline:
                v.append(("exemption:not-honoured", "%s unchanged (spec exempt from ip obfuscation)" % t, oline, feats))
        elif kind == "host":
            if hn_on and alive:
                v.append(("obfuscation:hostname-survives", "%s absent" % o["needle"], raw,
                          {"kind": "host", "position": o["why"] or "ordinary"}))
            elif "hostname" in no_obf and isolated and oline is not None and t not in oline:
                v.append(("exemption:not-honoured", "%s unchanged (spec exempt from hostname obfuscation)" % t, oline, feats))
        elif kind == "mac":
            if mac_on and alive:
                v.append(("obfuscation:mac-survives", "%s absent" % t, raw, {"kind": "mac", "adjacent": o["why"] or "none"}))
            elif "mac" in no_obf and isolated and oline is not None and t not in oline:
                v.append(("exemption:not-honoured", "%s unchanged (spec exempt from mac obfuscation)" % t, oline, feats))
        elif kind == "kw":
            if not kw_on and isolated and oline is not None and t not in oline:
                v.append(("exemption:not-honoured", "%s unchanged (spec exempt from keyword replacement)" % t, oline, feats))
        elif kind == "pw":
            if pw_on:
                if alive and not _shadowed(st, ei):
                    pos = "ordinary"
                    if kw_on and _shadowed(st, ei, kw_substituted=True):
                        pos = "key-inside-earlier-secret-run-after-keyword-substitution"
                    elif path in WIDTH_PATHS and ei >= 2 and st[ei - 1] == " " and st[ei - 2][0] == "ip":
                        # netstat keep-width: the IPv4 substitute is longer than the address, the surplus is taken
                        # out of what follows the next blank - here the first characters of the `password` key
                        pos = "key-truncated-by-ipv4-keep-width"
                    v.append(("password:secret-survives", "secret %s masked" % o["needle"], raw,
                              {"kind": "pw", "position": pos}))
            elif isolated and oline is not None and t not in oline:
                v.append(("exemption:not-honoured", "%s unchanged (spec exempt from password masking)" % t, oline, feats))
        elif kind == "pat":
            if not red_on and isolated and (oline is None or t not in oline):
                v.append(("exemption:not-honoured", "line with %s kept (spec exempt from redaction)" % t,
                          oline if oline is not None else out_lines, feats))
    # safety net: a planted sensitive text that survives somewhere else than in the line it was planted in
    if aligned:
        reported = set(o["needle"] for o in occs if (o["li"], o["ei"]) in survivors)
        for o in occs:
            k, n = o["kind"], o["needle"]
            if ((k == "ip" and ip_on) or (k == "host" and hn_on) or (k == "mac" and mac_on)) and n and n not in reported \
                    and count(n, None, k) > 0:
                reported.add(n)
                v.append(("obfuscation:survives-in-foreign-line", "%s absent" % n, raw, {"kind": k}))
    return v, statuses


SENSITIVE_KINDS = ("ip", "host", "mac", "kw", "pat", "pw")


def execute(path, cfg, structs, scratch):
    """One case against the real code. -> (violations, nontrivial, outcome)"""
    in_lines = [line_text(st) for st in structs]
    try:
        out_lines, cleaner = run_path(path, cfg, in_lines, scratch)
    except Exception as ex:          # the cleaner must cope with every content of the alphabet
        if path in WIDTH_PATHS:
            # The keep-width variant of the IPv4 substitution (netstat) raises on the unchanged tree whenever the
            # address ends the line or a second address follows (IndexError inside _sub_ip_keep_width -> SubIPError).
            # Nothing is output then, so nothing survives: an outcome for C08, not a violation.
            return [], False, "raises-keep-width"
        return [("cleaning:raises", "no exception", repr(ex), {"kind": "exception"})], False, "raises"
    vio, statuses = oracle(cfg, structs, in_lines, out_lines, cleaner, path)
    nsens = sum(1 for s in statuses if s[:-1] in SENSITIVE_KINDS)
    return vio, (nsens >= 2 and out_lines != in_lines), "+".join(sorted(statuses))


def check_case(case):
    from harness.tmp import scratch
    with scratch("c08") as d:
        vio, _, _ = execute(case["path"], case["cfg"], case["lines"], d)
    return vio


def replay(case):
    return [{"clause": c, "case": case, "expected": e, "observed": o, "features": f} for c, e, o, f in check_case(case)]


# ---- enumeration -----------------------------------------------------------------------------

def _is_ip(ti):
    return TOKENS[ti][0] == "ip"


def _is_host(ti):
    return TOKENS[ti][0] == "host"


def _host_only(cfg):
    """The configurations that differ from the default in the system host name only: lines without a host token behave
    exactly as under the default configuration, so only lines holding at least one host token are enumerated there."""
    return cfg["fqdn"] != FQDN


def _left(base):
    """choices for d0: the given delimiters plus a word character"""
    return list(base) + WORD_NB


def _right(ti, base):
    """choices for the delimiter that ends the line after token ti: plus a word character ('x'; IPv4 also '_')"""
    return list(base) + (IPV4_RIGHT if _is_ip(ti) else WORD_NB)


def _inner(ti, base, glue=GLUE):
    """choices for the delimiter between token ti and the next token: plus glue ("" and 'x'; after IPv4 also '_')"""
    out = list(base) + list(glue)
    for w in (IPV4_RIGHT if _is_ip(ti) else []):
        if w not in out:
            out.append(w)
    return out


DIAG3 = [("", ""), (" ", " "), (":", ":")]


def _pair_space(tier, ci, t1, t2):
    """(d0, d1, d2) of the pair lines of configuration ci (0 = default)"""
    if ci == 0:
        base = D_RED if tier == "quick" else D_FULL
        left = _left(D_MIN) if tier == "quick" else _left(base)     # quick: left-hand boundaries are the singles' job
        return [(d0, d1, d2) for d0 in left for d1 in _inner(t1, base[1:]) for d2 in _right(t2, base)]
    if tier == "quick":
        # single-token boundaries: see "singles" (full D); '/' and '=' (secret-class interplay): default configuration
        outer = DIAG3 + ([("", w) for w in IPV4_RIGHT] if _is_ip(t2) else [])
        return [(d0, d1, d2) for (d0, d2) in outer for d1 in _inner(t1, [" ", ":", "-"], glue=[""])]
    outer = [(d0, d2) for d0 in D_RED for d2 in (D_RED + (IPV4_RIGHT if _is_ip(t2) else []))]
    return [(d0, d1, d2) for (d0, d2) in outer for d1 in _inner(t1, D_FULL[1:], glue=[""])]


def _two_line_singles(tier):
    """the lines two-line contents are built from: (token or None for the blank line, d0, d2)"""
    outer = [("", ""), (" ", ":")] if tier == "quick" else list(itertools.product(D_MIN, D_MIN))
    out = [(t, d0, d2) for (d0, d2) in outer for t in range(NT)]
    out += [(t, "", w) for t in range(NT) if _is_ip(t) for w in IPV4_RIGHT]
    out.append((None, "", ""))
    return out


def _one_line(entry, pos):
    t, d0, d2 = entry
    return [""] if t is None else mk_line([t], [d0, d2], pos)


def mk_line_tok(tokens, delims):
    """like mk_line, for explicit [kind, text] tokens"""
    out = [delims[0]]
    for i, t in enumerate(tokens):
        out.append(list(t))
        out.append(delims[i + 1])
    return out


def units(tier, seed):
    us = []
    ncfg = len(configs())
    for ci in range(ncfg):
        if tier == "quick" and ci:
            us.append({"part": "pairs", "cfg": ci, "t1": list(range(NT))})      # small delimiter set: one unit
        else:
            for t1 in range(NT):
                us.append({"part": "pairs", "cfg": ci, "t1": [t1]})
        us.append({"part": "singles", "cfg": ci})
        us.append({"part": "paths", "cfg": ci})
    nl = len(_two_line_singles(tier))
    step = 10 if tier == "quick" else 5
    for lo in range(0, nl, step):
        us.append({"part": "twolines", "lo": lo, "hi": min(nl, lo + step)})
    if tier == "thorough":
        for t1 in range(NT):
            for t2 in range(NT):
                us.append({"part": "triples", "t1": t1, "t2": t2})
    else:
        # quick has no general triples; the host-name tokens alone are cheap and are where sequential textual
        # replacement interferes with itself (thorough covers them inside "triples")
        us.append({"part": "hosttriples"})
    us.append({"part": "width"})
    us.append({"part": "patvariants"})
    us.append({"part": "kwlists"})
    _selfcheck()
    for a in PAT_ATOM_NAMES:
        us.append({"part": "patlists", "first": a})
    for kind in sorted(REP_ALPHABET):
        for k in REP_LEN[tier]:
            if k <= 3:
                us.append({"part": "repeats", "kind": kind, "k": k, "first": None})
            else:
                for h in range(len(REP_ALPHABET[kind])):
                    us.append({"part": "repeats", "kind": kind, "k": k, "first": h})
    us.append({"part": "longlines"})
    return us


def unit_weight(u):
    return {"triples": 5, "pairs": 3, "twolines": 2, "paths": 2, "width": 2}.get(u["part"], 1)


def run_unit(unit, tier):
    from harness.tmp import mkscratch
    import shutil
    res = Result()
    part = unit["part"]
    cfgs = configs()
    scratch = mkscratch("c08")
    npath = {}
    try:
        def go(path, cfg, structs):
            vio, nontrivial, outcome = execute(path, cfg, structs, scratch)
            res.evals += 1
            npath[path] = npath.get(path, 0) + 1
            if nontrivial:
                res.nontrivial += 1
            if part in ("patlists", "repeats", "longlines"):
                # many tokens / lines per case: the fingerprint is the SET of token statuses (kept coarse)
                outcome = "+".join(sorted(set(outcome.split("+"))))
            res.outcomes.add(outcome)
            for c, e, o, f in vio:
                res.violation(c, {"path": path, "cfg": cfg, "lines": structs}, e, o, f)

        if part == "pairs":
            cfg = cfgs[unit["cfg"]]
            fq, ho = cfg["fqdn"], _host_only(cfg)
            for t1 in unit["t1"]:
                for t2 in range(NT):
                    if ho and not (_is_host(t1) or _is_host(t2)):
                        continue
                    for d0, d1, d2 in _pair_space(tier, unit["cfg"], t1, t2):
                        go("content", cfg, [mk_line([t1, t2], [d0, d1, d2], 0, fq)])
            t1 = unit["t1"][0]
            res.samples.append({"path": "content", "cfg": cfg, "lines": [mk_line([t1, 7], [" ", ":", ""], 0, fq)]})
        elif part == "singles":
            cfg = cfgs[unit["cfg"]]
            files = ("file",) if cfg.get("allow") else ("file", "write", "dswrite")
            small = set((D_RED if unit["cfg"] == 0 else D_MIN) + IPV4_RIGHT)
            fq, ho = cfg["fqdn"], _host_only(cfg)
            for t1 in range(NT):
                if ho and not _is_host(t1):
                    continue
                for d0 in _left(D_FULL):
                    for d2 in _right(t1, D_FULL):
                        st = [mk_line([t1], [d0, d2], 0, fq)]
                        go("content", cfg, st)
                        if tier == "thorough" or unit["cfg"] == 0 or (d0 in small and d2 in small):
                            go("content-str", cfg, st)     # differs from the list form in one branch only
                        if tier == "thorough" or (d0 in small and d2 in small):
                            for path in files:
                                go(path, cfg, st)
        elif part == "paths":
            # pairs at the line boundaries through the two file paths (the terminator is what differs there)
            cfg = cfgs[unit["cfg"]]
            files = ("file",) if cfg.get("allow") else ("file", "write")
            base = D_FULL[1:] if tier == "thorough" else (D_RED[1:] if unit["cfg"] == 0 else [" "])
            glue = [""] if (tier == "thorough" or unit["cfg"] == 0) else []
            fq, ho = cfg["fqdn"], _host_only(cfg)
            for t1 in range(NT):
                for t2 in range(NT):
                    if ho and not (_is_host(t1) or _is_host(t2)):
                        continue
                    for d1 in _inner(t1, base, glue=glue):
                        for d2 in [""] + (IPV4_RIGHT if _is_ip(t2) else []):
                            st = [mk_line([t1, t2], ["", d1, d2], 0, fq)]
                            for path in files:
                                go(path, cfg, st)
            res.samples.append({"path": "write" if "write" in files else "file", "cfg": cfg,
                                "lines": [mk_line([0, 7], ["", ":", ""], 0, fq)]})
        elif part == "twolines":
            cfg = cfgs[0]
            singles = _two_line_singles(tier)
            for a in singles[unit["lo"]:unit["hi"]]:
                for b in singles:
                    st = [_one_line(a, 0), _one_line(b, 1)]
                    for path in ("content", "content-2calls", "file", "write"):
                        go(path, cfg, st)
            res.samples.append({"path": "content-2calls", "cfg": cfg, "lines": [mk_line([1], ["", ""], 0), mk_line([0], [" ", ":"], 1)]})
        elif part == "triples":
            cfg = cfgs[0]
            t1, t2 = unit["t1"], unit["t2"]
            for t3 in range(NT):
                for d0 in D_MIN:
                    for d1 in _inner(t1, D_RED[1:], glue=[""]):
                        for d2 in _inner(t2, D_RED[1:], glue=[""]):
                            for d3 in D_MIN + (IPV4_RIGHT if _is_ip(t3) else []):
                                go("content", cfg, [mk_line([t1, t2, t3], [d0, d1, d2, d3])])
        elif part == "hosttriples":
            cfg = cfgs[0]
            hosts = [i for i, t in enumerate(TOKENS) if t[0] == "host" and t[1] != "@parent"]
            for t1, t2, t3 in itertools.product(hosts, repeat=3):
                for d0, d3 in DIAG3:
                    for d1 in (" ", "-", "", "_"):
                        for d2 in (" ", "-", "", "_"):
                            go("content", cfg, [mk_line([t1, t2, t3], [d0, d1, d2, d3])])
        elif part == "width":
            # the IPv4 keep-width variant (netstat): singles of every token, pairs with an address in them
            cfg = cfgs[0]
            ipish = [i for i, t in enumerate(TOKENS) if t[0] in ("ip", "lo")]
            for t1 in range(NT):
                for d0 in D_RED:
                    for d2 in _right(t1, D_RED):
                        st = [mk_line([t1], [d0, d2])]
                        for path in WIDTH_PATHS:
                            go(path, cfg, st)
            for t1 in range(NT):
                for t2 in range(NT):
                    if t1 in ipish or t2 in ipish:
                        for d0, d2 in [("", ""), (" ", " ")] + ([("", w) for w in IPV4_RIGHT] if _is_ip(t2) else []):
                            for d1 in _inner(t1, D_RED[1:], glue=[""]):
                                go("content-width", cfg, [mk_line([t1, t2], [d0, d1, d2])])
            res.samples.append({"path": "file-netstat", "cfg": cfg, "lines": [mk_line([3], ["", " "])]})
        elif part == "patvariants":
            # falsy-but-real pattern entries: the empty pattern is contained in every line, so every line goes
            for pv in sorted(PAT_VARIANTS):
                cfg = dict(DEFAULT_CFG, pat=pv)
                for t1 in range(NT):
                    for d0 in D_MIN:
                        for d2 in D_MIN:
                            st = [mk_line([t1], [d0, d2])]
                            for path in ("content", "content-str", "file", "write"):
                                go(path, cfg, st)
                for t1 in range(NT):
                    st = [mk_line([t1], ["", ""], 0), mk_line([NT - 1], ["", ""], 1)]
                    for path in ("content", "file", "write"):
                        go(path, cfg, st)
        elif part == "kwlists":
            for kws in keyword_list_variants():
                cfg = dict(DEFAULT_CFG, kw=list(kws))
                toks = [["kw", k] for k in kws] + [["word", "zzz"], ["ip", "10.1.1.1"]]
                for a in toks:
                    for d0 in ["", "x"]:
                        for d2 in ["", "x"]:
                            st = [mk_line_tok([a], [d0, d2])]
                            go("content", cfg, st)
                            go("content-str", cfg, st)
                    for b in toks:
                        for d1 in [" ", "", ":", "-"]:
                            st = [mk_line_tok([a, b], ["", d1, ""])]
                            go("content", cfg, st)
                            go("file", cfg, st)
            res.samples.append({"path": "content", "cfg": dict(DEFAULT_CFG, kw=keyword_list_variants()[0]),
                                "lines": [mk_line_tok([["kw", "K1"], ["kw", "K10"]], ["", " ", ""])]})
        elif part == "patlists":
            _selfcheck()
            everything = [mk_line_tok([["pat", w]], ["", ""]) for w in PAT_WORDS]
            for atoms in patlists(tier, unit["first"]):
                n = len(atoms)
                for form in ("regex", "plain"):
                    if form == "plain" and n > 2:
                        continue
                    cfg = patlist_cfg(form, atoms)
                    # one content holding every word (the earlier lines' verdicts must not leak into the later ones')
                    for c2 in (cfg, patlist_cfg(form, atoms, obf=0)):
                        for path in ("content", "content-2calls", "file", "write", "dswrite"):
                            go(path, c2, everything)
                    if form == "plain" and n > 1:
                        continue
                    paths = ("content", "content-str", "file", "write") if n == 1 else ("content", "file")
                    for w in PAT_WORDS:
                        for d0, d2 in PAT_WORD_DELIMS:
                            st = [mk_line_tok([["pat", w]], [d0, d2])]
                            for path in paths:
                                go(path, cfg, st)
            res.samples.append({"path": "content", "cfg": patlist_cfg("regex", ["grp", "bref"]),
                                "lines": [mk_line_tok([["pat", "tk=\"s3\""]], ["", ""])]})
        elif part == "repeats":
            _selfcheck()
            cfg = cfgs[0]
            seps = REP_SEPS if unit["k"] <= 3 else REP_SEPS[:1]
            for toks in rep_sequences(unit["kind"], unit["k"], unit["first"]):
                for sep in seps:
                    go("content", cfg, [rep_line(toks, sep)])
            res.samples.append({"path": "content", "cfg": cfg,
                                "lines": [rep_line(next(rep_sequences(unit["kind"], unit["k"], unit["first"])), " ")]})
        elif part == "longlines":
            _selfcheck()
            cfg = cfgs[0]
            for kind in sorted(LONG_GEN):
                for toks in long_lines(kind):
                    for sep in REP_SEPS:
                        st = [rep_line(toks, sep)]
                        for path in ("content", "content-str", "file", "write"):
                            go(path, cfg, st)
        else:
            raise ValueError(part)
    finally:
        shutil.rmtree(scratch, ignore_errors=True)
    for k, n in npath.items():
        res.stat("cases_via_" + k, n)
    res.stat("cases_in_" + part, res.evals)
    res.maxi("tokens_per_line", {"singles": 1, "twolines": 1, "patvariants": 1, "triples": 3, "hosttriples": 3, "patlists": 1,
                                 "repeats": unit.get("k"), "longlines": LONG_MAX + 1}.get(part, 2))
    res.maxi("lines_per_content", 2 if part in ("twolines", "patvariants") else (len(PAT_WORDS) if part == "patlists" else 1))
    if part == "patlists":
        res.maxi("patterns_per_list", 3 if tier == "thorough" else 2)
    return res


TECHNIQUE = ("bounded exhaustive enumeration of token/delimiter lines x single-deviation configurations x entry points, "
             "executed against the real Cleaner; survivor oracle after masking the substitutes reported by mapping()")
LEVEL_TEXT = ("Every line of <= 2 (quick) / <= 3 (thorough) sensitive tokens over 34 tokens and 13 delimiters (+ word-character neighbours and no delimiter), every content "
              "of <= 2 such lines, under every configuration one switch / one per-spec exemption / one pattern form / one "
              "host-name form away from everything-on, is cleaned by the real code through clean_content, clean_file and "
              "the provider write path, and the output is searched for survivors. Pattern lists of up to 2 (3) structured "
              "regular expressions in every order and lines repeating up to 4 (5) tokens of one kind / holding up to 12 "
              "distinct ones are covered the same way. No sampling; the claim is 'no survivor within the bound'.")
LEVEL_NOTE = ("Trusted: the substitute lists of mapping() (their consistency is C09), the tree's own obfuscator order (C10). "
              "Not demanded: tokens glued to word characters, leading zeros, upper-case host spellings, secrets outside the "
              "documented class, a password key inside an earlier secret run, IPv6.")
