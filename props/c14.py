"""C14 - base parsers accept well-formed content and reject bad content as documented.

Four bounded exhaustive enumerations, each executed against the real classes in
insights/core/__init__.py and compared with a boring reference (ref/c14_models.py):

  (a) cmd     CommandParser bad-line validation: every content of 0-3 lines over an alphabet with one
              line per (phrase x letter case x position) plus glued / cut / split phrases, 7 extra_bad_lines
              settings, and the same rule observed through ContainerParser
  (b) json /  JSONParser / YAMLParser: every mapping/sequence value up to depth 2 over the scalar set,
      yaml    3-4 renderings, 0-2 noise lines, every proper prefix of three sample documents, every
              token string of <= 3 (quick) / <= 4 (thorough) tokens, hand-picked junk; list and str input
  (c) search  get / __contains__ / keep_scan / last_scan / token_scan on every log of <= 4 (5) lines over
              {alpha, beta, both, neither, ""} (+ glued / doubled / other-case lines, one line shorter) for every
              (terms, all|any, num, reverse), on TextFileOutput, LogFileOutput, Syslog, LazyLogFileOutput
  (d) time    get_after on every log of <= 4 (5) lines over stamps around the query time and the year
              boundary, continuation lines and term-bearing lines, for 10 (13) format kinds: one format / a list /
              a dict of formats, all with a year, all without, and lists / dicts that MIX year-less formats with
              formats that carry a year (both orders; lines of both styles in one log)

Oracle = what the property states; the lenient cases of DESIGN.md C14 are encoded in the reference
(json_expect / yaml_expect) and commented there.
"""
import datetime
import functools
import itertools
import json
import re

from mc.result import Result
from ref import c14_models as M

ID = "C14"
LEVEL = "exploration"
RULE = ("cmd: all contents of 0..3 lines over the phrase x case x position line alphabet (3-line contents over a "
        "reduced alphabet in quick) x 3 extra_bad_lines settings, non-trivial = some line contains a bad phrase; "
        "json/yaml: all container values to depth 2 x renderings x noise placements, all proper prefixes of 3 sample "
        "documents, all token strings up to the bound, junk list, list and str input, non-trivial = noise present or "
        "multi-line or the outcome is not a value; search: all logs up to the bound x all queries, non-trivial = the "
        "matches are a non-empty proper subset of the lines or the limit truncates; time: all logs up to the bound "
        "over the distinct rendered symbols x query time x terms x format kind (string, list, dict; all formats with a "
        "year, none, or a mix of both given as list and as dict in both orders, the log lines alternating between the "
        "styles), non-trivial = inclusion switches at "
        "least once, or a continuation line follows a used stamped line, or the year inference moved a stamp")
ASSUMPTIONS = [
    "json.loads and yaml.load(SafeLoader / CSafeLoader) are trusted as decoders; the wrapper logic around them is what is checked "
    "(where the two YAML loaders disagree on a text - only 'a:<TAB>b' in the enumerated space - either verdict is accepted: the "
    "statement does not pick a YAML dialect)",
    "decided by the statement (strict): an empty top-level {} / [] is a valid mapping/sequence document and must be returned as its "
    "value (JSON and YAML); no lines / empty string / null -> skip; undecodable -> parse error; YAML scalar -> parse error; "
    "the year rollover means true calendar dates (adjacent year, not '365 days')",
    "remaining lenient cases (statement silent or contradicted by the class documentation, kept narrow): a JSON scalar document may be "
    "returned as its value or be a parse error (never a skip); whitespace-only JSON may skip or be a parse error; a scalar after noise "
    "lines may be the value or a parse error, null after noise a skip or a parse error; noise before a document in *str* input may give "
    "the value or a parse error; last_scan without a match may be any falsy value",
    "excluded from the alphabets because the statement does not cover them: noise lines that themselves start with { or [ (the "
    "documented start-line heuristic cannot tell them from the document), extra_bad_lines given as a str or in upper case, search "
    "terms of other types than str / non-empty list of str, negative limits, unpadded day numbers ('Jan 1 00:00:00': not "
    "timestamp-shaped under the documented format-to-regex conversion), lines with two timestamps, timestamp-shaped substrings "
    "that are not valid dates",
    "time format lists / dicts that mix year-less formats with formats that have a year: a line in a year-less style gets its year "
    "inferred from the sought time exactly like under a single year-less format (statement: 'with or without year, across a year "
    "boundary' - strict, no leniency); for a line in a style WITH a year the statement does not say whether its own year counts or "
    "whether the parser as a whole is 'without year' (documentation: 'detected by the absence of %y or %Y in the time format'), so "
    "both readings are accepted for such lines - they differ only when the written year is not the inferred one (counted in the "
    "evidence as time_mixed_explicit_year_reading_would_differ_either_accepted)",
    "bounded: no counterexample within the stated line / token / depth bounds over the stated alphabets, nothing more",
]
BOUNDS = {
    "quick": {"cmd_lines": 3, "cmd_alphabet": 94, "cmd_3line_alphabet": 22, "cmd_extra_settings": 8, "doc_depth": 2, "noise_lines": 2,
              "garbage_tokens": 3, "search_lines": 4, "search_lines_full_alphabet": 3, "time_lines": 4, "time_lines_extra_kinds": 3,
              "time_formats": 10, "time_formats_mixing_year_and_yearless": 2, "query_times": 4},
    "thorough": {"cmd_lines": 3, "cmd_alphabet": 94, "cmd_3line_alphabet": 94, "cmd_extra_settings": 8, "doc_depth": 2, "noise_lines": 2,
                 "garbage_tokens": 4, "search_lines": 5, "search_lines_full_alphabet": 4, "time_lines": 5, "time_lines_extra_kinds": 4,
                 "time_formats": 13, "time_formats_mixing_year_and_yearless": 4, "query_times": 5},
}
CAP_S = {"quick": 300, "thorough": 3600}


@functools.lru_cache(None)
def _imp():
    from insights.core import (CommandParser, ContainerParser, JSONParser, YAMLParser, TextFileOutput, LogFileOutput,
                               LazyLogFileOutput, Syslog)
    from insights.core.context import Context
    from insights.core.exceptions import ContentException, ParseException, SkipComponent
    from harness.ctx import make_context
    return dict(CommandParser=CommandParser, ContainerParser=ContainerParser, JSONParser=JSONParser, YAMLParser=YAMLParser,
                TextFileOutput=TextFileOutput, LogFileOutput=LogFileOutput, LazyLogFileOutput=LazyLogFileOutput,
                Syslog=Syslog, Context=Context,
                ContentException=ContentException, ParseException=ParseException, SkipComponent=SkipComponent,
                make_context=make_context)


# =============================================================================================
# (a) CommandParser
# =============================================================================================

EXTRA_PHRASE = "xtra fail"
META_PHRASE = "err (.*) [x"            # a phrase full of regular-expression metacharacters
# extra_bad_lines settings: absent, a falsy list, one phrase, a built-in single-line phrase, two phrases with the live one
# first / last ("more than one of a thing"), a phrase with metacharacters; plus the ContainerParser wrapper as a second
# observation channel of the same rule (it takes no extra_bad_lines)
CMD_EXTRAS = [None, [], [EXTRA_PHRASE], ["command not found"], ["zzz nothing", EXTRA_PHRASE], [EXTRA_PHRASE, "zzz nothing"],
              [META_PHRASE], "via:ContainerParser"]
_CASES = (("lower", str.lower), ("upper", str.upper), ("mixed", str.title))
_POS = (("whole", "%s"), ("prefix", "%s: tail text"), ("suffix", "bash: thing: %s"), ("infix", "ls: %s (os error 2)"))


@functools.lru_cache(None)
def cmd_alphabet():
    """[(tag, line)]; one line per shortcut of the rule."""
    syms = [("ordinary", "ordinary output line"), ("empty", "")]
    for p in M.SINGLE_PHRASES + M.MULTI_PHRASES:
        for cn, cf in _CASES:
            for pn, pf in _POS:
                syms.append(("%s/%s/%s" % (p, cn, pn), pf % cf(p)))
    for cn, cf in _CASES:
        for pn, pf in (_POS[0], _POS[3]):
            syms.append(("%s/%s/%s" % (EXTRA_PHRASE, cn, pn), pf % cf(EXTRA_PHRASE)))
    # neighbours and glue: the phrase between word characters, a phrase cut short at either end, a phrase split over
    # two lines (never bad: the rule is per line), the metacharacter phrase
    for p in M.SINGLE_PHRASES + M.MULTI_PHRASES:
        syms.append(("%s/lower/glued" % p, "abc%sxyz" % p))
    syms += [("cut/tail", "bash: thing: command not foun"), ("cut/head", "o such file or directory: /x"),
             ("split/single/1", "bash: thing: command not"), ("split/single/2", "found in path"),
             ("split/multi/1", "rpm: missing"), ("split/multi/2", "dependencies: libfoo"),
             ("meta/upper/infix", "prog: ERR (.*) [X here"), ("meta/near-miss", "prog: err (abc) [x here")]
    assert len(set(l for _, l in syms)) == len(syms)
    return syms


@functools.lru_cache(None)
def cmd_reduced():
    """Indices of the reduced alphabet used for the third line dimension in the quick tier."""
    want = ["ordinary", "empty",
            "command not found/lower/whole", "command not found/upper/infix", "no such file or directory/mixed/suffix",
            "not a directory/lower/prefix", "no module named/upper/whole", "no files found for/mixed/infix",
            "missing dependencies:/lower/whole", "missing dependencies:/upper/suffix", "missing dependencies:/mixed/infix",
            "missing dependencies:/lower/prefix",
            "xtra fail/lower/whole", "xtra fail/upper/infix", "xtra fail/mixed/whole", "command not found/mixed/prefix",
            "missing dependencies:/lower/glued", "split/multi/1", "split/multi/2", "split/single/1", "split/single/2",
            "meta/upper/infix"]
    tags = [t for t, _ in cmd_alphabet()]
    return [tags.index(w) for w in want]


_REC = {}


def _rec_class(base="CommandParser"):
    if base not in _REC:
        I = _imp()

        class C14Recorder(I[base]):
            calls = []

            def parse_content(self, content):
                type(self).calls.append(content)
        _REC[base] = C14Recorder
    return _REC[base]


_ALL_PHRASES = M.SINGLE_PHRASES + M.MULTI_PHRASES + [EXTRA_PHRASE, META_PHRASE]


def check_cmd(lines, extra):
    """-> (violations, meta). violations = [(clause, expected, observed, features)]"""
    I = _imp()
    via = "CommandParser"
    if isinstance(extra, str):                      # "via:<wrapper class>": same rule, no extra_bad_lines
        via, extra = extra.split(":", 1)[1], None
    Rec = _rec_class(via)
    Rec.calls = calls = []
    orig = list(lines)
    ctx = I["make_context"](lines)
    raised = None
    given = None if extra is None else list(extra)
    try:
        if extra is None:
            Rec(ctx)
        else:
            Rec(ctx, extra_bad_lines=given)
    except I["ContentException"]:
        raised = "ContentException"
    except Exception as ex:
        raised = type(ex).__name__
    bad = M.command_is_bad(orig, extra)
    feats = {"part": "cmd", "lines": len(orig), "extra": extra is not None, "via": via}
    v = []
    if given is not None and given != list(extra):
        v.append(("command:extra-bad-lines-unchanged", list(extra), given, feats))
    if raised not in (None, "ContentException"):
        v.append(("command:other-exception-type", "ContentException or an object", raised, feats))
    elif bad:
        if raised is None:
            v.append(("command:bad-output-rejected", "ContentException (documented rule: %s)"
                      % ("single-line list" if len(orig) == 1 else "multi-line list"), "object constructed", feats))
        if calls:
            v.append(("command:parse-content-not-called-on-bad-output", "parse_content never called", "called %d time(s)" % len(calls), feats))
    else:
        if raised is not None:
            v.append(("command:good-output-reaches-parser", "parse_content(%r)" % (orig,), "ContentException", feats))
        elif len(calls) != 1 or not isinstance(calls[0], list) or calls[0] != orig or ctx.content != orig:
            v.append(("command:content-unchanged", [orig], calls, feats))
    meta = {"nt": any(p in l.lower() for l in orig for p in _ALL_PHRASES),
            "out": "cmd:%d:%s:%s:%s" % (len(orig), "bad" if bad else "good", "x" if extra else "-", via[:4])}
    return v, meta


def check_cmd_none():
    """content None (a spec that produced nothing): not an error message, so no ContentException; the parser is reached
    exactly once with nothing in it (None or an empty list - the statement does not say which)."""
    I = _imp()
    v = []
    for via in ("CommandParser", "ContainerParser"):
        Rec = _rec_class(via)
        Rec.calls = calls = []
        raised = None
        try:
            Rec(I["Context"](content=None, path="path"))
        except Exception as ex:
            raised = type(ex).__name__
        if raised is not None or len(calls) != 1 or calls[0] not in (None, []):
            v.append(("command:content-unchanged", "parse_content(None) once", "raised %s, calls %r" % (raised, calls),
                      {"part": "cmd", "lines": 0, "extra": False, "via": via}))
    return v, {"nt": False, "out": "cmd:none"}


def cmd_contents(first, tier):
    """All contents whose first line is alphabet symbol `first` (-1: the empty content)."""
    n = len(cmd_alphabet())
    if first < 0:
        yield ()
        return
    yield (first,)
    for j in range(n):
        yield (first, j)
    if tier == "thorough":
        third = range(n)
        second = range(n)
    else:
        red = cmd_reduced()
        if first not in red:
            return
        second = third = red
    for j in second:
        for k in third:
            yield (first, j, k)


# =============================================================================================
# (b) JSON / YAML documents
# =============================================================================================

SCALARS = [0, -1, 1.5, "s", "", True, False, None]
EMPTIES = [[], {}]
QUICK_INNER = [0, "s", None, [], {}, [0], [1.5, ""], {"a": -1}, {"a": True, "b": "s"}]
JSON_NOISE = {"quick": ["noise line", "", "WARN: {x} [y]", "   "],
              "thorough": ["noise line", "", "WARN: {x} [y]", "   ", "}", "0", "\t", "null"]}
YAML_IGNORE = ["warning", "#!"]
YAML_NOISE = ["WARNING: x: y", "  warning [", "Warning", "#!shebang {"]
SAMPLES = ['{"a": [0, {"b": null}], "c": "s"}',
           '{\n  "a": [\n    0,\n    {\n      "b": null\n    }\n  ],\n  "c": "s"\n}',
           '[{"a": 1.5}, [], "x"]']
YAML_SAMPLES = ["a:\n- 0\n- b: null\nc: s\n", "{a: [0, {b: null}], c: s}", '[\n  {\n    "a": 1.5\n  },\n  [],\n  "x"\n]']
TOKENS = ["{", "}", "[", "]", ",", ":", "0", '"s"', "null", "x"]
YAML_TOKENS = TOKENS + ["-", "a:"]
JSON_JUNK = [["deep", 100000, False], ["deep", 100000, True], ["deep", 400, True],
             ["text", "\ufeff{}"], ["text", "{'a': 1}"], ["text", "NaN"], ["text", '{"a": NaN}'], ["text", "[1,]"],
             ["text", '{"a":1}{"b":2}'], ["text", "[0]\x00"], ["text", '["\\ud800"]'], ["text", '{"a":1,"a":2}'],
             ["text", "[" + "9" * 5000 + "]"], ["text", '{"a" 1}'], ["text", "[0]]"], ["text", "{]"], ["text", "\t[\t0\t]\t"],
             ["text", "// c\n[0]"], ["text", "[0] // c"], ["text", '{"a": tru}'], ["text", "\x00"]]
YAML_JUNK = [["text", t] for t in (
    "[2001-14-45]", "a: 2001-02-30", "- !!bool x", "- !!timestamp x", "- !!float x", "a: !!int x", "{[]: 0}", "=",
    "<<: 5", "*a", "\t", "%", "- !!binary x", "a: \x07", "a: b: c", "- a\nb", "---\na: 1\n---\nb: 2", "--- \n...",
    "a: 1\na: 2", "? [a]\n: b", "!!python/object:os.system x", "key: [unclosed", '"unterminated', "{a: 1, b}",
    "a: 2001-02-03", "- !!set {a}", "!!null x", "\ufeffa: 1", "a:\tb", "- - - 0", "a: |\n  text", "a: &x 1\nb: *x",
    "@", "`", "a: 'it''s'", "[a, b", "{a: 1", "a: 1\n b: 2", "- a\n - b", "? a", ": 0", "-", "- ", "~", "null", "''",
    "#only comment", "...", "---", "--- ~", "%YAML 1.1\n---\na: 1", "%YAML 9.9\n---\na: 1", "%TAG ! x\n---\n- 0")]


def _containers(inner, maxlen):
    for n in range(1, maxlen + 1):
        for tup in itertools.product(inner, repeat=n):
            yield list(tup)
    for n in range(1, maxlen + 1):
        for tup in itertools.product(inner, repeat=n):
            yield dict(zip(["a", "b", "c"][:n], tup))


@functools.lru_cache(None)
def container_docs(tier):
    """Distinct mapping / sequence values up to depth 2 (JSON text of each, compact)."""
    d0 = SCALARS + EMPTIES
    out = list(EMPTIES) + list(_containers(d0, 2))
    if tier == "quick":
        out += list(_containers(QUICK_INNER, 2))
    else:
        inner = d0 + list(_containers(d0, 1)) + QUICK_INNER[5:]
        out += list(_containers(inner, 2))
        out += list(_containers(d0, 3))
    seen = set()
    res = []
    for v in out:
        k = json.dumps(v)
        if k not in seen:
            seen.add(k)
            res.append(k)
    return res


_TOK_RE = re.compile(r'"(?:[^"\\]|\\.)*"|[{}\[\],:]|[^\s{}\[\],:"]+')


def render(text, how):
    """JSON text of a value -> list of lines in rendering `how`."""
    v = json.loads(text)
    if how == "compact":
        return [json.dumps(v, separators=(",", ":"))]
    if how == "spaced":
        return [json.dumps(v)]
    if how == "indented":
        return json.dumps(v, indent=2).split("\n")
    if how == "shifted":
        return ["  " + l for l in json.dumps(v, indent=2).split("\n")]
    if how == "tokens":
        return _TOK_RE.findall(json.dumps(v, separators=(",", ":")))
    if how == "block":
        import yaml
        return yaml.safe_dump(v, default_flow_style=False).rstrip("\n").split("\n")
    raise ValueError(how)


JSON_RENDERINGS = ["compact", "indented", "tokens", "shifted"]
YAML_RENDERINGS = ["spaced", "block", "tokens", "indented"]


def noise_prefixes(alphabet, maxn=2):
    for n in range(0, maxn + 1):
        for t in itertools.product(alphabet, repeat=n):
            yield list(t)


def yaml_noise_placements(doc_lines):
    """Document lines with 0-2 ignorable lines inserted: before, after the first line, at the end."""
    n = len(doc_lines)
    slots = sorted(set([0, min(1, n), n]))
    yield list(doc_lines), 0
    for z in YAML_NOISE:
        for s in slots:
            yield doc_lines[:s] + [z] + doc_lines[s:], 1
    for z1 in YAML_NOISE[:3]:
        for z2 in YAML_NOISE[:3]:
            yield [z1, z2] + doc_lines, 2
            yield [z1] + doc_lines + [z2], 2


@functools.lru_cache(None)
def _yaml_decoders():
    import yaml
    loaders = [yaml.SafeLoader]
    if getattr(yaml, "CSafeLoader", None) is not None:
        loaders.append(yaml.CSafeLoader)

    def mk(loader):
        def dec(text):
            try:
                return "ok", yaml.load(text, Loader=loader)
            except Exception as ex:
                return "err", type(ex).__name__
        return dec
    return [mk(l) for l in loaders]


_YCACHE = {}


def _yaml_expect(inp, ignore):
    if isinstance(inp, list):
        text = "\n".join(M.yaml_effective_lines(inp, ignore or ()))
    else:
        text = inp
    e = _YCACHE.get(text)
    if e is None:
        if len(_YCACHE) > 20000:
            _YCACHE.clear()
        e = _YCACHE[text] = M.yaml_expect(text, (), _yaml_decoders())
    return e


_DOC_CLS = {}


def _doc_class(kind, ignore):
    key = (kind, tuple(ignore or ()))
    c = _DOC_CLS.get(key)
    if c is None:
        I = _imp()
        if kind == "json":
            class C14Json(I["JSONParser"]):
                pass
            c = C14Json
        else:
            class C14Yaml(I["YAMLParser"]):
                pass
            if ignore:
                C14Yaml.ignore_lines = tuple(ignore)
            c = C14Yaml
        _DOC_CLS[key] = c
    return c


def materialise(inp):
    """Descriptor form of an input -> the real input (list of lines or str)."""
    if isinstance(inp, dict):
        kind = inp["gen"][0]
        if kind == "deep":
            text = "[" * inp["gen"][1] + ("]" * inp["gen"][1] if inp["gen"][2] else "")
        else:
            raise ValueError(kind)
        return [text] if inp.get("as") == "list" else text
    return inp


def check_doc(kind, inp, ignore=None):
    """kind = 'json' | 'yaml'; inp = list of lines | str (already materialised)."""
    I = _imp()
    cls = _doc_class(kind, ignore)
    is_list = isinstance(inp, list)
    orig = list(inp) if is_list else inp
    ctx = I["make_context"](inp) if is_list else I["Context"](content=inp, path="path")
    parser = None
    try:
        parser = cls(ctx)
        obs = ("value", parser.data)
    except I["ParseException"]:
        obs = "parse"
    except I["SkipComponent"]:
        obs = "skip"
    except Exception as ex:
        obs = ("other", type(ex).__name__)
    exp = M.json_expect(orig) if kind == "json" else _yaml_expect(orig, ignore)
    okind = obs if isinstance(obs, str) else obs[0]
    feats = {"part": kind, "input": "list" if is_list else "str", "observed": okind, "why": exp["why"]}
    v = []
    if okind == "other":
        v.append(("%s:other-exception-type" % kind, M.describe(exp), "raised " + obs[1], dict(feats, raised=obs[1])))
    elif not M.outcome_allowed(exp, obs):
        n_allowed = int(exp["skip"]) + int(exp["parse"]) + len(exp["values"])
        if n_allowed > 1:
            clause = "%s:outcome-in-lenient-set" % kind
        elif exp["values"]:
            clause = "%s:document-value" % kind
        elif exp["skip"]:
            clause = "%s:skip-for-empty-or-null" % kind
        else:
            clause = "%s:parse-error-for-undecodable" % kind
        shown = ("data == %s" % (repr(obs[1])[:300],)) if okind == "value" else \
            {"skip": "SkipComponent", "parse": "ParseException"}[okind]
        v.append((clause, M.describe(exp), shown, feats))
    elif okind == "value" and kind == "json" and is_list and exp["unparsed"] is not None:
        got = getattr(parser, "unparsed_lines", "<no attribute>")
        if got != exp["unparsed"]:
            v.append(("json:unparsed-lines", exp["unparsed"], got, feats))
    if is_list and ctx.content != orig:
        v.append(("%s:content-unchanged" % kind, orig, ctx.content, feats))
    nl = len(orig) if is_list else orig.count("\n") + 1
    meta = {"nt": okind != "value" or nl > 1, "out": "%s:%s:%s:%s" % (kind, "list" if is_list else "str", exp["why"][:24], okind),
            "agree": exp.get("agree", True)}
    return v, meta


def doc_inputs(kind, part, tier, shard, of):
    """Yields (descriptor_input, ignore) for the given sub-part; descriptor_input is JSON-able."""
    if part == "docs":
        docs = container_docs(tier)
        for di in range(shard, len(docs), of):
            text = docs[di]
            if kind == "json":
                for how in JSON_RENDERINGS:
                    lines = render(text, how)
                    for nz in noise_prefixes(JSON_NOISE[tier]):
                        yield nz + lines, None
                    yield ["noise line", "", "   "] + lines, None          # more than two noise lines, blank ones last
                    yield lines + ["trailing noise"], None
                    yield lines + ["", "  "], None                         # blank lines after the document are not content
                    yield "\n".join(lines), None
                    yield "\n".join(lines) + "\n", None
                    yield "noise line\n" + "\n".join(lines), None
                    yield "\n" + "\n".join(lines), None
            else:
                for how in YAML_RENDERINGS:
                    lines = render(text, how)
                    yield list(lines), None
                    yield "\n".join(lines), None
                    yield "\n".join(lines) + "\n", None
                    for ls, _k in yaml_noise_placements(lines):
                        yield ls, YAML_IGNORE
    elif part == "scalars":
        texts = ["0", "-1", "1.5", '"s"', '""', "true", "false", "0.0", "null"]
        if kind == "yaml":
            texts += ["s", "''", "~", "yes", "no", "- ", "a:"]
        for t in texts:
            noise = JSON_NOISE[tier] if kind == "json" else []
            for nz in noise_prefixes(noise):
                yield nz + [t], None
                yield "\n".join(nz + [t]), None
            if kind == "yaml":
                for ls, _k in yaml_noise_placements([t]):
                    yield ls, YAML_IGNORE
        for ws in ([], [""], [" "], ["", ""], ["\t"], [" ", "  "]):
            yield ws, None
            if kind == "yaml":
                yield ws + ["Warning"], YAML_IGNORE
        for ws in ("", " ", "\n", " \n ", "\t"):
            yield ws, None
    elif part == "prefix":
        for doc in (SAMPLES if kind == "json" else YAML_SAMPLES + SAMPLES[:1]):
            for n in range(0, len(doc)):
                p = doc[:n]
                yield p, None
                yield (p.split("\n") if p else []), None
                if kind == "json":
                    yield ["noise line"] + p.split("\n"), None
                else:
                    yield ["Warning: x"] + p.split("\n") + ["  WARNING"], YAML_IGNORE
    elif part == "garbage":
        toks = TOKENS if kind == "json" else YAML_TOKENS
        maxn = BOUNDS[tier]["garbage_tokens"]
        k = 0
        for n in range(0, maxn + 1):
            for t in itertools.product(toks, repeat=n):
                k += 1
                if k % of != shard:
                    continue
                yield [" ".join(t)], None
                yield " ".join(t), None
                if n > 1:
                    yield list(t), None
                    yield "\n".join(t), None
        if shard == 0:
            for j in (JSON_JUNK if kind == "json" else YAML_JUNK):
                if j[0] == "text":
                    yield j[1], None
                    yield j[1].split("\n"), None
                    if kind == "json":
                        yield ["noise line"] + j[1].split("\n"), None
                else:
                    yield {"gen": j, "as": "str"}, None
                    yield {"gen": j, "as": "list"}, None
    else:
        raise ValueError(part)


# =============================================================================================
# (c) line search
# =============================================================================================

SEARCH_LINES = ["May  9 15:13:34 host procA[1]: alpha started",
                "May  9 15:13:35 host procB[2]: beta started",
                "May  9 15:13:36 host procC[3]: beta then alpha",
                "May  9 15:13:37 host procD[4]: neither",
                "",
                # neighbours and glue: the term inside a longer word, twice in a line, in another letter case
                "May  9 15:13:38 host procE[5]: alphabet soup",
                "May  9 15:13:39 host procF[6]: alpha and alpha again",
                "May  9 15:13:40 host procG[7]: ALPHA Beta shouted"]
N_SEARCH_BASE = 5        # logs of the full length use the first five lines; logs one line shorter use all eight
# terms: single, one-element list, two-element list, absent, empty string (contained in every line), a term that is a
# prefix of another one, a term made of regular-expression metacharacters
SEARCH_TERMS = {"quick": ["alpha", ["alpha"], ["alpha", "beta"], "beta", "zeta", "", ["alp", "alpha"], "[1]:"],
                "thorough": ["alpha", ["alpha"], ["alpha", "beta"], "beta", "zeta", "", ["alp", "alpha"], "[1]:",
                             ["beta", "zeta"], ["beta", "alpha"], ["alpha", "beta", "then"], [""], "a.pha"]}
SEARCH_NUMS = [None, 0, 1, 2]
SEARCH_CLASSES = ["TextFileOutput", "LogFileOutput", "Syslog", "LazyLogFileOutput"]


@functools.lru_cache(None)
def search_queries(tier):
    qs = []
    for s in SEARCH_TERMS[tier]:
        qs.append({"op": "contains", "s": s})
        for chk in ("all", "any"):
            qs.append({"op": "token_scan", "s": s, "check": chk})
            qs.append({"op": "last_scan", "s": s, "check": chk})
            for num in SEARCH_NUMS:
                for rev in (False, True):
                    qs.append({"op": "get", "s": s, "check": chk, "num": num, "reverse": rev})
                    # keep_scan forwards to get: the quick tier registers it for two of the four limits
                    if tier == "thorough" or num in (None, 1):
                        qs.append({"op": "keep_scan", "s": s, "check": chk, "num": num, "reverse": rev})
    return qs


def _raw(d):
    """The line a result dictionary stands for; every raw key present must carry the same line."""
    if not isinstance(d, dict):
        return ("<not a dict>", repr(d))
    raws = [d[k] for k in ("raw_line", "raw_message") if k in d]
    if not raws:
        return "<no raw line key>"
    if any(r != raws[0] for r in raws):
        return ("<raw keys differ>", raws)
    return raws[0]


_SCANNER_OPS = ("keep_scan", "last_scan", "token_scan")


def check_search(clsname, lines, queries):
    """One freshly created subclass with the scanners of `queries` registered, one parser over `lines`, read only after
    a second parser of the same class was built over an empty log (results live on the instance, not on the class).
    -> [(query index, violations, meta)]"""
    I = _imp()
    base = I[clsname]
    base_scanners = sorted(base.scanners)
    cls = type("C14Search", (base,), {})
    lazy = clsname == "LazyLogFileOutput"
    chk = {"all": all, "any": any}
    for i, q in enumerate(queries):
        if q["op"] == "keep_scan":
            cls.keep_scan("k%d" % i, q["s"], check=chk[q["check"]], num=q["num"], reverse=q["reverse"])
        elif q["op"] == "last_scan":
            cls.last_scan("k%d" % i, q["s"], check=chk[q["check"]])
        elif q["op"] == "token_scan":
            cls.token_scan("k%d" % i, q["s"], check=chk[q["check"]])
    orig = list(lines)
    out = []
    try:
        p = cls(I["make_context"](lines))
        other = cls(I["make_context"]([]))
        if lazy:
            # documented protocol: nothing is scanned until do_scan; one key, then all, then all again (each scanner once)
            first_key = next(("k%d" % i for i, q in enumerate(queries) if q["op"] in _SCANNER_OPS), None)
            if first_key is not None:
                p.do_scan(first_key)
            p.do_scan()
            p.do_scan()
            other.do_scan()
    except Exception as ex:
        return [(i, [("search:raises", "a parser object", "constructor raised %r" % (ex,), {"part": "search"})],
                 {"nt": False, "out": "search:raise"}) for i in range(len(queries))]
    for i, q in enumerate(queries):
        op = q["op"]
        feats = {"part": "search", "op": op, "cls": clsname}
        v = []
        try:
            if op == "get":
                got = [_raw(d) for d in p.get(q["s"], check=chk[q["check"]], num=q["num"], reverse=q["reverse"])]
                empty = other.get(q["s"], check=chk[q["check"]], num=q["num"], reverse=q["reverse"])
            elif op == "keep_scan":
                got = [_raw(d) for d in getattr(p, "k%d" % i)]
                empty = getattr(other, "k%d" % i)
            elif op == "last_scan":
                d = getattr(p, "k%d" % i)
                got = [_raw(d)] if d else []
                empty = getattr(other, "k%d" % i)
            elif op == "token_scan":
                got = getattr(p, "k%d" % i)
                empty = getattr(other, "k%d" % i)
            elif op == "contains":
                got = q["s"] in p
                empty = q["s"] in other
            else:
                raise ValueError(op)
        except Exception as ex:
            out.append((i, [("search:raises", "a result", repr(ex), feats)], {"nt": False, "out": "search:raise"}))
            continue
        full = M.search(orig, q["s"], q.get("check", "all"), None, False)
        if op in ("get", "keep_scan"):
            exp = M.search(orig, q["s"], q["check"], q["num"], q["reverse"])
            nt = 0 < len(full) < len(orig) or len(exp) < len(full)
        elif op == "last_scan":
            exp = full[-1:]
            nt = 0 < len(full) < len(orig) or len(full) > 1
        else:
            exp = bool(full)
            nt = 0 < len(full) < len(orig)
        if got != exp or (op in ("token_scan", "contains") and type(got) is not bool):
            v.append(("search:%s-returns-matching-lines-in-order" % op.replace("_", "-"), exp, got, feats))
        if empty:
            v.append(("search:empty-log-has-no-matches", "nothing found in a second parser over an empty log", repr(empty), feats))
        out.append((i, v, {"nt": nt, "out": "search:%s:%s" % (op, len(exp) if isinstance(exp, list) else exp)}))
    if p.lines != orig:
        out.append((0, [("search:lines-unchanged", orig, p.lines, {"part": "search"})], {"nt": False, "out": "search:mut"}))
    if sorted(base.scanners) != base_scanners:
        out.append((0, [("search:scanners-stay-on-the-subclass", base_scanners, sorted(base.scanners),
                         {"part": "search", "cls": clsname})], {"nt": False, "out": "search:leak"}))
        for k in list(base.scanners):
            if k not in base_scanners:
                del base.scanners[k]
    return out


def search_logs(first, maxlen):
    """All logs (tuples of SEARCH_LINES indices) whose first line is `first`; -1: the empty log.
    Length <= maxlen over the five base lines, length <= maxlen-1 over all eight lines (each log once)."""
    if first < 0:
        yield ()
        return
    nb = N_SEARCH_BASE
    if first < nb:
        for n in range(0, maxlen):
            for t in itertools.product(range(nb), repeat=n):
                yield (first,) + t
    for n in range(0, maxlen - 1):
        for t in itertools.product(range(len(SEARCH_LINES)), repeat=n):
            lg = (first,) + t
            if any(k >= nb for k in lg):
                yield lg


# =============================================================================================
# (d) time search
# =============================================================================================

MON = ["Jan", "Feb", "Mar", "Apr", "May", "Jun", "Jul", "Aug", "Sep", "Oct", "Nov", "Dec"]
F_A = "%Y-%m-%d %H:%M:%S"
F_B = "%y%m%d %H:%M:%S"
F_C = "%d/%b/%Y:%H:%M:%S"
F_S = "%b %d %H:%M:%S"
F_M = "%m/%d %H:%M:%S"
F_P = "%d/%m/%Y %I:%M:%S %p"          # 12-hour clock with AM/PM
F_F = "%Y-%m-%d %H:%M:%S.%f"          # fractional seconds
# name -> (base class, time_format or None to keep the class's own, formats used for rendering by symbol parity, have_year)
# have_year = True / False when all formats agree, "mixed" when some formats carry a year and some do not: then every line
# is judged by the format it is written in (fmt_has_year of its rendering format)
TIME_FORMATS = {
    "default": ("LogFileOutput", None, [F_A], True),
    "syslog": ("Syslog", None, ["S_"], False),          # day of month space padded, as syslog writes it
    "syslog0": ("Syslog", None, [F_S], False),          # zero padded
    "list": ("LogFileOutput", [F_A, F_B, F_C], [F_A, F_B, F_C], True),        # three formats: first / middle / last
    "dict": ("LogFileOutput", {"new": F_C, "old": F_B}, [F_C, F_B], True),
    "noyear_list": ("LogFileOutput", [F_S, F_M], [F_S, F_M], False),
    # further observation channels and format letters; enumerated one line shorter than the main kinds
    "lazy": ("LazyLogFileOutput", None, [F_A], True),
    "ampm": ("LogFileOutput", F_P, [F_P], True),
    "micro": ("LogFileOutput", F_F, [F_F], True),
    # a daemon that changed its stamp style: year-less and with-year formats in ONE parser, as list and as dict, the
    # year-less format first / last (symbol parity swaps with the order, so every symbol occurs in both styles), and
    # three formats with one / two year-less members
    "mixed_list": ("LogFileOutput", [F_S, F_A], [F_S, F_A], "mixed"),
    "mixed_dict": ("LogFileOutput", {"new": F_A, "old": F_S}, [F_A, F_S], "mixed"),
    "mixed3": ("LogFileOutput", [F_B, F_M, F_C], [F_B, F_M, F_C], "mixed"),
    "mixed3_dict": ("LogFileOutput", {"a": F_M, "b": F_A, "c": F_S}, [F_M, F_A, F_S], "mixed"),
}
MIXED_KINDS = ("mixed_list", "mixed_dict", "mixed3", "mixed3_dict")
TIME_FORMAT_NAMES = {"quick": ["default", "syslog", "syslog0", "list", "dict", "lazy", "ampm", "micro", "mixed_list", "mixed_dict"],
                     "thorough": ["default", "syslog", "syslog0", "list", "dict", "noyear_list", "lazy", "ampm", "micro"] + list(MIXED_KINDS)}
# kinds enumerated one line shorter than the main kinds
SHORT_KINDS = {"quick": ("lazy", "ampm", "micro") + MIXED_KINDS, "thorough": ("lazy", "ampm", "micro", "mixed3", "mixed3_dict")}


def fmt_has_year(f):
    return "%Y" in f or "%y" in f


def line_year_flags(fmt, log):
    """Per line of the log: is the format its stamp is rendered in one with a year?"""
    rf = TIME_FORMATS[fmt][2]
    return [fmt_has_year(rf[k % len(rf)]) for k in log]
QUERY_TIMES = {"quick": [[2021, 6, 15, 12, 0, 0], [2021, 1, 1, 0, 0, 0], [2021, 12, 31, 23, 59, 59], [2024, 1, 1, 0, 0, 0]],
               "thorough": [[2021, 6, 15, 12, 0, 0], [2021, 1, 1, 0, 0, 0], [2021, 12, 31, 23, 59, 59],
                            [2020, 12, 31, 23, 59, 59], [2024, 1, 1, 0, 0, 0]]}
LEAP_QUERY_TIMES = [[2024, 2, 29, 0, 0, 0], [2024, 2, 28, 23, 59, 59], [2024, 3, 1, 0, 0, 0]]
TIME_TERMS = [None, "xx", ["xx", "yy"]]
EMPTY_TERM_MAX_LINES = 3      # s="" (falsy, contained in every line) is added for logs up to this length
N_BASE = 9          # symbols 0..8 are the base alphabet, 9..10 the 330-day threshold pair


def render_stamp(fmt, st):
    Y, Mo, D, h, m, s = st
    hms = "%02d:%02d:%02d" % (h, m, s)
    if fmt == F_A:
        return "%04d-%02d-%02d %s" % (Y, Mo, D, hms)
    if fmt == F_B:
        return "%02d%02d%02d %s" % (Y % 100, Mo, D, hms)
    if fmt == F_C:
        return "%02d/%s/%04d:%s" % (D, MON[Mo - 1], Y, hms)
    if fmt == F_S:
        return "%s %02d %s" % (MON[Mo - 1], D, hms)
    if fmt == "S_":
        return "%s %2d %s" % (MON[Mo - 1], D, hms)
    if fmt == F_M:
        return "%02d/%02d %s" % (Mo, D, hms)
    if fmt == F_P:
        return "%02d/%02d/%04d %02d:%02d:%02d %s" % (D, Mo, Y, (h % 12) or 12, m, s, "AM" if h < 12 else "PM")
    if fmt == F_F:
        return "%04d-%02d-%02d %s.000000" % (Y, Mo, D, hms)
    raise ValueError(fmt)


def _tup(d):
    return (d.year, d.month, d.day, d.hour, d.minute, d.second)


@functools.lru_cache(None)
def time_alphabet(fmt, tq, symset):
    """-> (symbols, canonical indices). symbols[k] = (text, stamp tuple | None, terms string);
    canonical = first index of every distinct rendered text (so no log is enumerated twice)."""
    t = datetime.datetime(*tq)
    one = datetime.timedelta(seconds=1)
    if symset == "base":
        sign = 1 if t.month <= 6 else -1
        far = t + sign * M.ELEVEN_MONTHS
        spec = [(_tup(t - one), ""), (_tup(t), ""), (_tup(t + one), ""),
                ((t.year, 12, 31, 23, 59, 59), ""), ((t.year, 1, 1, 0, 0, 0), ""),
                (None, ""),
                (_tup(t - one), " xx"), (_tup(t), " xx yy"), (None, " xx"),
                (_tup(far), ""), (_tup(far + sign * one), "")]
    elif symset == "leap":
        spec = [((2024, 2, 28, 23, 59, 59), ""), ((2024, 2, 29, 0, 0, 0), ""), ((2024, 2, 29, 12, 0, 0), ""),
                ((2024, 3, 1, 0, 0, 0), ""), (None, "")]
    else:
        raise ValueError(symset)
    rf = TIME_FORMATS[fmt][2]
    syms = []
    for k, (st, terms) in enumerate(spec):
        if st is None:
            text = "    at continuation of the previous entry" + terms
        elif symset == "base" and k == 2:
            # the stamp is not at the start of the line (it is searched for, not matched at column 0)
            text = "<13>[" + render_stamp(rf[k % len(rf)], st) + "] host proc[1]: message" + terms
        else:
            text = render_stamp(rf[k % len(rf)], st) + " host proc[1]: message" + terms
        syms.append((text, st, terms))
    canon = []
    seen = set()
    for k, sy in enumerate(syms):
        if sy[0] not in seen:
            seen.add(sy[0])
            canon.append(k)
    return syms, canon


_TIME_CLS = {}


def _time_class(fmt):
    c = _TIME_CLS.get(fmt)
    if c is None:
        I = _imp()
        base, tf, _rf, _hy = TIME_FORMATS[fmt]
        body = {} if tf is None else {"time_format": tf}
        c = _TIME_CLS[fmt] = type("C14Time_%s" % fmt, (I[base],), body)
    return c


def check_time(fmt, tq, symset, log, s):
    I = _imp()
    syms, _canon = time_alphabet(fmt, tuple(tq), symset)
    lines = [syms[k] for k in log]
    have_year = TIME_FORMATS[fmt][3]
    t = datetime.datetime(*tq)
    mixed = have_year == "mixed"
    if mixed:
        hy = line_year_flags(fmt, log)

        def resolved(own_year_counts, reading):
            # every stamp replaced by the instant it stands for, so that the reference runs on plain dated lines
            return [(x, None if st is None else _tup(M.effective_stamp(st, t, h and own_year_counts, reading)), y)
                    for (x, st, y), h in zip(lines, hy)]
        r1 = resolved(True, "year")
        exp = M.time_after(r1, t, s, True, "year")
        if M.time_after_2(r1, t, s, True, "year") != exp:
            raise RuntimeError("C14 time references disagree on %r" % ((fmt, tq, symset, log, s),))
        # second accepted reading for lines written WITH a year (see ASSUMPTIONS): the parser as a whole is year-less
        exp_b = M.time_after(resolved(False, "year"), t, s, True, "year")
        alt = M.time_after(resolved(True, "365"), t, s, True, "year")
        accepted = [exp] if exp_b == exp else [exp, exp_b]
    else:
        hy = [have_year] * len(lines)
        exp = M.time_after(lines, t, s, have_year, "year")
        if M.time_after_2(lines, t, s, have_year, "year") != exp:
            raise RuntimeError("C14 time references disagree on %r" % ((fmt, tq, symset, log, s),))
        alt = M.time_after(lines, t, s, have_year, "365")
        accepted = [exp]
    leap_line = any(st is not None and st[1] == 2 and st[2] == 29 and not h for (_x, st, _y), h in zip(lines, hy))
    feats = {"part": "time", "fmt": fmt, "have_year": have_year, "leap_day_line": bool(leap_line)}
    v = []
    texts = [x[0] for x in lines]
    again = None
    try:
        p = _time_class(fmt)(I["make_context"](texts))
        got = [d.get("raw_message") if isinstance(d, dict) else repr(d) for d in p.get_after(t, s)]
        if len(lines) <= 3:
            # history on one long-lived object: an interleaved second search with other terms, then the same search again
            g1 = p.get_after(t, s)
            g2 = p.get_after(t, "xx" if s is None else None)
            again = []
            for d in g1:
                next(g2, None)
                again.append(d.get("raw_message") if isinstance(d, dict) else repr(d))
    except Exception as ex:
        got = None
        f = dict(feats, raised=type(ex).__name__)
        # one known family: a year-less format meets a 'Feb 29' stamp and strptime (default year 1900) refuses it;
        # a single format lets the ValueError out, a format list swallows it and trips over the unbound result
        if leap_line and ((type(ex) is ValueError and "day is out of range" in str(ex)) or
                          (type(ex) is UnboundLocalError and "'ts'" in str(ex))):
            f["family"] = "yearless-leap-day-strptime"
        v.append(("time:raises", exp, "raised %r" % (ex,), f))
    # The statement is the authority: "precisely the timestamped lines at or after the given time" means true calendar
    # dates, i.e. the adjacent-YEAR reading of the rollover note. (The first version also accepted the docstring's literal
    # "shift by 365 days", which is wrong in leap years; a seeded change implementing exactly that showed the leniency
    # was weaker than the statement. `alt` is kept only to measure how often the two readings differ.)
    if got is not None and got not in accepted:
        v.append(("time:lines-at-or-after-plus-continuations", exp if len(accepted) == 1 else {"either": accepted}, got, feats))
    elif got is not None and again is not None and again != got:
        v.append(("time:second-search-on-same-object", got, again, feats))
    if got is not None and p.lines != texts:
        v.append(("time:lines-unchanged", texts, p.lines, feats))
    # measured non-triviality
    usedh = [(x, h) for x, h in zip(lines, hy) if s is None or all(w in x[0] for w in ([s] if isinstance(s, str) else s))]
    used = [x for x, _h in usedh]
    flags = [M.effective_stamp(st, t, h) >= t for (_x, st, _y), h in usedh if st is not None]
    moved = any((not h) and M.effective_stamp(st, t, False).year != t.year for (_x, st, _y), h in usedh if st is not None)
    cont_after = any(used[i][1] is None and used[i - 1][1] is not None for i in range(1, len(used)))
    meta = {"nt": len(set(flags)) > 1 or moved or cont_after,
            "out": "time:%s:%d/%d" % (fmt, len(exp), len(lines)), "loose": alt != exp,
            "both_styles": mixed and len(set(h for (_x, st, _y), h in usedh if st is not None)) > 1,
            "readings_differ": len(accepted) > 1}
    return v, meta


def time_logs(canon, first, maxlen):
    """Logs whose first symbol is `first`: length <= maxlen over the base symbols, plus length <= maxlen-1
    over all symbols with at least one threshold symbol (index >= N_BASE). Canonical symbols only."""
    if first not in canon:
        return
    base = [k for k in canon if k < N_BASE]
    full = list(canon)
    if first < N_BASE:
        for n in range(0, maxlen):
            for t in itertools.product(base, repeat=n):
                yield (first,) + t
    for n in range(0, maxlen - 1):
        for t in itertools.product(full, repeat=n):
            lg = (first,) + t
            if any(k >= N_BASE for k in lg):
                yield lg


# =============================================================================================
# units / run / replay
# =============================================================================================

def units(tier, seed):
    us = [{"part": "refcheck"}]
    us += [{"part": "cmd", "first": i} for i in range(-1, len(cmd_alphabet()))]
    for kind in ("json", "yaml"):
        nd = 8 if tier == "quick" else 32
        us += [{"part": "doc", "kind": kind, "sub": "docs", "shard": i, "of": nd} for i in range(nd)]
        us += [{"part": "doc", "kind": kind, "sub": "scalars", "shard": 0, "of": 1},
               {"part": "doc", "kind": kind, "sub": "prefix", "shard": 0, "of": 1}]
        ng = 4 if tier == "quick" else 24
        us += [{"part": "doc", "kind": kind, "sub": "garbage", "shard": i, "of": ng} for i in range(ng)]
    for c in SEARCH_CLASSES:
        us += [{"part": "search", "cls": c, "first": i} for i in range(-1, len(SEARCH_LINES))]
    for f in TIME_FORMAT_NAMES[tier]:
        for tq in QUERY_TIMES[tier]:
            us += [{"part": "time", "fmt": f, "t": tq, "symset": "base", "first": a} for a in range(-1, 11)]
        for tq in LEAP_QUERY_TIMES:
            us.append({"part": "time", "fmt": f, "t": tq, "symset": "leap", "first": None})
    return us


def unit_weight(u):
    if u["part"] == "time":
        return 4 if u.get("first", 0) is not None and 0 <= u["first"] < N_BASE else 1
    if u["part"] == "cmd":
        return 3
    if u["part"] == "doc" and u["kind"] == "yaml":
        return 3
    return 2


def _viol(res, case, vs):
    for c, e, o, f in vs:
        res.violation(c, case, e, o, f)


def run_unit(unit, tier):
    res = Result()
    part = unit["part"]
    if part == "refcheck":
        return _refcheck(tier)

    if part == "cmd":
        alpha = [l for _t, l in cmd_alphabet()]
        if unit["first"] < 0:
            v, meta = check_cmd_none()
            res.evals += 1
            res.stat("cases_cmd")
            res.outcomes.add(meta["out"])
            if v:
                _viol(res, {"part": "cmd", "lines": None, "extra": None}, v)
        for idx in cmd_contents(unit["first"], tier):
            lines = [alpha[i] for i in idx]
            for extra in CMD_EXTRAS:
                v, meta = check_cmd(lines, extra)
                res.evals += 1
                res.stat("cases_cmd")
                if meta["nt"]:
                    res.nontrivial += 1
                res.outcomes.add(meta["out"])
                if v:
                    _viol(res, {"part": "cmd", "lines": lines, "extra": extra}, v)
        res.samples.append({"part": "cmd", "lines": [alpha[max(0, unit["first"])], alpha[9]], "extra": None})
        return res

    if part == "doc":
        kind = unit["kind"]
        for inp, ignore in doc_inputs(kind, unit["sub"], tier, unit["shard"], unit["of"]):
            real = materialise(inp)
            v, meta = check_doc(kind, real, ignore)
            res.evals += 1
            res.stat("cases_%s_%s" % (kind, unit["sub"]))
            if meta["nt"] or ignore:
                res.nontrivial += 1
            res.outcomes.add(meta["out"])
            if not meta["agree"]:
                res.stat("yaml_loaders_disagree_either_accepted")
            if v:
                case = {"part": "doc", "kind": kind, "input": inp}
                if ignore:
                    case["ignore"] = ignore
                _viol(res, case, v)
        res.samples.append({"part": "doc", "kind": kind, "input": ["noise line", "[0, {\"a\": null}]"] if kind == "json" else ["a:", "- 0"]})
        return res

    if part == "search":
        qs = search_queries(tier)
        maxlen = BOUNDS[tier]["search_lines"] - (1 if unit["cls"] == "LazyLogFileOutput" else 0)
        for lg in search_logs(unit["first"], maxlen):
            lines = [SEARCH_LINES[i] for i in lg]
            for qi, v, meta in check_search(unit["cls"], lines, qs):
                res.evals += 1
                res.stat("cases_search")
                if meta["nt"]:
                    res.nontrivial += 1
                res.outcomes.add(meta["out"])
                if v:
                    _viol(res, {"part": "search", "cls": unit["cls"], "lines": lines, "query": qs[qi]}, v)
        res.samples.append({"part": "search", "cls": unit["cls"], "lines": SEARCH_LINES[:3],
                            "query": {"op": "get", "s": ["alpha", "beta"], "check": "any", "num": 1, "reverse": True}})
        return res

    if part == "time":
        fmt, tq, symset = unit["fmt"], unit["t"], unit["symset"]
        _syms, canon = time_alphabet(fmt, tuple(tq), symset)
        if symset == "leap":
            logs = (lg for n in range(0, 4) for lg in itertools.product(canon, repeat=n))
            terms = [None]
        elif unit["first"] < 0:
            logs = [()]
            terms = TIME_TERMS
        else:
            logs = time_logs(canon, unit["first"], BOUNDS[tier]["time_lines"] - (1 if fmt in SHORT_KINDS[tier] else 0))
            terms = TIME_TERMS
        for lg in logs:
            if symset == "base" and len(lg) <= EMPTY_TERM_MAX_LINES:
                here = terms + [""]
            elif tier == "quick" and symset == "base":
                # quick: a search with terms only sees the term-bearing sub-log, and every such sub-log of <= 3 lines is
                # already enumerated above; the longest logs are searched without terms, and with the term when they
                # consist of term-bearing lines only (so that four kept lines occur too). thorough: all terms always.
                here = [None] + (["xx"] if all(_syms[k][2] for k in lg) else [])
            else:
                here = terms
            for s in here:
                v, meta = check_time(fmt, tq, symset, lg, s)
                res.evals += 1
                res.stat("cases_time_%s" % symset)
                if meta["nt"]:
                    res.nontrivial += 1
                res.outcomes.add(meta["out"])
                if meta["loose"]:
                    res.stat("time_rollover_365_reading_would_differ")
                if meta["both_styles"]:
                    res.stat("cases_time_log_has_yearless_and_with_year_stamps")
                if meta["readings_differ"]:
                    res.stat("time_mixed_explicit_year_reading_would_differ_either_accepted")
                if v:
                    _viol(res, {"part": "time", "fmt": fmt, "t": tq, "symset": symset, "log": list(lg), "s": s}, v)
        if symset == "base" and fmt not in SHORT_KINDS[tier]:
            res.maxi("time_log_lines_completed", BOUNDS[tier]["time_lines"])
        if symset == "base" and unit["first"] == 0:
            res.samples.append({"part": "time", "fmt": fmt, "t": tq, "symset": "base", "log": [0, 5, 2, 5], "s": None})
        return res
    raise ValueError(part)


def _refcheck(tier):
    """Keeps the oracle honest: every reference is compared with its second formulation, and every
    'well-formed document' really decodes to the value it was rendered from."""
    import yaml
    res = Result()
    alpha = [l for _t, l in cmd_alphabet()]
    n = 0
    for idx in itertools.chain([()], ((i,) for i in range(len(alpha))), itertools.product(range(len(alpha)), repeat=2)):
        lines = [alpha[i] for i in idx]
        for extra in CMD_EXTRAS:
            if isinstance(extra, str):
                continue
            n += 1
            if M.command_is_bad(lines, extra) != M.command_is_bad_2(lines, extra):
                raise RuntimeError("C14 command references disagree on %r %r" % (lines, extra))
    res.stat("ref_command_cross_checked", n)
    n = 0
    qs = [q for q in search_queries(tier) if q["op"] == "get"]
    for ln in range(0, 4):
        for lg in itertools.product(range(len(SEARCH_LINES)), repeat=ln):
            lines = [SEARCH_LINES[i] for i in lg]
            for q in qs:
                n += 1
                if M.search(lines, q["s"], q["check"], q["num"], q["reverse"]) != M.search_2(lines, q["s"], q["check"], q["num"], q["reverse"]):
                    raise RuntimeError("C14 search references disagree on %r %r" % (lines, q))
    res.stat("ref_search_cross_checked", n)
    n = 0
    for text in container_docs(tier):
        v = json.loads(text)
        for how in JSON_RENDERINGS:
            n += 1
            if not M.same(json.loads("\n".join(render(text, how))), v):
                raise RuntimeError("C14 rendering %s of %s is not the document" % (how, text))
        for how in ("spaced", "block", "indented"):
            n += 1
            if not M.same(yaml.load("\n".join(render(text, how)), Loader=yaml.SafeLoader), v):
                raise RuntimeError("C14 YAML rendering %s of %s is not the document" % (how, text))
    res.stat("ref_renderings_cross_checked", n)
    # rendered stamps parse back with strptime to the instant they were rendered from
    n = 0
    for fmt in TIME_FORMAT_NAMES[tier]:
        base, tf, rf, have_year = TIME_FORMATS[fmt]
        # vacuity guard: the kind is what its name says, and the class is configured with exactly the rendering formats
        kinds_of_year = set(fmt_has_year(f) for f in rf)
        if (kinds_of_year != {True, False}) if have_year == "mixed" else (kinds_of_year != {have_year}):
            raise RuntimeError("C14 time format kind %s: have_year %r does not describe %r" % (fmt, have_year, rf))
        if tf is not None:
            given = [tf] if isinstance(tf, str) else list(tf.values()) if isinstance(tf, dict) else list(tf)
            if sorted(given) != sorted(rf):
                raise RuntimeError("C14 time format kind %s renders %r but configures %r" % (fmt, rf, given))
        for tq in QUERY_TIMES[tier] + LEAP_QUERY_TIMES:
            for symset in ("base", "leap"):
                syms, _c = time_alphabet(fmt, tuple(tq), symset)
                for k, (text, st, _terms) in enumerate(syms):
                    if st is None:
                        continue
                    f = rf[k % len(rf)]
                    f = F_S if f == "S_" else f
                    stamp_text = text[:text.index(" host")]
                    if stamp_text.startswith("<13>["):
                        stamp_text = stamp_text[5:-1]
                    if fmt_has_year(f):
                        back = datetime.datetime.strptime(stamp_text, f)
                        ok = _tup(back) == tuple(st)
                    else:
                        back = datetime.datetime.strptime("2024 " + stamp_text, "%Y " + f)
                        ok = _tup(back)[1:] == tuple(st)[1:]
                    n += 1
                    if not ok:
                        raise RuntimeError("C14 stamp rendering %r does not parse back to %r" % (text, st))
    res.stat("ref_stamps_cross_checked", n)
    res.evals = 0
    return res


def replay(case):
    part = case["part"]
    if part == "cmd":
        v, _m = check_cmd_none() if case["lines"] is None else check_cmd(list(case["lines"]), case.get("extra"))
    elif part == "doc":
        v, _m = check_doc(case["kind"], materialise(case["input"]), case.get("ignore"))
    elif part == "search":
        v = []
        for _i, vs, _m in check_search(case["cls"], list(case["lines"]), [case["query"]]):
            v += vs
    elif part == "time":
        v, _m = check_time(case["fmt"], case["t"], case["symset"], case["log"], case["s"])
    else:
        raise ValueError(part)
    return [{"clause": c, "case": case, "expected": e, "observed": o, "features": f} for c, e, o, f in v]


TECHNIQUE = ("bounded exhaustive enumeration of parser inputs (command outputs, JSON/YAML documents and non-documents, logs x "
             "queries) executed against the real base parser classes and compared with small reference models")
LEVEL_TEXT = ("Every content of <= 3 lines over a line alphabet with one symbol per phrase x letter case x position, every "
              "mapping/sequence value to depth 2 in 4 renderings with 0-2 noise lines, every proper prefix of three documents, every "
              "token string up to 3/4 tokens, every log of <= 4/5 lines x every query (terms, all/any, limit, direction; time x terms x "
              "format kind incl. format lists and dicts that mix year-less formats with formats that have a year) is run through the real classes; the outcome is compared with the documented rule. No sampling: the "
              "statement is 'no counterexample within the bound'.")
LEVEL_NOTE = ("Trusted: json.loads / yaml safe loaders as decoders, the reference models in ref/c14_models.py (each cross-checked against "
              "a second formulation on every run); lenient outcomes are accepted where the documentation is loose (listed in ASSUMPTIONS).")
