"""C04 - evaluation results do not depend on scheduling.

Four schedule dimensions, each enumerated completely within its bound, all compared with the
single-pass reference result computed in the interpreter's main thread:

  order   every linear extension of the dependency order, forced through run_components
  hash    every engine tie-break (forced-hash permutations) through dr.run, run_incremental and
          run_all(pool=None), plus the partition produced by get_subgraphs
  pool    run_all(graph, broker, pool) with a controlled pool under the deterministic thread
          scheduler (mc/sched.py): every interleaving with <= k preemptions at line granularity
          inside the engine functions that touch shared state, pool sizes 1..3, own / shared broker
  seed    the same fixed cases in child interpreters under real PYTHONHASHSEED values
  history (one process, fresh components per case) a first split / evaluation of the graph, then the dependency relation
          is changed through the public registry API without changing the key set (dr.add_dependency between two
          components of different sub-graphs, optionally dr.set_enabled), then every serial driver under forced hashes
          and both key orders, the partition of get_subgraphs, and the pooled driver under the scheduler - all compared
          with the single pass over components that got the same registry changes but were never evaluated before
"""
import itertools
import json
import os
import subprocess
import sys

from mc.result import Result
from mc import enumx

ID = "C04"
LEVEL = "model_checking"
TECHNIQUE = ("stateless model checking of the real engine: all linear extensions (run_components), all engine tie-breaks (forced-hash "
             "permutations), and all thread interleavings of the pooled driver up to a preemption bound under a deterministic scheduler "
             "(sys.settrace line points + baton hand-off); every schedule's final broker compared with the single-pass reference")
LEVEL_TEXT = ("For disjoint unions of 2-3 connected sub-graphs (<= 5 nodes quick / 6 thorough; plain components and context-bound "
              "datasources; <= 1-2 outcome deviations) the final broker (values, recorded failures, missing-dependency reports) and the "
              "invocation counts are shown identical for every linear extension, every engine tie-break in the single-pass / incremental "
              "drivers, every get_subgraphs partition (no loss, no duplicate, dependency-closed), every pooled interleaving with <= 1 preemption "
              "(thorough: <= 2 for the three smallest families) for pool sizes 1-3 with own or shared broker, the evaluator's pooled "
              "driver, and real hash seeds 0..15 / 0..63. Histories in one process (6 quick / 9 thorough families of 2-3 sub-graphs, "
              "<= 4 nodes, plain at-least-one consumers and registry points): after a first step in {nothing, get_subgraphs, run, "
              "run_incremental, run_all} and every single (thorough: every acyclic pair incl. set_enabled) dr.add_dependency between "
              "components of different sub-graphs, all three serial drivers (forced hashes: all, quick 4-node families identity/reversed; both "
              "key orders) and the pooled driver (<= 1 preemption) give the history-free single-pass result, and get_subgraphs "
              "partitions the CURRENT graph (no loss, no duplicate, closed under the current dependencies).")
LEVEL_NOTE = ("Scheduling points are Python line events in the engine functions of dr.py / plugins.py / evaluators.py that touch per-run state, "
              "every BYTECODE of the Broker methods / get_missing_dependencies / is_enabled (the accessors of shared state, where CPython can "
              "switch threads inside one source line), plus harness body / observer events; code between two points is atomic (GIL). Read-only registry helpers are not points; the registries are "
              "checked unchanged around every pooled run. Preemption-bounded, not all interleavings. The hash-seed sweep is a bounded sample; "
              "the forced-hash enumeration is what covers 'every order'.")
RULE = ("graph family x deviations x schedule dimension; states = distinct (case, schedule-prefix) nodes visited, transitions = scheduling "
        "choices / component turns executed, traces = complete executions of the real engine; non-trivial = the case has >= 2 sub-graphs or "
        ">= 2 independent components AND >= 2 distinct schedules were actually executed for it; history part: history family x first "
        "step x registry change set x deviations, each (driver, forced hash, key order) executed from fresh components")
ASSUMPTIONS = ["GIL: no interleaving inside one bytecode line", "deterministic component bodies",
               "scheduler granularity and preemption bound as stated"]
BOUNDS = {"quick": {"max_nodes": 5, "max_dev": 1, "preemptions": 1, "pool_sizes": [1, 2, 3], "seeds": 16,
                    "history": {"families": 6, "first_steps": 5, "registry_changes": 1, "max_dev": 1, "forced_hashes": "all for 3 nodes; identity, reversed for 4",
                                "pooled": "3 families, first step get_subgraphs, pool size 2, shared broker, all values or the first "
                                          "component of the dependent's old sub-graph skipped, <= 1 preemption (3-node families; one task "
                                          "after the change) / 0 preemptions (any|one|one: two tasks, every non-preemptive order)"}},
          "thorough": {"max_nodes": 6, "max_dev": 2, "preemptions": "1 everywhere; 2 for [one,one], [chain2,one], [join,one] at pool size 2",
                       "pool_sizes": [1, 2, 3], "seeds": 64,
                       "history": {"families": 9, "first_steps": 5, "registry_changes": 2, "max_dev": "2 with one registry change, 1 with two",
                                   "forced_hashes": "all with one registry change; identity, reversed with two",
                                   "pooled": "9 families, first step get_subgraphs / run_all, pool sizes 1-3, own and shared broker, "
                                             "1 registry change, all values or the first component of the dependent's old sub-graph "
                                             "skipped / failing, <= 1 preemption"}}}
CAP_S = {"quick": 200, "thorough": 7200}

# connected sub-graph shapes over local indices
SUB = {
    "one": [{"decl": []}],
    "chain2": [{"decl": []}, {"decl": [0]}],
    "chain3": [{"decl": []}, {"decl": [0]}, {"decl": [1]}],
    "fork": [{"decl": []}, {"decl": [0]}, {"decl": [0]}],
    "join": [{"decl": []}, {"decl": []}, {"decl": [0, [1]]}],
    "opt": [{"decl": []}, {"decl": [], "opt": [0]}],
}
ALTS = ["none", "skip", "error", "disabled", "seed"]


def shift(nd, off, t="plain", ctx=None):
    def sh(it):
        return [j + off for j in it] if isinstance(it, list) else it + off
    out = {"t": t, "decl": [sh(it) for it in nd.get("decl", [])], "out": "value"}
    if nd.get("opt"):
        out["opt"] = [j + off for j in nd["opt"]]
    if ctx and t == "datasource":
        out["ctx"] = ctx
    return out


def compose(names, t="plain", ctx=None):
    nodes, comps = [], []
    for nm in names:
        off = len(nodes)
        sub = SUB[nm]
        comps.append(list(range(off, off + len(sub))))
        nodes.extend(shift(nd, off, t, ctx) for nd in sub)
    return nodes, comps


def families(max_nodes):
    names = sorted(SUB)
    out = []
    for k in (2, 3):
        for combo in itertools.combinations_with_replacement(names, k):
            n = sum(len(SUB[c]) for c in combo)
            if n <= max_nodes:
                out.append(list(combo))
    return out


def apply_devs(nodes, devs):
    out = [dict(nd) for nd in nodes]
    for i, d in enumerate(devs):
        if d == "disabled":
            out[i]["en"] = False
        elif d == "seed":
            out[i]["seed"] = True
        elif d != "value":
            out[i]["out"] = d
    return out


def typed_shapes():
    """Graphs with registry points, implementations, datasources built on specs, parsers and consumers (the shapes
    of the C03 fault enumeration plus two spec-consumer chains): recorded failures are attributed through
    get_registry_points, so the attribution must not depend on the driver or on the order of evaluation either."""
    from props import c03
    out = dict((k, v) for k, v in c03.SHAPES().items() if len(v) <= 5)
    ds = lambda **k: dict({"t": "datasource", "decl": []}, **k)
    out["rp-ds-consumer"] = [ds(), {"t": "rp", "impl": [0]}, {"t": "datasource", "decl": [1]}, {"t": "combiner", "decl": [2]}]
    out["rp-ds-consumer2"] = [ds(), {"t": "rp", "impl": [0]}, {"t": "datasource", "decl": [1]}, {"t": "plain", "decl": [2]},
                              {"t": "rule", "decl": [3]}]
    return out


def units(tier, seed):
    b = BOUNDS[tier]
    fams = families(b["max_nodes"])
    us = [{"part": "selftest"}]
    for name in sorted(typed_shapes()):
        us.append({"part": "typed", "shape": name})
    # filtered graphs: two otherwise unconnected sub-graphs whose dependency sets mention a component that is not a key
    for size in (1, 2):
        for shared in (True, False):
            us.append({"part": "pool-outside", "size": size, "shared": shared})
    for f in fams:
        us.append({"part": "order+hash", "family": f, "t": "plain"})
    for f in fams[:8]:
        us.append({"part": "order+hash", "family": f, "t": "datasource", "ctx": "host"})
    pool_fams = [f for f in fams if sum(len(SUB[c]) for c in f) <= (4 if tier == "quick" else 5)]
    for f in pool_fams:
        n = sum(len(SUB[c]) for c in f)
        for size in b["pool_sizes"]:
            if tier == "quick" and n >= 4 and size != 2:
                continue            # quick: pool sizes 1 and 3 for the <= 3-node families only
            for shared in (False, True):
                if tier == "quick" and n >= 4 and not shared and f != ["join", "one"]:
                    continue        # quick: 4-node families with the shared broker (the racier configuration)
                us.append({"part": "pool", "family": f, "t": "plain", "size": size, "shared": shared})
    for f in ((["one", "one"], ["chain2", "one"]) if tier == "quick" else (["one", "one"], ["chain2", "one"], ["one", "one", "one"])):
        for ctx in ("host", "archive", None):
            for shared in (False, True):
                us.append({"part": "pool", "family": f, "t": "datasource", "ctx": ctx, "size": 2, "shared": shared})
    us = _expand_pool_units(us, tier)
    us.extend(history_units(tier))
    for k, nodes in enumerate(evaluator_cases()):
        if tier == "quick" and len(nodes) > 4:
            continue            # three sub-graphs cost ~2 000 schedules per case: thorough only
        us.append({"part": "evaluator", "index": k, "size": 2})
    for k in range(4):
        us.append({"part": "seed", "chunk": k, "of": 4})
    return us


def _pool_devs(unit, tier):
    """[(bound, deviation vector)] of one pool configuration."""
    nodes, comps = compose(unit["family"], unit["t"], unit.get("ctx"))
    n = len(nodes)
    alts = ["skip", "error", "seed"] if unit["t"] == "plain" else ["error", "cpe"]
    if tier == "quick" and unit["t"] == "plain":
        alts = ["error", "seed"]
    maxdev = 1 if tier == "quick" else (1 if n >= 4 else 2)
    if unit["size"] != 2 or (unit["t"] == "datasource" and tier == "quick"):
        maxdev = 0
    if tier == "quick" and not (unit["shared"] and unit["family"] in (["one", "one"], ["chain2", "one"], ["join", "one"])):
        maxdev = 0              # quick: outcome deviations on three representative families with a shared broker
    out = []
    for devs in enumx.deviations(["value"] * n, [alts] * n, maxdev):
        if not unit["shared"] and "seed" in devs:
            continue            # run_all creates the brokers itself when none is passed: nothing can be pre-seeded
        out.append((1, devs))
    # bound 2 costs 10^4-10^5 schedules per case at bytecode granularity: completed for the two smallest families
    if tier == "thorough" and unit["size"] == 2 and unit["t"] == "plain" and unit["family"] in (["one", "one"], ["chain2", "one"], ["join", "one"]):
        out.append((2, ["value"] * n))
    return out


def _expand_pool_units(us, tier):
    out = []
    for u in us:
        if u["part"] != "pool":
            out.append(u)
            continue
        for bound, devs in _pool_devs(u, tier):
            v = dict(u)
            v["devs"] = devs
            v["bound"] = bound
            out.append(v)
    return out


def unit_weight(u):
    if u["part"] == "pool":
        return (3000 if u.get("bound") == 2 else 10) + sum(len(SUB[c]) for c in u["family"])
    if u["part"] == "history-pool":
        return 10 + len(HIST_FAMILIES[u["family"]][0])
    if u["part"] == "history":
        return 2000         # a fraction of a second each: run first, so a wall-clock cap on a loaded machine never drops the dimension
    if u["part"] in ("typed", "order+hash"):
        return 1500         # the broad serial dimensions next (same reason): when the cap hits, what is dropped is the tail of
                            # the pooled explorations, not a whole dimension (the long bound-2 units of thorough still start first)
    return 1


# ---- canonical broker --------------------------------------------------------------------------

def canon_broker(g, brokers):
    """Structural result of an evaluation (one broker or the brokers of all sub-graphs)."""
    from harness import graphs as G
    inst, exc, miss = {}, {}, {}
    dup = []
    seen_b = []
    for b in brokers:
        if any(b is x for x in seen_b):
            continue
        seen_b.append(b)
        for c, v in b.instances.items():
            i = g.index(c)
            if i is None:
                continue
            key = "n%d" % i
            cv = G.canon_value(v)
            if key in inst and inst[key] != cv:
                dup.append(key)
            inst[key] = cv
        for c, lst in b.exceptions.items():
            i = g.index(c)
            key = "n%d" % i if i is not None else "foreign:%s" % getattr(c, "__name__", "?")
            exc.setdefault(key, [])
            exc[key].extend(sorted("%s:%s" % (type(e).__name__, _msg(e)) for e in lst))
        for c, m in b.missing_requirements.items():
            i = g.index(c)
            key = "n%d" % i if i is not None else "foreign"
            miss[key] = [[_nm(g, x) for x in m[0]], [[_nm(g, y) for y in x] for x in m[1]]]
    for k in exc:
        exc[k].sort()
    return {"instances": inst, "exceptions": exc, "missing": miss, "conflicting": sorted(dup)}


def _msg(e):
    s = str(e)
    return s.split("_n")[-1] if "_n" in s else s      # component names carry a per-build tag


def _nm(g, c):
    i = g.index(c)
    return "n%d" % i if i is not None else getattr(c, "__name__", repr(c))


def invocations(g):
    out = {}
    for ev in g.log:
        if ev[0] == "invoke":
            out["n%d" % ev[1]] = out.get("n%d" % ev[1], 0) + 1
    return out


def make_broker(g, case, observers=True):
    from insights.core.context import HostContext, HostArchiveContext
    extra = {}
    if case.get("ctx") == "host":
        extra[HostContext] = HostContext()
    elif case.get("ctx") == "archive":
        extra[HostArchiveContext] = HostArchiveContext()
    return g.make_broker(extra=extra, observers=observers)


def eval_graph(g, case):
    """The graph handed to the drivers: every node with its declared dependencies; `drop_keys` removes KEYS (a filtered
    graph whose dependency sets still mention components that do not take part - those must not be evaluated by anyone)."""
    graph = g.explicit_graph()
    for i in case.get("drop_keys") or []:
        graph.pop(g.nodes[i], None)
    return graph


def reference(case):
    """Single pass, default order, in the calling (main) thread."""
    from insights.core import dr
    from harness import graphs as G
    g = G.Graph({"nodes": case["nodes"]}, name_tag="g")
    try:
        b = make_broker(g, case)
        # a history case: the registry changes of the history are made on fresh components, with NO evaluation before them
        apply_mutations(g, (case.get("history") or {}).get("mut") or [])
        dr.run(eval_graph(g, case), b)
        return canon_broker(g, [b]), invocations(g)
    finally:
        g.cleanup()


# ---- dimension 5: histories in one process ----------------------------------------------------------
#
# The statement quantifies over graphs and schedules, not over what the process did before: an evaluation must give
# the single-pass result of the graph AS IT IS NOW, whatever was split / evaluated earlier in the same interpreter.
# A history = (first step on the graph) ; (registry changes through the public API: dr.add_dependency between two
# existing components of different sub-graphs - what loading a further SpecSet sub-class does -, dr.set_enabled) ;
# (evaluation of the same key set by every driver).  Reference: single pass over fresh components that received the
# same registry changes and were never split or evaluated before.

def _hl(t="plain"):
    return {"t": t, "decl": [], "out": "value"}


def _hany(*grp):
    return {"t": "plain", "decl": [list(grp)], "out": "value"}       # one at-least-one group: what add_dependency extends


def _hreq(i):
    return {"t": "plain", "decl": [i], "out": "value"}


def _hrp(*impl):
    return {"t": "rp", "impl": list(impl)}


# name -> (nodes in topological index order, sub-graph number of every node)
HIST_FAMILIES = {
    "any|one": ([_hl(), _hany(0), _hl()], [0, 0, 1]),
    "one|any": ([_hl(), _hl(), _hany(1)], [0, 1, 1]),
    "rp|ds": ([_hl("datasource"), _hrp(0), _hl("datasource")], [0, 0, 1]),
    "ds|rp": ([_hl("datasource"), _hl("datasource"), _hrp(1)], [0, 1, 1]),
    "any|chain2": ([_hl(), _hany(0), _hl(), _hreq(2)], [0, 0, 1, 1]),
    "any|any": ([_hl(), _hany(0), _hl(), _hany(2)], [0, 0, 1, 1]),
    "rp|rp": ([_hl("datasource"), _hrp(0), _hl("datasource"), _hrp(2)], [0, 0, 1, 1]),
    "any|one|one": ([_hl(), _hany(0), _hl(), _hl()], [0, 0, 1, 2]),
    "chain-any|one": ([_hl(), _hany(0), _hreq(1), _hl()], [0, 0, 0, 1]),
}
HIST_QUICK = ["any|one", "one|any", "rp|ds", "ds|rp", "any|chain2", "any|one|one"]
HIST_FIRST = ["none", "split", "run", "incremental", "run_all"]


def _has_group(nd):
    return nd["t"] == "rp" or any(isinstance(it, list) for it in nd.get("decl", []))


def _model_deps(nodes, muts):
    from harness import graphs as G
    deps = [set(G.all_deps(nd)) for nd in nodes]
    for m in muts:
        if m[0] == "adddep":
            deps[m[1]].add(m[2])
    return deps


def _acyclic(deps):
    left = dict((i, set(d)) for i, d in enumerate(deps))
    while left:
        free = [i for i, d in left.items() if not d]
        if not free:
            return False
        for i in free:
            del left[i]
        for d in left.values():
            d.difference_update(free)
    return True


def hist_mutations(name, max_mut):
    """Every set of <= max_mut registry changes: a dependency added between two components of DIFFERENT sub-graphs
    (the dependent has an at-least-one group / is a registry point), or one component disabled; the dependency
    relation stays acyclic."""
    nodes, member = HIST_FAMILIES[name]
    n = len(nodes)
    atoms = [["adddep", i, j] for i in range(n) for j in range(n)
             if _has_group(nodes[i]) and member[i] != member[j]]
    atoms += [["disable", i] for i in range(n) if nodes[i]["t"] != "rp"]
    out = []
    for k in range(1, max_mut + 1):
        for combo in itertools.combinations(atoms, k):
            if sum(1 for m in combo if m[0] == "adddep") == 0:
                continue            # the history dimension is about the dependency relation changing under a known key set
            if _acyclic(_model_deps(nodes, combo)):
                out.append([list(m) for m in combo])
    return out


def apply_mutations(g, muts):
    from insights.core import dr
    for m in muts:
        if m[0] == "adddep":
            dr.add_dependency(g.nodes[m[1]], g.nodes[m[2]])
        elif m[0] == "disable":
            dr.set_enabled(g.nodes[m[1]], False)
        else:
            raise ValueError(m)


def _keyed(graph, korder):
    return dict(reversed(list(graph.items()))) if korder else graph


def first_step(g, case, kind, korder=0):
    """What the process did with the graph before the registry changed (fresh brokers; the log is cleared afterwards)."""
    from insights.core import dr
    if kind != "none":
        graph = _keyed(eval_graph(g, case), korder)
        if kind == "split":
            list(dr.get_subgraphs(graph))
        elif kind == "run":
            dr.run(graph, make_broker(g, case))
        elif kind == "incremental":
            list(dr.run_incremental(graph, make_broker(g, case)))
        elif kind == "run_all":
            dr.run_all(graph, make_broker(g, case), None)
        else:
            raise ValueError(kind)
    del g.log[:]
    del g.raised[:]


def play_history(g, case, korder=0):
    hist = case.get("history")
    if hist:
        first_step(g, case, hist["first"], korder)
        apply_mutations(g, hist["mut"])


def hist_perms(n, which):
    if which == "all":
        return [list(p) for p in itertools.permutations(range(n))]
    return [list(range(n)), list(range(n - 1, -1, -1))]


def check_history(case, res=None):
    """first step ; registry changes ; then every serial driver under forced hashes and both key orders of the graph
    dict: result == history-free single pass, and the partition of get_subgraphs is one of the CURRENT graph."""
    from insights.core import dr
    from harness import graphs as G
    nodes = case["nodes"]
    n = len(nodes)
    hist = case["history"]
    ref, ref_inv = reference(case)
    deps = _model_deps(nodes, hist["mut"])
    vio = []
    outcomes = set()
    prefixes = set()
    nexec = 0
    only = case.get("schedule")
    combos = [(only[1], only[2], only[3])] if only else [(drv, perm, ko) for perm in hist_perms(n, case.get("perms", "ends"))
                                                          for ko in (0, 1) for drv in ("run", "incremental", "run_all", "subgraphs")]
    for drv, perm, ko in combos:
        g = G.Graph({"nodes": nodes}, hashes=perm, name_tag="g")
        try:
            play_history(g, case, ko)
            graph = _keyed(eval_graph(g, case), ko)
            sched = ["hist", drv, list(perm), ko]
            if drv == "subgraphs":
                subs = [[g.index(c) for c in s] for s in dr.get_subgraphs(graph)]
                nexec += 1
                prefixes.add(("p", ko) + tuple(perm))
                flat = sorted(i for s in subs for i in s)
                if flat != list(range(n)):
                    vio.append(("history:partition-no-loss-no-duplicate", list(range(n)), {"subgraphs": subs}, sched))
                for s in subs:
                    for i in s:
                        for d in deps[i]:
                            if d not in s and len(vio) < 6:
                                vio.append(("history:partition-sub-graph-closed-under-current-dependencies",
                                            {"node": i, "dep_in_same_subgraph": d}, {"subgraphs": [sorted(t) for t in subs]}, sched))
                continue
            b = make_broker(g, case)
            if drv == "run":
                brokers = [dr.run(graph, b)]
            elif drv == "incremental":
                brokers = list(dr.run_incremental(graph, b))
            else:
                brokers = dr.run_all(graph, b, None)
            got, inv = canon_broker(g, brokers), invocations(g)
            turns = tuple(ev[1] for ev in g.log if ev[0] == "turn")
        finally:
            g.cleanup()
        nexec += 1
        for k in range(1, len(turns) + 1):
            prefixes.add(("h", drv, ko) + turns[:k])
        outcomes.add(json.dumps(got, sort_keys=True))
        if (got != ref or inv != ref_inv) and len(vio) < 6:
            vio.append(("history:earlier-evaluation-changes-result", {"result": ref, "invocations": ref_inv},
                        {"result": got, "invocations": inv}, sched))
    if res is not None:
        res.traces += nexec
        res.states += len(prefixes)
        res.transitions += nexec * n
        res.outcomes.add("href:values=%d:failures=%d:missing=%d" % (len(ref["instances"]), len(ref["exceptions"]), len(ref["missing"])))
    return vio, nexec, len(outcomes)


def history_units(tier):
    quick = tier == "quick"
    us = []
    for name in (HIST_QUICK if quick else sorted(HIST_FAMILIES)):
        for first in HIST_FIRST:
            us.append({"part": "history", "family": name, "first": first})
    # pooled evaluation after a history: preemption bound 1 (quick: two families, the dependent's old sub-graph
    # dispatched first / last; thorough: every family, pool sizes 1-3, own and shared broker)
    for name in (["any|one", "one|any", "any|one|one"] if quick else sorted(HIST_FAMILIES)):
        for first in (["split"] if quick else ["split", "run_all"]):
            for size in ([2] if quick else [1, 2, 3]):
                for shared in ([True] if quick else [False, True]):
                    # quick: the family that still has two sub-graphs after the change without preemptions (every
                    # dispatch / completion order of the tasks), the others (one task) with <= 1 preemption
                    us.append({"part": "history-pool", "family": name, "first": first, "size": size, "shared": shared,
                               "bound": 0 if quick and len(HIST_FAMILIES[name][0]) > 3 else 1})
    return us


# ---- dimension 1 + 2 -------------------------------------------------------------------------------

def check_order_hash(case, res=None):
    """All linear extensions through run_components and all hash permutations through the three
    serial drivers; every result must equal the reference."""
    from insights.core import dr
    from harness import graphs as G
    nodes = case["nodes"]
    n = len(nodes)
    vio = []
    ref, ref_inv = reference(case)
    # reference evaluator agreement (plain family only: it knows nothing about contexts)
    if not case.get("ctx"):
        names = ["x"] * n
        R = G.ref_eval({"nodes": nodes}, names)
        exp_present = sorted("n%d" % i for i, r in enumerate(R) if r.present)
        if sorted(ref["instances"]) != exp_present:
            vio.append(("reference:single-pass-agrees-with-model", exp_present, sorted(ref["instances"]), None))
    preds = [set(G.all_deps(nd)) for nd in nodes]
    outcomes = set()
    nexec = 0
    prefixes = set()
    # 1. linear extensions
    only = case.get("schedule")
    if only is None or only[0] == "order":
        orders = [only[1]] if only else enumx.linear_extensions(n, preds)
        for order in orders:
            g = G.Graph({"nodes": nodes}, name_tag="g")
            try:
                b = make_broker(g, case)
                graph = g.explicit_graph()
                dr.run_components([g.nodes[i] for i in order], graph, b)
                got, inv = canon_broker(g, [b]), invocations(g)
            finally:
                g.cleanup()
            nexec += 1
            for k in range(1, n + 1):
                prefixes.add(("o",) + tuple(order[:k]))
            outcomes.add(json.dumps(got, sort_keys=True))
            if got != ref or inv != ref_inv:
                vio.append(("order:linear-extension-changes-result", {"result": ref, "invocations": ref_inv},
                            {"result": got, "invocations": inv}, ["order", list(order)]))
    # 2. engine tie-breaks
    if only is None or only[0] == "hash":
        perms = [only[2]] if only else itertools.permutations(range(n))
        drivers = [only[1]] if only else ["run", "incremental", "run_all", "subgraphs"]
        for perm in perms:
            for drv in drivers:
                g = G.Graph({"nodes": nodes}, hashes=perm, name_tag="g")
                try:
                    graph = g.explicit_graph()
                    if drv == "subgraphs":
                        subs = list(dr.get_subgraphs(graph))
                        flat = [g.index(c) for s in subs for c in s]
                        nexec += 1
                        if sorted(flat) != list(range(n)):
                            vio.append(("partition:no-loss-no-duplicate", list(range(n)), sorted(flat), ["hash", drv, list(perm)]))
                        for s in subs:
                            for c in s:
                                for d in G.all_deps(nodes[g.index(c)]):
                                    if g.nodes[d] not in s:
                                        vio.append(("partition:sub-graph-closed-under-dependency", {"node": g.index(c), "dep_in_same_subgraph": d},
                                                    {"subgraphs": [sorted(g.index(x) for x in t) for t in subs]}, ["hash", drv, list(perm)]))
                        prefixes.add(("p", drv) + tuple(perm))
                        continue
                    b = make_broker(g, case)
                    if drv == "run":
                        brokers = [dr.run(graph, b)]
                    elif drv == "incremental":
                        brokers = list(dr.run_incremental(graph, b))
                    else:
                        brokers = dr.run_all(graph, b, None)
                    got, inv = canon_broker(g, brokers), invocations(g)
                    turns = tuple(ev[1] for ev in g.log if ev[0] == "turn")
                finally:
                    g.cleanup()
                nexec += 1
                for k in range(1, len(turns) + 1):
                    prefixes.add(("h", drv) + turns[:k])
                outcomes.add(json.dumps(got, sort_keys=True))
                if got != ref or inv != ref_inv:
                    vio.append(("hash:engine-tie-break-changes-result", {"result": ref, "invocations": ref_inv},
                                {"result": got, "invocations": inv}, ["hash", drv, list(perm)]))
    if res is not None:
        res.traces += nexec
        res.states += len(prefixes)
        res.transitions += nexec * n
        res.outcomes.add("ref:values=%d:failures=%d:missing=%d" % (len(ref["instances"]), len(ref["exceptions"]), len(ref["missing"])))
    return vio, nexec, len(outcomes)


# ---- dimension 3: pooled interleavings ---------------------------------------------------------------

_TARGETS = None
_SKIP_FUNCS = {"get_name", "get_simple_name", "get_module_name", "get_base_module_name", "get_component_type",
               "get_delegate", "get_dependencies", "get_dependents", "get_registry_points", "is_registry_point",
               "is_datasource", "hashable", "determine_components", "_determine_components", "get_dependency_graph",
               "walk_dependencies", "walk_tree", "visit", "visitor", "run_order", "get_subgraphs", "stringify_requirements",
               "get_metadata", "get_tags", "get_links", "get_group", "get_components_of_type", "get_component",
               "_get_component", "_import_component", "get_dependency_specs", "add_dependent", "first_of", "<lambda>",
               "<listcomp>", "<genexpr>", "<dictcomp>", "<setcomp>", "get_simple_module_name"}


def target_codes():
    """Code objects of every function of dr.py and plugins.py except read-only registry helpers
    (found by walking the modules, so functions added by a change are points as well)."""
    global _TARGETS
    if _TARGETS is None:
        import types
        from insights.core import dr, plugins, evaluators
        codes = set()

        def walk_code(co, fname):
            if co.co_filename != fname:
                return
            if co.co_name not in _SKIP_FUNCS:
                codes.add(co)
            for c in co.co_consts:
                if isinstance(c, types.CodeType):
                    walk_code(c, fname)
        for mod in (dr, plugins, evaluators):
            fname = mod.__file__
            with open(fname) as fh:
                top = compile(fh.read(), fname, "exec")
            # the compiled module's nested code objects are equal (==) to the live ones, and code
            # objects hash/compare by value, so the set matches the frames of the imported module
            for c in top.co_consts:
                if isinstance(c, types.CodeType):
                    walk_code(c, fname)
        _TARGETS = codes
    return _TARGETS


_OP_TARGETS = None


def opcode_codes():
    """Bytecode-granularity points: every method of Broker plus the functions that read the broker as a whole."""
    global _OP_TARGETS
    if _OP_TARGETS is None:
        import types
        from insights.core import dr
        codes = set()
        for v in vars(dr.Broker).values():
            if isinstance(v, types.FunctionType):
                codes.add(v.__code__)
        for f in (dr.ComponentType.get_missing_dependencies, dr.is_enabled):
            codes.add(f.__code__)
        _OP_TARGETS = codes
    return _OP_TARGETS


def registries_fingerprint():
    from insights.core import dr
    # dr.ENABLED is a defaultdict that is_enabled() fills while reading: a benign write, and is_enabled is a
    # scheduling point; every other registry must not change while a pooled run is in flight
    return (len(dr.DELEGATES), len(dr.DEPENDENCIES), len(dr.DEPENDENTS), len(dr.IGNORE),
            sum(len(v) for v in dr.DEPENDENCIES.values()), sum(len(v) for v in dr.DEPENDENTS.values()))


def run_pool_once(case, prefix):
    from insights.core import dr
    from harness import graphs as G
    from mc import sched as S
    g = G.Graph({"nodes": case["nodes"]}, name_tag="g")
    try:
        play_history(g, case)       # (history cases) serially in the calling thread, before anything is scheduled
        s = S.Scheduler(prefix, target_codes(), pool_size=case["size"], max_points=20000, opcode_codes=opcode_codes())
        g.hook = lambda ev: s.point(ev[:2])
        b = make_broker(g, case) if case["shared"] else None
        graph = eval_graph(g, case)
        seeds_extra = None
        if not case["shared"] and case.get("ctx"):
            b = make_broker(g, case)            # the context must be present: a broker carrying only seeds
        pool = S.ControlledPool(s)
        before = registries_fingerprint()
        err = None
        try:
            brokers = s.run_main(lambda: dr.run_all(graph, b, pool))
        except (S.Deadlock, S.HorizonExceeded) as ex:
            # not a harness problem: under THIS schedule the real code deadlocks / never finishes
            brokers = []
            err = "does not terminate under this schedule: %s" % type(ex).__name__
        except S.SchedulerAbort:
            raise
        except Exception as ex:
            brokers = []
            err = "%s: %s" % (type(ex).__name__, ex)
        after = registries_fingerprint()
        got = canon_broker(g, brokers)
        inv = invocations(g)
        if err:
            got["raised"] = err
        if before != after:
            got["registries_written_during_run"] = [before, after]
        return s, (got, inv)
    finally:
        g.hook = None
        g.cleanup()


def check_pool(case, bound, res=None, max_executions=None):
    from mc import sched as S
    ref, ref_inv = reference(case)
    vio = []
    outcomes = set()
    state = {"n": 0}

    def on_exec(s, outcome):
        got, inv = outcome
        outcomes.add(json.dumps(got, sort_keys=True))
        if (got != ref or inv != ref_inv) and len(vio) < 5:
            vio.append(("pool:interleaving-changes-result", {"result": ref, "invocations": ref_inv},
                        {"result": got, "invocations": inv}, list(s.choices)))
    if case.get("schedule") is not None:
        s, outcome = run_pool_once(case, case["schedule"])
        s2, outcome2 = run_pool_once(case, case["schedule"])
        if s.choices != s2.choices or outcome != outcome2:
            raise RuntimeError("schedule replay is not deterministic")
        on_exec(s, outcome)
        return vio, 1, 1, s
    ex = S.explore(lambda p: run_pool_once(case, p), bound, max_executions=max_executions, on_execution=on_exec,
                   should_stop=lambda: len(vio) >= 2)
    if res is not None:
        res.traces += ex.executions
        res.states += ex.points_total + ex.executions
        res.transitions += ex.points_total
        res.maxi("max_choice_points_in_one_execution", ex.max_points)
        res.maxi("max_preemptions_taken", ex.max_preemptions)
        res.maxi("preemption_bound_completed", bound if not ex.capped else bound - 1)
        res.stat("cases_completed_at_bound_%d" % bound, 0 if ex.capped else 1)
        if ex.capped:
            res.exhaustive = False
            res.notes.append("pool exploration capped at %d executions for %r" % (ex.executions, case["family"]))
    return vio, ex.executions, len(outcomes), ex


# ---- dimension 3b: the evaluator's pooled driver (insights/core/evaluators.py) -------------------------------

def canon_response(resp):
    out = {}
    for k, v in resp.items():
        if k in ("analysis_metadata", "system"):
            continue
        if isinstance(v, list):
            out[k] = sorted(json.dumps(x, sort_keys=True, default=repr) for x in v)
        else:
            out[k] = json.loads(json.dumps(v, sort_keys=True, default=repr))
    return out


def evaluator_reference(case):
    import io
    from insights.core.evaluators import SingleEvaluator
    from harness import graphs as G
    g = G.Graph({"nodes": case["nodes"]}, name_tag="g")
    try:
        ev = SingleEvaluator(make_broker(g, case, observers=False), stream=io.StringIO(), incremental=False)
        resp = ev.process(g.explicit_graph())
        return canon_response(resp), canon_broker(g, [ev.broker]), invocations(g)
    finally:
        g.cleanup()


def run_evaluator_once(case, prefix):
    import contextlib
    import io
    import insights
    from insights.core.evaluators import SingleEvaluator
    from harness import graphs as G
    from mc import sched as S
    g = G.Graph({"nodes": case["nodes"]}, name_tag="g")
    saved = insights.get_pool
    try:
        s = S.Scheduler(prefix, target_codes(), pool_size=case["size"], max_points=20000, opcode_codes=opcode_codes())
        g.hook = lambda ev: s.point(ev[:2])

        @contextlib.contextmanager
        def get_pool(parallel, prefix_, kwargs):
            yield S.ControlledPool(s)
        insights.get_pool = get_pool        # the seam evaluators.py documents for its pool
        ev = SingleEvaluator(make_broker(g, case, observers=False), stream=io.StringIO(), incremental=True)
        graph = g.explicit_graph()
        err = None
        try:
            resp = s.run_main(lambda: ev.process(graph, parallel=True))
        except (S.Deadlock, S.HorizonExceeded) as ex:
            resp = {}
            err = "does not terminate under this schedule: %s" % type(ex).__name__
        except S.SchedulerAbort:
            raise
        except Exception as ex:
            resp = {}
            err = "%s: %s" % (type(ex).__name__, ex)
        got = [canon_response(resp), canon_broker(g, [ev.broker]), invocations(g)]
        if err:
            got.append(err)
        return s, got
    finally:
        insights.get_pool = saved
        g.hook = None
        g.cleanup()


def check_evaluator(case, bound, res=None, max_executions=None):
    from mc import sched as S
    ref = list(evaluator_reference(case))
    vio = []
    outcomes = set()

    def on_exec(s, got):
        outcomes.add(json.dumps(got, sort_keys=True))
        if got != ref and len(vio) < 5:
            vio.append(("evaluator:pooled-response-differs-from-serial", {"response": ref[0], "invocations": ref[2]},
                        {"response": got[0], "invocations": got[2], "extra": got[3:]}, list(s.choices)))
    if case.get("schedule") is not None:
        s, got = run_evaluator_once(case, case["schedule"])
        s2, got2 = run_evaluator_once(case, case["schedule"])
        if s.choices != s2.choices or got != got2:
            raise RuntimeError("schedule replay is not deterministic")
        on_exec(s, got)
        return vio, 1, 1, None
    ex = S.explore(lambda p: run_evaluator_once(case, p), bound, max_executions=max_executions, on_execution=on_exec,
                   should_stop=lambda: len(vio) >= 2)
    if res is not None:
        res.traces += ex.executions
        res.states += ex.points_total + ex.executions
        res.transitions += ex.points_total
        res.maxi("max_choice_points_in_one_execution", ex.max_points)
        if ex.capped:
            res.exhaustive = False
            res.notes.append("evaluator exploration capped at %d executions" % ex.executions)
    return vio, ex.executions, len(outcomes), ex


def evaluator_cases():
    """Rule sets in 2-3 independent sub-graphs: plain -> rule, rule with unmet dependency, failing rule."""
    out = []
    sub = lambda off, leaf_out="value", rule_out="value": [{"t": "plain", "decl": [], "out": leaf_out},
                                                          {"t": "rule", "decl": [off], "out": rule_out}]
    for k in (2, 3):
        for devs in itertools.product([("value", "value"), ("skip", "value"), ("value", "error"), ("value", "none")], repeat=k):
            if sum(1 for d in devs if d != ("value", "value")) > 1:
                continue
            nodes = []
            for d in devs:
                nodes.extend(sub(len(nodes), d[0], d[1]))
            out.append(nodes)
    return out


# ---- dimension 4: real hash seeds -------------------------------------------------------------------------

CHILD = r"""
import sys, json, logging
sys.path.insert(0, sys.argv[1]); sys.path.insert(0, sys.argv[2])
sys.dont_write_bytecode = True
logging.disable(logging.CRITICAL)
from props import c04
cases = json.load(sys.stdin)
out = []
for case in cases:
    from insights.core import dr
    from harness import graphs as G
    res = {}
    for drv in ("run", "incremental", "run_all"):
        g = G.Graph({"nodes": case["nodes"]}, name_tag="g")
        try:
            b = c04.make_broker(g, case)
            graph = g.explicit_graph()
            if drv == "run":
                brokers = [dr.run(graph, b)]
            elif drv == "incremental":
                brokers = list(dr.run_incremental(graph, b))
            else:
                brokers = dr.run_all(graph, b, None)
            res[drv] = [c04.canon_broker(g, brokers), c04.invocations(g)]
        finally:
            g.cleanup()
    out.append(res)
json.dump(out, sys.stdout, sort_keys=True)
"""


def seed_cases(tier):
    cases = []
    for f in families(5):
        nodes, _ = compose(f)
        n = len(nodes)
        for devs in enumx.deviations(["value"] * n, [["skip", "error"]] * n, 1):
            cases.append({"nodes": apply_devs(nodes, devs), "family": f})
    return cases


def run_children(cases, seeds):
    here = os.path.dirname(os.path.dirname(os.path.abspath(__file__)))
    repo = os.environ.get("VERIF_REPO", "/repo")
    outs = {}
    procs = []
    for k in seeds:
        env = dict(os.environ)
        env["PYTHONHASHSEED"] = str(k)
        p = subprocess.Popen([sys.executable, "-c", CHILD, repo, here], stdin=subprocess.PIPE, stdout=subprocess.PIPE,
                             stderr=subprocess.PIPE, env=env)
        procs.append((k, p))
        if len(procs) >= 4:
            for kk, pp in procs:
                o, e = pp.communicate(json.dumps(cases).encode())
                if pp.returncode != 0:
                    raise RuntimeError("child seed %d failed: %s" % (kk, e.decode()[-600:]))
                outs[kk] = json.loads(o.decode())
            procs = []
    for kk, pp in procs:
        o, e = pp.communicate(json.dumps(cases).encode())
        if pp.returncode != 0:
            raise RuntimeError("child seed %d failed: %s" % (kk, e.decode()[-600:]))
        outs[kk] = json.loads(o.decode())
    return outs


def check_seed_case(case, seeds):
    outs = run_children([case], seeds)
    ref, ref_inv = reference(case)
    refj = json.loads(json.dumps([ref, ref_inv], sort_keys=True))
    vio = []
    for k in seeds:
        for drv, got in outs[k][0].items():
            if got != refj:
                vio.append(("seed:hash-seed-changes-result", {"result": refj}, {"seed": k, "driver": drv, "result": got}, ["seed", k]))
    return vio


# ---- exploration --------------------------------------------------------------------------------------------

def run_unit(unit, tier):
    res = Result()
    b = BOUNDS[tier]
    part = unit["part"]
    if part == "selftest":
        from mc import sched as S
        info = S.self_test()
        res.stat("scheduler_selftest_ok", 1)
        res.stat("toy_lost_update_found_at_bound_1", 1)
        return res
    if part == "order+hash":
        nodes, comps = compose(unit["family"], unit["t"], unit.get("ctx"))
        n = len(nodes)
        alts = ALTS if unit["t"] == "plain" else ["skip", "error", "cpe", "timeout", "disabled"]
        for devs in enumx.deviations(["value"] * n, [alts] * n, b["max_dev"] if n <= 5 else 1):
            case = {"kind": "order+hash", "family": unit["family"], "nodes": apply_devs(nodes, devs)}
            if unit.get("ctx"):
                case["ctx"] = unit["ctx"]
            try:
                vio, nexec, nout = check_order_hash(case, res)
            except Exception:
                import traceback
                vio, nexec, nout = [("harness:raises", "no exception", traceback.format_exc()[-900:], None)], 0, 0
            res.case(nontrivial=nexec >= 2, outcome="oh:%d" % nout, sample=case if res.evals % 40 == 3 else None)
            for v in vio:
                c = dict(case)
                c["schedule"] = v[3]
                res.violation(v[0], c, v[1], v[2], {"ctx": unit.get("ctx"), "t": unit["t"]})
        return res
    if part == "typed":
        base = typed_shapes()[unit["shape"]]
        sites = [i for i, nd in enumerate(base) if nd["t"] != "rp" and nd.get("elems") is None]
        placements = [None] + [[(i, k)] for i in sites for k in ("error", "cpe", "content")]
        # two failing components (what is recorded under a registry point both resolve to must not depend on which failed first)
        placements += [[(i, k1), (j, k2)] for i, j in itertools.combinations(sites, 2) for k1 in ("error", "cpe") for k2 in ("error", "cpe")]
        for pl in placements:
            nodes = [dict(nd) for nd in base]
            for (i, k) in pl or []:
                nodes[i]["out"] = k
            case = {"kind": "order+hash", "family": ["typed", unit["shape"]], "nodes": nodes}
            try:
                vio, nexec, nout = check_order_hash(case, res)
            except Exception:
                import traceback
                vio, nexec, nout = [("harness:raises", "no exception", traceback.format_exc()[-900:], None)], 0, 0
            res.case(nontrivial=nexec >= 2, outcome="typed:%d" % nout, sample=case if pl is not None and res.evals % 7 == 2 else None)
            for v in vio:
                c = dict(case)
                c["schedule"] = v[3]
                res.violation(v[0], c, v[1], v[2], {"ctx": None, "t": "typed"})
        return res
    if part == "pool-outside":
        for xo, dep in itertools.product(("value", "skip", "error"), ("req", "opt", "group")):
            mk = {"req": lambda: {"t": "plain", "decl": [0], "out": "value"},
                  "opt": lambda: {"t": "plain", "decl": [], "opt": [0], "out": "value"},
                  "group": lambda: {"t": "plain", "decl": [[0]], "out": "value"}}[dep]
            nodes = [{"t": "plain", "decl": [], "out": xo}, mk(), mk()]
            case = {"kind": "pool", "family": ["outside", dep], "nodes": nodes, "size": unit["size"], "shared": unit["shared"],
                    "drop_keys": [0]}
            try:
                vio, nexec, nout, ex = check_pool(case, 1, res, max_executions=3000)
            except Exception:
                import traceback
                vio, nexec, nout = [("harness:raises", "no exception", traceback.format_exc()[-900:], None)], 0, 0
            res.case(nontrivial=nexec >= 2, outcome="pool-outside:%d" % nout)
            res.stat("pool_schedules_executed", nexec)
            for v in vio:
                c = dict(case)
                c["schedule"] = v[3]
                res.violation(v[0], c, v[1], v[2], {"ctx": None, "t": "plain", "signal_in_worker_thread": False})
        return res
    if part == "pool":
        nodes, comps = compose(unit["family"], unit["t"], unit.get("ctx"))
        cap = 6000 if tier == "quick" else 400000
        case = {"kind": "pool", "family": unit["family"], "nodes": apply_devs(nodes, unit["devs"]), "size": unit["size"],
                "shared": unit["shared"]}
        if unit.get("ctx"):
            case["ctx"] = unit["ctx"]
        try:
            vio, nexec, nout, ex = check_pool(case, unit["bound"], res, max_executions=cap)
        except Exception:
            import traceback
            vio, nexec, nout = [("harness:raises", "no exception", traceback.format_exc()[-900:], None)], 0, 0
        res.case(nontrivial=nexec >= 2, outcome="pool:%d" % nout, sample=case if unit["size"] == 2 and unit["shared"] else None)
        res.stat("pool_schedules_executed", nexec)
        for v in vio:
            c = dict(case)
            c["schedule"] = v[3]
            res.violation(v[0], c, v[1], v[2],
                          {"ctx": unit.get("ctx"), "t": unit["t"],
                           "signal_in_worker_thread": "signal only works in main thread" in json.dumps(v[2])})
        return res
    if part in ("history", "history-pool"):
        quick = tier == "quick"
        base, member = HIST_FAMILIES[unit["family"]]
        n = len(base)
        sites = [i for i, nd in enumerate(base) if nd["t"] != "rp"]
        pooled = part == "history-pool"
        alts = ["skip"] if quick and pooled else ["skip", "error"]
        for muts in hist_mutations(unit["family"], 1 if quick or pooled else 2):
            # thorough: <= 2 deviations with one registry change, <= 1 with two
            maxdev = 1 if quick or pooled or len(muts) > 1 else 2
            for devs in enumx.deviations(["value"] * len(sites), [alts] * len(sites), maxdev):
                deviating = [i for i, d in zip(sites, devs) if d != "value"]
                if pooled and deviating and deviating != [member.index(member[muts[0][1]])]:
                    continue        # pooled: all values, or the first component of the dependent's old sub-graph deviates
                nodes = [dict(nd) for nd in base]
                for i, d in zip(sites, devs):
                    if d != "value":
                        nodes[i]["out"] = d
                hist = {"first": unit["first"], "mut": muts}
                if pooled:
                    case = {"kind": "pool", "family": ["history", unit["family"]], "nodes": nodes, "size": unit["size"],
                            "shared": unit["shared"], "history": hist}
                else:
                    case = {"kind": "history", "family": ["history", unit["family"]], "nodes": nodes, "history": hist,
                            "perms": "ends" if (quick and n > 3) or len(muts) > 1 else "all"}
                try:
                    if pooled:
                        vio, nexec, nout, ex = check_pool(case, unit["bound"], res, max_executions=3000 if quick else 400000)
                        res.stat("history_pool_schedules_executed", nexec)
                    else:
                        vio, nexec, nout = check_history(case, res)
                        res.stat("history_executions", nexec)
                except Exception:
                    import traceback
                    vio, nexec, nout = [("harness:raises", "no exception", traceback.format_exc()[-900:], None)], 0, 0
                res.case(nontrivial=nexec >= 2, outcome="%s:%s:%d" % (part, unit["first"], nout),
                         sample=case if res.evals % 11 == 1 else None)
                res.stat("histories", 1)
                for v in vio:
                    c = dict(case)
                    c["schedule"] = v[3]
                    res.violation(v[0], c, v[1], v[2], {"ctx": None, "t": "history", "first": unit["first"],
                                                        "signal_in_worker_thread": False})
        return res
    if part == "evaluator":
        nodes = evaluator_cases()[unit["index"]]
        case = {"kind": "evaluator", "nodes": nodes, "size": unit["size"]}
        try:
            vio, nexec, nout, ex = check_evaluator(case, 1, res,
                                                   max_executions=6000 if tier == "quick" else 400000)
        except Exception:
            import traceback
            vio, nexec, nout = [("harness:raises", "no exception", traceback.format_exc()[-900:], None)], 0, 0
        res.case(nontrivial=nexec >= 2, outcome="ev:%d" % nout, sample=case)
        res.stat("evaluator_schedules_executed", nexec)
        for v in vio:
            c = dict(case)
            c["schedule"] = v[3]
            res.violation(v[0], c, v[1], v[2], {})
        return res
    if part == "seed":
        cases = [c for k, c in enumerate(seed_cases(tier)) if k % unit["of"] == unit["chunk"]]
        seeds = list(range(b["seeds"]))
        outs = run_children(cases, seeds)
        for ci, case in enumerate(cases):
            ref, ref_inv = reference(case)
            refj = json.loads(json.dumps([ref, ref_inv], sort_keys=True))
            bad = None
            for k in seeds:
                for drv, got in outs[k][ci].items():
                    if got != refj and bad is None:
                        bad = (k, drv, got)
            res.case(nontrivial=True, outcome="seed:%s" % (bad is None), sample=None)
            res.traces += len(seeds) * 3
            res.transitions += len(seeds) * 3 * len(case["nodes"])
            res.states += len(seeds)
            if bad:
                c = dict(case)
                c["kind"] = "seed"
                c["schedule"] = ["seed", bad[0]]
                res.violation("seed:hash-seed-changes-result", c, {"result": refj}, {"seed": bad[0], "driver": bad[1], "result": bad[2]}, {})
        res.stat("child_interpreters", len(seeds))
        return res
    raise ValueError(part)


def replay(case):
    kind = case["kind"]
    if kind == "order+hash":
        vio, _, _ = check_order_hash(case)
        feats = {"ctx": case.get("ctx"), "t": "typed" if case["family"][0] == "typed" else case["nodes"][0]["t"]}
        return [{"clause": v[0], "case": case, "expected": v[1], "observed": v[2], "features": feats} for v in vio]
    if kind == "history":
        vio, _, _ = check_history(case)
        return [{"clause": v[0], "case": case, "expected": v[1], "observed": v[2],
                 "features": {"ctx": None, "t": "history", "first": case["history"]["first"], "signal_in_worker_thread": False}}
                for v in vio]
    if kind == "pool":
        vio, _, _, _ = check_pool(case, 0)
        return [{"clause": v[0], "case": case, "expected": v[1], "observed": v[2],
                 "features": dict({"ctx": case.get("ctx"), "t": "history" if case.get("history") else case["nodes"][0]["t"],
                                   "signal_in_worker_thread": "signal only works in main thread" in json.dumps(v[2])},
                                  **({"first": case["history"]["first"]} if case.get("history") else {}))} for v in vio]
    if kind == "evaluator":
        vio, _, _, _ = check_evaluator(case, 0)
        return [{"clause": v[0], "case": case, "expected": v[1], "observed": v[2], "features": {}} for v in vio]
    if kind == "seed":
        vio = check_seed_case(case, [case["schedule"][1]])
        return [{"clause": v[0], "case": case, "expected": v[1], "observed": v[2], "features": {}} for v in vio]
    raise ValueError(kind)
