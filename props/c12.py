"""C12 - every evaluated rule yields exactly one well-formed, accounted outcome.

Rule sets.  A fixed palette of callables decorated by the real ``@rule`` (created once per process,
forced hashes so that the engine visits them in index order in every process) whose bodies are driven
by a per-case table.  A case assigns a behaviour to some palette rules, picks a driver and the
formatter options, runs the real evaluator / formatter and locates every rule in the result by a
counting argument:

    listed type (fail, pass, info, fingerprint, none)  -> exactly one entry, under the heading of
                                                          its type, carrying key / component / tags /
                                                          links / <type>_id as declared
    metadata                                           -> its fields in system.metadata
    unmet dependency                                   -> exactly one entry in ``skips`` naming exactly
                                                          the missing dependencies
    raise / non-Response return / invalid response     -> broker.exceptions
    deliberate skip, disabled                          -> nowhere

and the formatter shows exactly the types its options select.

Families: A (all assignments to 3/4 slots; full decoration product on 2/3 slots), S (all option
combinations), W (10-12 rules in one evaluation), D (a rule depending on a rule), T (declaration shapes:
no dependencies, tags as set / tuple / two tags, two link categories, explicit empty tags and links;
keys with %, |, quotes, non-ASCII), K (metadata keys named like a section heading), H (two-step
histories in one process: fresh objects, same broker, same evaluator object), B (constructors),
C (rules declaring a content template - as ``content=`` string / dict by key / dict by response class / key ->
class, or as the module's ``CONTENT`` - over the templates {valid, undefined variable, does not compile (unclosed
block, unknown filter), fails while rendering, not a string, empty} x every behaviour, through the formatters with
``render_content`` switched on (JsonFormat, its adapter with -r, YamlFormat) and two controls; the oracle is the same
counting argument: whatever its template looks like, a rule that returned a response is listed exactly once.  The
text of ``rendered_content`` is not judged - the statement does not speak about it).

Readings (the statement is loose there; LESSONS.md point 7 re-checked):
  * ``make_metadata_key`` is not among the statement's types but it is a response a rule may return, so
    the rule must end somewhere: its value must be visible at top level of an unfiltered response, and
    it is in no list / skips / exceptions.  When two rules use the same metadata key (or the same
    metadata field) either value is accepted (inherent to a key -> value table).
  * a missing key is ``None`` or an empty string (the code's own message calls it "missing"); every
    non-string key - falsy or not - is rejected.
  * "rejected as an error" = the constructor raises an ``Exception`` (any class; the code raises
    ``ValidationException``); inside a rule that means an entry in ``broker.exceptions``.
  * ``make_metadata_key`` overrides ``adjust_for_length`` explicitly: for it an oversize value may
    be kept (the code's documented choice) or stubbed (the statement's letter).
  * ``links`` of a rule declared without links may be reported as ``{}`` or ``None``; extra keys in a
    report entry are allowed; a heading that is selected but empty may be present or absent; the order
    of several tags is free (they are kept in a set).
  * the size of the details: the code documents ``len(str(<response dict>))`` (characters), the
    configuration file says "bytes".  Both agree for ASCII.  For non-ASCII payloads: more characters than
    the limit => stub; no more bytes than the limit => kept; in between either; the stub's length
    may be either count.  "exceeds" is strict.
  * ``-F``: option help ("dropped with -m") and man page ("dropped with -m or -f") agree that -m wins;
    without -m either reading (fail only / dropped) is accepted.
  * a rule whose dependency is another rule: it either runs or gets a skip entry naming that rule,
    according to whether the other rule's value is in the broker (observed) - which outcomes of a rule
    count as "available" is C02's subject.
  * tags given as a ``str`` are outside the documented type (list of strings) and not enumerated.
"""
import argparse
import io
import itertools
import json
import re
import sys
import types

from mc.result import Result

ID = "C12"
LEVEL = "exploration"
RULE = ("A: every assignment of {absent, 22 behaviours (incl. required / at-least-one / both kinds of dependency "
        "missing)} to 3 (quick) / 4 (thorough) rule slots with slot-fixed decorations, plus every assignment over "
        "behaviour x {no tags/links, tag, link, both} (+ oversize fail / metadata, four more falsy non-responses) to "
        "2 / 3 slots, each through SingleEvaluator serial + incremental, InsightsEvaluator, JsonFormat (plain, "
        "render_content) and YamlFormat with everything shown (InsightsEvaluator / render_content / YAML: sets of <= 2 / <= 3 rules); S: every multiset of <= 3 / <= 4 outcome kinds x "
        "every (missing, show_rules subset[, -F]) x {JsonFormat, YamlFormat, JsonFormatterAdapter, "
        "YamlFormatterAdapter}; W: 10-12 rules at once (uniform, and every single deviation from all-fail); "
        "D: every behaviour of a rule x a rule depending on it; T: declaration shapes x odd keys; K: metadata keys "
        "named like section headings; H: all two-step histories of one-rule sets (fresh objects / same broker / same "
        "evaluator); B: every response class x key shape x kwarg name x payload kind x size limit-2..limit+2, "
        "limit 0. Non-trivial: at least two rules located (A, W, D, H), options hid one rule and showed one (S), "
        "validation or the limit fired (B), always for T / K; I: every behaviour / dependency situation of a rule "
        "registered with dr.add_ignore x marker in the broker or not (non-trivial when the marker is present); "
        "C: content templates {valid, undefined variable, unclosed block, unknown filter, render-time error, "
        "non-string, empty} x placement {content= string, dict by key, dict by response class, key -> class; module "
        "CONTENT in the same four forms} x every behaviour x {alone, after a plain rule, before / beside a rule with "
        "its own valid or uncompilable template}, every ordered pair of templates on two rules, each through "
        "JsonFormat(render_content), JsonFormatterAdapter -r, YamlFormat(render_content) (single-rule-declaration "
        "family also through plain JsonFormat and SingleEvaluator as controls) (non-trivial: a rendering driver and a response that the declaration assigns a template to)")
ASSUMPTIONS = [
    "rule bodies are callables decorated by the real @rule whose hash is their palette index, so the engine runs "
    "them in index order in every process (measured: counter cases_bodies_not_run_in_slot_order); the oracle is "
    "order-insensitive and every behaviour visits every slot, so every sequence of behaviours is executed",
    "components are a palette created once per process; behaviours come from a table that is rebuilt for every "
    "case, dr.ENABLED is restored after every case; nothing else in the dr registries is touched",
    "the default stdout sink of a formatter built by an adapter is replaced by a buffer; any other sink is left "
    "alone",
    "the empty rule set is excluded (an empty graph makes dr.run fall back to every registered component)",
    "bounded: no counterexample within the stated alphabets, nothing more",
]
BOUNDS = {
    "quick": {"mixed_slots": 3, "full_slots": 2, "behaviours": 23, "full_family_extra_behaviours": 6,
              "decorations": 4, "secondary_driver_max_rules_part_a": 2, "wide_rules": [10, 11, 12],
              "select_multiset_max": {"json": 3, "json-adapter": 2, "yaml": 2, "yaml-adapter": 2},
              "select_options": 128, "constructor_limit": [96, 0], "constructor_sizes": "limit-2..limit+2",
              "content_templates": 7, "content_placements": {"kwarg": 4, "module": 4}, "content_drivers": 5,
              "content_rules_per_case_max": 2},
    "thorough": {"mixed_slots": 4, "full_slots": 3, "behaviours": 23, "full_family_extra_behaviours": 6,
                 "decorations": 4, "secondary_driver_max_rules_part_a": 3, "wide_rules": [10, 11, 12],
                 "select_multiset_max": {"json": 4, "json-adapter": 4, "yaml": 4, "yaml-adapter": 3},
                 "select_options": 128, "constructor_limit": [96, 0], "constructor_sizes": "limit-2..limit+2",
                 "content_templates": 7, "content_placements": {"kwarg": 4, "module": 4}, "content_drivers": 5,
                 "content_rules_per_case_max": 2},
}
CAP_S = {"quick": 300, "thorough": 3600}
TECHNIQUE = ("bounded exhaustive enumeration of rule sets x drivers x formatter options (and two-step histories) executed "
             "against the real evaluator and formatters; counting-argument oracle locating every rule in the output")
LEVEL_TEXT = ("Every rule set of <= 3 (quick) / <= 4 (thorough) rules over an alphabet with one symbol per kind of return "
              "value / dependency situation (shared keys, types, modules, names) is evaluated with every evaluator-based "
              "driver, every (missing, show_rules) option combination is applied to every multiset of outcome kinds, sets "
              "of 10-12 rules, dependent rules, declaration shapes and two-step histories are enumerated, and every "
              "response constructor is called with every key shape, reserved name and payload size around the limit; "
              "rules declaring content templates (valid, undefined variable, uncompilable, failing at render time, "
              "non-string, empty; every documented placement incl. the module's CONTENT) are evaluated through the "
              "formatters with render_content switched on and must be accounted exactly like rules without content. "
              "The statement is 'no counterexample within the bound'.")
LEVEL_NOTE = ("Trusted: the harness' own locating of rules in the parsed JSON / YAML output (YAML python tags are read as "
              "plain data); one execution order per rule set (index order; all behaviour sequences are covered by the "
              "tuples); other formatters (text, html, markdown, syslog, junit) do not derive from the evaluator and are "
              "out of scope.")

# ---- alphabets ---------------------------------------------------------------------------------

PKG = "verif_c12"
MODS = {"A": PKG + ".alpha", "B": PKG + ".beta", "C": PKG + ".sub.alpha", "W": PKG + ".wide",
        "G": PKG + ".gamma", "M": PKG + ".delta"}
LINKS = {"kcs": ["https://access.example.com/solutions/1"]}
LINKS2 = {"kcs": ["https://access.example.com/solutions/1"],
          "jira": ["https://issues.example.com/A-1", "https://issues.example.com/A-2"]}
# name -> (tags argument, links argument, reported tags, reported links); None = argument not given
DECOS = {"p": (None, None, [], {}), "t": (["t1"], None, ["t1"], {}), "l": (None, LINKS, [], LINKS),
         "tl": (["t1"], LINKS, ["t1"], LINKS),
         "tset": (set(["t1"]), None, ["t1"], {}), "ttuple": (("t1",), None, ["t1"], {}),
         "ttwo": (["t1", "t2"], None, ["t1", "t2"], {}), "ltwo": (None, LINKS2, [], LINKS2),
         "empty": ([], {}, [], {})}
DECO_ORDER = ["p", "t", "l", "tl"]
SLOT_DECO = ["p", "tl", "t", "l"]                                # decoration of slot i in the "mixed" family
N_SLOTS = 4
WIDE = list(range(4, 16))                                        # w0 .. w11 (w1 is a prefix of w10, w11)
YDEP, NODEPS = 16, 17
SHAPED = {18: "tset", 19: "ttuple", 20: "ttwo", 21: "ltwo", 22: "empty"}
# index -> (module, simple name, shape).  Slots 0/2 and 1/3 have the same simple name in different modules;
# slots 0/1/3 have the same base module name ("alpha"), slot 3 in another package.
RULES = {0: ("A", "r0", "std"), 1: ("A", "r1", "std"), 2: ("B", "r0", "std"), 3: ("C", "r1", "std"),
         YDEP: ("B", "ydep", "on_rule"), NODEPS: ("A", "nodeps", "nodeps")}
for _i in WIDE:
    RULES[_i] = ("W", "w%d" % (_i - 4), "std")
for _i, _d in SHAPED.items():
    RULES[_i] = ("B", _d, "std")

# ---- family C: rules that declare a content template (rule(content=...) / module level CONTENT) ------------------
# name -> what the rule author wrote as a template.  'valid' renders; 'undefined' dereferences an undefined variable
# (render-time UndefinedError); 'unclosed' and 'badfilter' do not compile; 'runtime' compiles and fails while rendering
# with something that is not an UndefinedError; 'nonstring' is not a template at all; 'empty' is falsy.
TEMPLATES = {"valid": "slot {{slot}} of type {{type}}", "undefined": "undefined: {{nothing.here}}",
             "unclosed": "{% if type %}never closed: {{slot}}", "badfilter": "{{ type | no_such_filter }}",
             "runtime": "{{ 1 // (type | int) }}", "nonstring": 42, "empty": ""}
TEMPLATE_ORDER = ["valid", "undefined", "unclosed", "badfilter", "runtime", "nonstring", "empty"]
# how the template reaches the response (documented forms of ``content``: a string for all return values, a dict keyed
# by response key, by response class, or key -> class); in the dict forms the neighbouring entries are 'valid'
PLACEMENTS = ["str", "by-key", "by-class", "key-class"]
CONTENT_BASE = 30
CONTENT_OF = {}                                                  # index -> (placement, template) of a content= kwarg
for _p, _pn in enumerate(PLACEMENTS):
    for _t, _tn in enumerate(TEMPLATE_ORDER):
        _i = CONTENT_BASE + _p * len(TEMPLATE_ORDER) + _t
        CONTENT_OF[_i] = (_pn, _tn)
        RULES[_i] = ("G", "c_%s_%s" % (_pn.replace("-", "_"), _tn), "std")
# module "M": its CONTENT attribute comes from the case ("module_content": [placement, template]); g0 / g1 declare no
# content (the module's applies), gk / gb declare their own (valid / unclosed) next to the module's
G0, G1, GK, GB = 60, 61, 62, 63
RULES.update({G0: ("M", "g0", "std"), G1: ("M", "g1", "std"), GK: ("M", "gk", "std"), GB: ("M", "gb", "std")})
CONTENT_OF[GK] = ("str", "valid")
CONTENT_OF[GB] = ("str", "unclosed")
MODULE_CONTENT_RULES = (G0, G1)


def content_object(placement, template):
    """The object a rule author passes as ``content=`` / assigns to ``CONTENT`` (fresh on every call)."""
    from insights.core import plugins as P
    t, ok = TEMPLATES[template], TEMPLATES["valid"]
    if placement == "str":
        return t
    if placement == "by-key":
        return {"K1": t, "K2": ok}
    if placement == "by-class":
        return {P.make_fail: t, P.make_info: t, P.make_pass: ok}
    if placement == "key-class":
        return {"K1": {P.make_fail: t, P.make_pass: ok}, "K2": t}
    raise ValueError(placement)


def template_for(placement, template, kind, key):
    """Which template the declaration assigns to a response of this kind / key (None: none).  Used for the case
    features and the non-triviality measure only - never for a verdict."""
    if kind not in KEYED and kind != "none":
        return None
    if placement == "str":
        return template
    if placement == "by-key":
        return {"K1": template, "K2": "valid"}.get(key)
    if placement == "by-class":
        return {"fail": template, "info": template, "pass": "valid"}.get(kind)
    if key == "K1":
        return {"fail": template, "pass": "valid"}.get(kind)
    return template if key == "K2" else None


def content_of_rule(idx, case):
    """(placement, template) that governs rule idx in this case, or None."""
    if idx in CONTENT_OF:
        return CONTENT_OF[idx]
    if idx in MODULE_CONTENT_RULES and case.get("module_content"):
        return tuple(case["module_content"])
    return None


def fixed_deco(idx):
    if idx in SHAPED:
        return SHAPED[idx]
    if idx in WIDE:
        return DECO_ORDER[idx % 4]
    return "p"


KEYED = {"fail": ("rule", "make_fail", "error_key"), "pass": ("pass", "make_pass", "pass_key"),
         "info": ("info", "make_info", "info_key"), "fingerprint": ("fingerprint", "make_fingerprint", "fingerprint_key")}
HEADING = {"rule": "reports", "fingerprint": "fingerprints", "pass": "pass", "info": "info", "none": "none"}
SECTION_NAMES = ["reports", "fingerprints", "skips", "system", "analysis_metadata", "pass", "info", "none"]
LISTED_BEHS = ["fail:K1", "fail:K2", "pass:K1", "pass:K2", "info:K1", "info:K2",
               "fingerprint:K1", "fingerprint:K2", "none"]
OTHER_BEHS = ["metadata", "metadata_key:K1", "metadata_key:K2", "nonresp_dict", "nonresp_str", "nonresp_zero",
              "raise", "invalid", "skip", "unmet_req", "unmet_any", "unmet_both", "disabled"]
BEHS = LISTED_BEHS + OTHER_BEHS                                  # 22 + "absent" = 23 symbols per slot
# 'full' family only: responses just over the *configured* max_detail_length flowing through the evaluator, and
# the remaining falsy return values that are not responses
EXTRA_BEHS = ["oversize_fail:K1", "oversize_metadata", "nonresp_emptystr", "nonresp_emptydict", "nonresp_false",
              "nonresp_emptylist"]
NONRESP = {"nonresp_str": "K1", "nonresp_zero": 0, "nonresp_emptystr": "", "nonresp_emptydict": {},
           "nonresp_false": False, "nonresp_emptylist": []}
UNMET_KINDS = ("unmet_req", "unmet_any", "unmet_both")
ERROR_KINDS = ("nonresp_dict", "raise", "invalid") + tuple(NONRESP)
ODD_KEY = "K%s|é'\"\\ x"
SELECT_KINDS = ["fail:K1", "pass:K1", "info:K1", "fingerprint:K1", "none", "metadata", "metadata_key:K1",
                "unmet_req", "raise"]                            # one representative per place in the output
IMPL_TYPES = ["rule", "info", "pass", "none", "metadata", "fingerprint"]     # values of show_rules at the Impl level
CLI_OF = {"rule": "fail"}                                                  # '-S fail' is spelt 'rule' at the Impl level
A_DRIVERS = ["single-serial", "single-incremental", "insights-serial", "json", "json-render", "yaml"]
S_DRIVERS = ["json", "json-adapter", "yaml", "yaml-adapter"]
# same dispatch code as a primary driver (YamlFormat and InsightsEvaluator inherit SingleEvaluator.handle_result and
# differ in the dump / format_result; render_content adds one member to JsonFormat's entry): smaller rule sets in part A
SECONDARY_DRIVERS = ("yaml", "json-render", "insights-serial")
LIVE_DRIVERS = ("single-serial", "single-incremental", "insights-serial")    # return live python objects

_ST = {"beh": {}, "dep": {}, "calls": []}
_PAL = None


def _split(beh):
    kind, _, key = beh.partition(":")
    return kind, (key or None)


def rule_name(idx):
    m, name, _ = RULES[idx]
    return "%s.%s" % (MODS[m], name)


def dep_names(idx):
    m = RULES[idx][0]
    return {"req": "%s.req%d" % (MODS[m], idx), "alt": "%s.alt%d" % (MODS[m], idx), "never": "%s.never" % MODS[m]}


def present_rules(desc):
    """[(index, behaviour, decoration)] of a rule-set descriptor {"rules": [...slots...], "extra": [[idx, beh]...]}."""
    out = [(slot, r[0], r[1]) for slot, r in enumerate(desc.get("rules") or []) if r is not None]
    out += [(idx, beh, fixed_deco(idx)) for idx, beh in (desc.get("extra") or [])]
    return out


# ---- the palette of real components -----------------------------------------------------------

def _oversize_kwargs(slot):
    """Keyword arguments whose rendering alone is one character over the configured limit."""
    from insights import settings
    return {"slot": slot, "pad": "a" * (int(settings.defaults["max_detail_length"]) + 1)}


def _oversize_stub(slot, base):
    full = dict(_oversize_kwargs(slot))
    full.update(base)
    stub = dict(base)
    stub["max_detail_length_error"] = len(str(full))
    return stub


def _safe(x):
    """JSON-safe rendering of expected / observed values (non-string keys, bytes, objects -> repr)."""
    if isinstance(x, dict):
        return dict((k if isinstance(k, str) else "<%r>" % (k,), _safe(v)) for k, v in x.items())
    if isinstance(x, (list, tuple, set, frozenset)):
        return [_safe(v) for v in x]
    if x is None or isinstance(x, (str, int, float, bool)):
        return x
    return repr(x)


def _same(a, b):
    """Equality that does not confuse 0 / False / None / "" / 1 / True, nor None and 'None' keys."""
    if isinstance(a, bool) or isinstance(b, bool):
        return isinstance(a, bool) and isinstance(b, bool) and a == b
    if isinstance(a, dict) and isinstance(b, dict):
        if len(a) != len(b):
            return False
        for k, v in a.items():
            hit = [k2 for k2 in b if _same(k, k2)]
            if not hit or not _same(v, b[hit[0]]):
                return False
        return True
    if isinstance(a, (list, tuple)) and isinstance(b, (list, tuple)):
        return len(a) == len(b) and all(_same(x, y) for x, y in zip(a, b))
    if isinstance(a, str) and isinstance(b, str):
        return a == b
    if a is None or b is None:
        return a is b
    return type(a) is type(b) and a == b


def _act(slot):
    from insights.core import plugins as P
    from insights.core.exceptions import SkipComponent
    beh = _ST["beh"].get(slot)
    kind, key = _split(beh) if beh else (None, None)
    if kind in KEYED:
        return getattr(P, KEYED[kind][1])(key, slot=slot)
    if kind == "metadata":
        return P.make_metadata(**{"m%d" % slot: slot, "shared": slot})
    if kind == "oversize_fail":
        return P.make_fail(key, **_oversize_kwargs(slot))
    if kind == "oversize_metadata":
        return P.make_metadata(**_oversize_kwargs(slot))
    if kind == "metadata_key":
        return P.make_metadata_key(key, "v%d" % slot)
    if kind == "none":
        return None
    if kind == "nonresp_dict":
        return {"type": "rule", "error_key": "K1", "slot": slot}      # response-shaped, but not a Response
    if kind in NONRESP:
        return NONRESP[kind]
    if kind == "raise":
        raise ValueError("rule body failed")
    if kind == "invalid":
        return P.make_pass(5, slot=slot)                             # non-string key: the constructor must refuse
    if kind == "skip":
        raise SkipComponent("deliberate skip")
    # unmet_*, disabled, or no table entry: the engine must not have invoked this body at all
    return P.make_info("BODY_RAN_UNEXPECTEDLY", slot=slot)


class _Body(object):
    """The body of a palette rule: a callable decorated by the real ``@rule``.  Its hash is the palette
    index, so the engine's set iteration (toposort levels, subgraph frontier) visits the rules of a
    case in index order in every process - an order-dependent defect then reproduces from the case
    descriptor alone.  (Plain functions hash by address.)"""

    def __init__(self, slot, name, module):
        self.slot = slot
        self.__name__ = self.__qualname__ = name
        self.__module__ = module
        self.__doc__ = None

    def __call__(self, *deps):
        _ST["calls"].append(self.slot)
        return _act(self.slot)

    def __hash__(self):
        return self.slot + 1

    def __eq__(self, other):
        return self is other

    def __ne__(self, other):
        return self is not other

    def __repr__(self):
        return "<rule %s.%s>" % (self.__module__, self.__name__)


def _pal():
    """Creates (once per process) the synthetic modules, the dependency components and the real
    @rule-decorated callables.  A 'std' rule i is declared ``@rule(req_i, [alt_i, never_M])``: never_M
    always skips (shared by the rules of a module, which also joins them into one subgraph for the
    incremental driver), req_i / alt_i are present unless the case table says otherwise.  The four
    slots exist in four decorations each (same qualified name; only one of them is in a graph)."""
    global _PAL
    if _PAL is not None:
        return _PAL
    from insights.core import dr
    from insights.core.plugins import rule, component
    from insights.core.exceptions import SkipComponent
    for name in [PKG, PKG + ".sub"] + sorted(MODS.values()):
        mod = types.ModuleType(name)
        mod.__path__ = []
        sys.modules[name] = mod
        if "." in name:
            setattr(sys.modules[name.rsplit(".", 1)[0]], name.rsplit(".", 1)[1], mod)

    def mkdep(m, full, always_absent=False):
        name = full.rsplit(".", 1)[1]

        def f():
            if always_absent or not _ST["dep"].get(full, True):
                raise SkipComponent("absent by case table")
            return full
        f.__name__ = f.__qualname__ = name
        f.__module__ = MODS[m]
        setattr(sys.modules[MODS[m]], name, f)
        return component()(f)

    def mkrule(idx, deco, deps):
        m, name, _ = RULES[idx]
        f = _Body(idx, name, MODS[m])
        setattr(sys.modules[MODS[m]], name, f)
        tags, links = DECOS[deco][0], DECOS[deco][1]
        kw = {}
        if tags is not None:
            kw["tags"] = type(tags)(tags)
        if links is not None:
            kw["links"] = dict((k, list(v)) for k, v in links.items())
        if idx in CONTENT_OF:
            kw["content"] = content_object(*CONTENT_OF[idx])
        return rule(*deps, **kw)(f)

    never = dict((m, mkdep(m, "%s.never" % MODS[m], True)) for m in MODS)
    rules, graphs = {}, {}
    for idx in sorted(RULES):
        m, _, shape = RULES[idx]
        if shape == "std":
            dn = dep_names(idx)
            deps = [mkdep(m, dn["req"]), [mkdep(m, dn["alt"]), never[m]]]
        elif shape == "on_rule":
            deps = [rules[(0, "p")]]
        else:
            deps = []
        for deco in (DECO_ORDER if idx < N_SLOTS else [fixed_deco(idx)]):
            fn = mkrule(idx, deco, deps)
            rules[(idx, deco)] = fn
            graphs[(idx, deco)] = dr.get_dependency_graph(fn)
    def marker():
        return "marker"
    marker.__module__ = MODS["A"]
    setattr(sys.modules[MODS["A"]], "marker", marker)
    _PAL = {"rules": rules, "graphs": graphs, "marker": component()(marker)}
    return _PAL


# ---- running one case --------------------------------------------------------------------------

_YAML_LOADER = None


def _yaml_load(text):
    """Reads the YAML document as plain data: python object tags become their dict items / lists /
    names, so nothing is imported or constructed from the document."""
    global _YAML_LOADER
    import yaml
    if _YAML_LOADER is None:
        base = getattr(yaml, "CSafeLoader", yaml.SafeLoader)

        class Loader(base):
            pass

        def plain(loader, suffix, node):
            if isinstance(node, yaml.MappingNode):
                m = loader.construct_mapping(node, deep=True)
                if suffix.startswith("object/new:") or suffix.startswith("object/apply:"):
                    return m.get("dictitems") or {}
                return m
            if isinstance(node, yaml.SequenceNode):
                return loader.construct_sequence(node, deep=True)
            return suffix
        Loader.add_multi_constructor("tag:yaml.org,2002:python/", plain)
        _YAML_LOADER = Loader
    return yaml.load(text, Loader=_YAML_LOADER)


def _impl_show(case):
    return list(case.get("show") or [])


def _setup(desc):
    """Fills the behaviour tables for one rule-set descriptor. -> (graph, rules to disable)"""
    pal = _pal()
    _ST["beh"], _ST["dep"] = {}, {}
    graph, disabled = {}, []
    for idx, beh, deco in present_rules(desc):
        kind = _split(beh)[0]
        fn = pal["rules"][(idx, deco)]
        _ST["beh"][idx] = beh
        if kind in UNMET_KINDS and RULES[idx][2] != "std":
            raise ValueError("unmet dependencies need the standard declaration shape")
        if kind in ("unmet_req", "unmet_both"):
            _ST["dep"][dep_names(idx)["req"]] = False
        if kind in ("unmet_any", "unmet_both"):
            _ST["dep"][dep_names(idx)["alt"]] = False
        if kind == "disabled":
            disabled.append(fn)
        for k, v in pal["graphs"][(idx, deco)].items():
            graph.setdefault(k, set()).update(v)
    if not graph:
        raise ValueError("the empty rule set is outside the space (dr.run would fall back to every component)")
    return graph, disabled


class _Driver(object):
    """One evaluator / formatter object on one broker; run(graph) -> response of that run."""

    def __init__(self, case, broker):
        self.driver = driver = case["driver"]
        self.broker = broker
        missing = bool(case.get("missing"))
        show = _impl_show(case)
        self.obj = self.adapter = None
        if driver in ("single-serial", "single-incremental"):
            from insights.core.evaluators import SingleEvaluator
            self.obj = SingleEvaluator(broker, stream=io.StringIO(), incremental=(driver == "single-incremental"))
        elif driver == "insights-serial":
            from insights.core.evaluators import InsightsEvaluator
            self.obj = InsightsEvaluator(broker, system_id="sid-1", stream=io.StringIO())
        elif driver in ("json", "json-render"):
            from insights.formats._json import JsonFormat
            self.obj = JsonFormat(broker, missing, driver == "json-render", show, stream=io.StringIO())
        elif driver == "yaml":
            from insights.formats._yaml import YamlFormat
            self.obj = YamlFormat(broker, missing, show, stream=io.StringIO())
        elif driver == "yaml-render":
            from insights.formats._yaml import YamlFormat
            self.obj = YamlFormat(broker, missing, show, stream=io.StringIO(), render_content=True)
        elif driver in ("json-adapter", "yaml-adapter", "json-adapter-render", "yaml-adapter-render"):
            if driver.startswith("json"):
                from insights.formats._json import JsonFormatterAdapter as Adapter
            else:
                from insights.formats._yaml import YamlFormatterAdapter as Adapter
            cli = [CLI_OF.get(t, t) for t in show] or None
            args = argparse.Namespace(missing=missing, render_content=driver.endswith("-render"), show_rules=cli,
                                      fail_only=bool(case.get("fail_only")), plugins=None)
            self.adapter = Adapter(args)
        else:
            raise ValueError(driver)

    def run(self, graph):
        from insights.core import dr
        driver = self.driver
        if driver in LIVE_DRIVERS:
            return self.obj.process(graph)
        buf = io.StringIO()
        if self.adapter is not None:
            # the way insights.run() uses a formatter: Adapter(args); preprocess(broker); run; postprocess(broker)
            import inspect
            ad = self.adapter
            ad.preprocess(self.broker)
            default_sink = inspect.signature(type(ad.formatter).__init__).parameters["stream"].default
            if ad.formatter.stream is default_sink:          # the sys.stdout captured by the signature:
                ad.formatter.stream = buf                    # only the default sink is redirected
            dr.run(graph, broker=self.broker)
            ad.postprocess(self.broker)
        else:
            self.obj.stream = buf
            with self.obj:
                dr.run(graph, broker=self.broker)
        text = buf.getvalue()
        return json.loads(text) if driver.startswith("json") else _yaml_load(text)


def _execute(case):
    """Runs the case (one step, or two steps for a history) against the real code.
    -> {"resp", "exc": exceptions by rule name, "in_broker": names of palette rules holding a value, "err"}"""
    from insights.core import dr
    steps = [case] if not case.get("before") else [case["before"], case]
    history = case.get("history", "fresh")
    _ST["calls"] = []
    broker = drv = None
    resp, err = None, None
    # "ignore": indices of rules registered with dr.add_ignore(rule, marker); "marker": the marker component holds a
    # value in the broker before the evaluation starts (the way an execution context does)
    pal = _pal()
    ignoring = [pal["rules"][(idx, deco)] for idx, _, deco in present_rules(case) if idx in (case.get("ignore") or [])]
    # "module_content": [placement, template] -> the CONTENT attribute of the synthetic module "M" during the case
    mod_m = sys.modules[MODS["M"]]
    try:
        if case.get("module_content"):
            mod_m.CONTENT = content_object(*case["module_content"])
        for fn in ignoring:
            dr.add_ignore(fn, pal["marker"])
        return _execute_steps(case, steps, history, broker, drv, resp, err)
    finally:
        if hasattr(mod_m, "CONTENT"):
            del mod_m.CONTENT
        for fn in ignoring:
            dr.IGNORE[fn].discard(pal["marker"])
            if not dr.IGNORE[fn]:
                dr.IGNORE.pop(fn, None)


def _execute_steps(case, steps, history, broker, drv, resp, err):
    from insights.core import dr
    for n, desc in enumerate(steps):
        last = n == len(steps) - 1
        graph, disabled = _setup(desc)
        if broker is None or history == "fresh":
            broker = dr.Broker()
            if case.get("marker"):
                broker[_pal()["marker"]] = "marker"
        if drv is None or history != "same-evaluator":
            drv = _Driver(case, broker)
        try:
            for fn in disabled:
                dr.set_enabled(fn, False)
            try:
                r = drv.run(graph)
                if last:
                    resp = r
            except Exception as ex:
                err = "%s: %s" % (type(ex).__name__, ex)
        finally:
            for fn in disabled:
                dr.ENABLED.pop(fn, None)
            _ST["beh"], _ST["dep"] = {}, {}
        if err is not None:
            break
    exc = dict((dr.get_name(k), len(v)) for k, v in broker.exceptions.items() if v)
    in_broker = set(dr.get_name(k) for k in broker.instances if isinstance(k, _Body))
    return {"resp": resp, "exc": exc, "in_broker": in_broker, "err": err}


def selections(case):
    """The acceptable readings of what the options select, as [(shown types, skips shown)].
    Documented by the option help and the comments of get_response_of_types: no -S = every type
    except 'none'; -S = exactly the listed types; skips iff -m.  -F: dropped with -m (help and man
    page agree); otherwise 'fail only' (help) or dropped because a format is in use (man page)."""
    driver = case["driver"]
    if driver in LIVE_DRIVERS:
        return [(set(IMPL_TYPES), True)]
    missing = bool(case.get("missing"))
    show = _impl_show(case)
    plain = (set(show) if show else set(IMPL_TYPES) - {"none"}, missing)
    if case.get("fail_only") and not missing:
        return [(set(["rule"]), missing), plain]
    return [plain]


def check_rules_case(case):
    """-> (violations [(clause, expected, observed, features)], info dict)"""
    obs = _execute(case)
    info = {"located": 0, "shown": 0, "hidden": 0, "places": set(), "ran": len(_ST["calls"]),
            "in_slot_order": _ST["calls"] == sorted(_ST["calls"]) or bool(case.get("before"))}
    driver = case["driver"]
    if obs["err"] is not None or not isinstance(obs["resp"], dict):
        feats = {"driver": driver, "error": obs["err"] if obs["err"] is not None else "output is not a mapping"}
        info["places"].add("error")
        return [("formatter:raises" if driver not in LIVE_DRIVERS else "evaluator:raises",
                 "the driver reports the evaluation", feats["error"], feats)], info
    best = None
    for sel in selections(case):
        out, inf = _judge(case, obs, sel)
        if best is None or not out:
            best = (out, inf)
        if not out:
            break
    info.update(best[1])
    return best[0], info


def _judge(case, obs, sel):
    driver = case["driver"]
    history = case.get("history") if case.get("before") else None
    present = present_rules(case)
    both_steps = set()
    if history == "same-evaluator":
        # one evaluator object = one cumulative report: the rules of both steps are the rules of the evaluation
        mine = set(i for i, _, _ in present)
        both_steps = set(i for i, _, _ in present_rules(case["before"]) if i in mine)
        present = [p for p in present_rules(case["before"]) if p[0] not in mine] + present
    resp, exc = obs["resp"], obs["exc"]
    out = []
    info = {"located": 0, "shown": 0, "hidden": 0, "places": set()}
    types_, skips_shown = sel
    show_all = skips_shown and types_ == set(IMPL_TYPES)
    mode = "accounting" if show_all else "selection"
    names = dict((rule_name(idx), idx) for idx, _, _ in present)
    ignored = set(case.get("ignore") or []) if case.get("marker") else set()
    beh_by_idx = dict((i, b) for i, b, _ in present)

    def feats_of(kind, idx=None, **kw):
        f = {"driver": driver, "kind": kind}
        if idx in ignored:
            f["ignored"] = True
        if idx is not None and content_of_rule(idx, case):
            pl, tn = content_of_rule(idx, case)
            f["content_placement"], f["content_template"] = pl, tn
            f["content_source"] = "kwarg" if idx in CONTENT_OF else "module"
            k0, key0 = _split(beh_by_idx[idx])
            f["template_for_response"] = template_for(pl, tn, k0, key0)
        if history:
            f["history"] = history
            if idx is not None:
                f["rule_in_both_steps"] = idx in both_steps
        f.update(kw)
        return f

    comp_hits, skip_hits, phantom = {}, {}, []
    for heading, val in resp.items():
        if not isinstance(val, list):
            continue
        for e in val:
            if not isinstance(e, dict):
                continue
            if "component" in e:
                tgt, who = comp_hits, e.get("component")
            elif "rule_fqdn" in e:
                tgt, who = skip_hits, e.get("rule_fqdn")
            else:
                continue
            if who in names:
                tgt.setdefault(who, []).append((heading, e))
            else:
                phantom.append([heading, who])
    if phantom:
        out.append(("accounting:phantom-entry", "every entry belongs to a rule of the evaluation", phantom,
                    feats_of("phantom")))
    system = resp.get("system")
    md = system.get("metadata") if isinstance(system, dict) else None

    md_contrib, mk_contrib = [], {}
    md_fields, md_oversize = set(["type"]), False
    for idx, beh, deco in present:
        kind0, key = _split(beh)
        oversize = kind0.startswith("oversize_")
        kind = kind0[len("oversize_"):] if oversize else kind0     # an oversize response is accounted like a small one
        name = rule_name(idx)
        found = ["list:%s" % h for h, _ in comp_hits.get(name, [])]
        found += ["skip:%s" % h for h, _ in skip_hits.get(name, [])]
        if name in exc:
            found.append("exception")
        if isinstance(md, dict) and kind == "metadata" and ("max_detail_length_error" if oversize else "m%d" % idx) in md:
            found.append("metadata")
        found.sort()
        waits_for = None
        if RULES[idx][2] == "on_rule" and rule_name(0) not in obs["in_broker"]:
            waits_for = rule_name(0)               # its dependency (another rule) holds no value: skip entry
        if idx in ignored:
            # registered with add_ignore and the marker is in the broker: a deliberate skip whatever its dependency
            # situation or body - no entry, no skip entry, no exception (and no metadata key)
            expected, hideable = [], False
            if kind == "metadata_key" and _same(resp.get(key), "v%d" % idx):
                found.append("metadata_key")
        elif waits_for is not None or kind in UNMET_KINDS:
            expected = ["skip:skips"] if skips_shown else []
            hideable = True
        elif kind in KEYED or kind == "none":
            type_ = KEYED[kind][0] if kind in KEYED else "none"
            expected = ["list:%s" % HEADING[type_]] if type_ in types_ else []
            hideable = True
        elif kind == "metadata":
            expected = ["metadata"] if "metadata" in types_ else []
            hideable = True
            if oversize:
                md_oversize = True
                md_fields.add("max_detail_length_error")
            else:
                md_contrib.append(idx)
                md_fields.update(["m%d" % idx, "shared"])
        elif kind in ERROR_KINDS:
            expected, hideable = ["exception"], False
        else:                               # metadata_key (checked below), deliberate skip, disabled
            expected, hideable = [], False
            if kind == "metadata_key":
                mk_contrib.setdefault(key, []).append("v%d" % idx)
        if found:
            info["located"] += 1
            info["places"].update(f.split(":")[0] + ":" + kind.split("_")[0] if f.startswith("list") else f for f in found)
        if hideable:
            info["shown" if expected else "hidden"] += 1
        if found != expected:
            if mode == "selection" and hideable and not expected and found:
                clause = "selection:shown-though-unselected"
            elif mode == "selection" and hideable and expected and not found:
                clause = "selection:hidden-though-selected"
            elif not found:
                clause = "accounting:lost"
            elif not expected:
                clause = "accounting:unexpected-outcome"
            elif all(f in found for f in expected):
                clause = "accounting:duplicate"
            else:
                clause = "accounting:wrong-place"
            out.append((clause, {"rule": name, "places": expected}, {"rule": name, "places": found},
                        feats_of(kind0, idx)))
            continue
        # ---- well-formedness of the one entry -------------------------------------------------
        if expected and expected[0].startswith("list:"):
            e = comp_hits[name][0][1]
            want_tags, want_links = DECOS[deco][2], DECOS[deco][3]
            want_key = key if kind in KEYED else "NONE_KEY"
            key_name = KEYED[kind][2] if kind in KEYED else "none_key"
            base = MODS[RULES[idx][0]].rsplit(".", 1)[1]
            got_tags = e.get("tags") or []
            checks = [("key", want_key, e.get("key")),
                      ("type", type_, e.get("type")),
                      ("tags", sorted(want_tags), sorted(got_tags) if isinstance(got_tags, list) else got_tags),
                      ("links", want_links, e.get("links") or {}),
                      ("id", "%s|%s" % (base, want_key), e.get("%s_id" % type_))]
            if "details" in e:
                want_d = {"type": type_, key_name: want_key}
                if oversize:            # the stub keeps only type, key and the offending length
                    want_d = _oversize_stub(idx, want_d)
                elif kind in KEYED:
                    want_d["slot"] = idx
                got_d = dict(e["details"]) if isinstance(e["details"], dict) else e["details"]
                checks.append(("details", want_d, got_d))
            for field, want, got in checks:
                if not _same(want, got):
                    out.append(("entry:%s" % field, {"rule": name, field: want}, {"rule": name, field: got},
                                feats_of(kind0, idx, field=field)))
        elif expected and expected[0].startswith("skip:"):
            e = skip_hits[name][0][1]
            if waits_for is not None:
                m_req, m_any = [waits_for], []
            else:
                dn = dep_names(idx)
                m_req = [dn["req"]] if kind in ("unmet_req", "unmet_both") else []
                m_any = [[dn["alt"], dn["never"]]] if kind in ("unmet_any", "unmet_both") else []
            miss = sorted(m_req + [d for g in m_any for d in g])
            text = e.get("details") if isinstance(e.get("details"), str) else json.dumps(
                dict((k, v) for k, v in e.items() if k != "rule_fqdn"), default=repr, sort_keys=True)
            named = sorted(set(re.findall(r"'([^']*)'", text)))           # exact names, not substrings
            if named != miss:
                out.append(("skip:names-missing-dependencies", {"rule": name, "missing": miss},
                            {"rule": name, "entry": text, "named": named}, feats_of(kind0, idx)))
            attr = getattr(e, "missing", None)          # the live skip object (drivers returning python objects)
            if attr is not None:
                from insights.core import dr
                try:
                    got_m = [[dr.get_name(d) for d in attr[0]], [sorted(dr.get_name(d) for d in g) for g in attr[1]]]
                except Exception as ex:
                    got_m = repr(ex)
                want_m = [m_req, [sorted(g) for g in m_any]]
                if got_m != want_m:
                    out.append(("skip:missing-attribute", {"rule": name, "missing": want_m},
                                {"rule": name, "missing": got_m}, feats_of(kind0, idx)))
        elif expected == ["metadata"] and oversize:
            want_n = _oversize_stub(idx, {"type": "metadata"})["max_detail_length_error"]
            if not _same(md.get("max_detail_length_error"), want_n):
                out.append(("metadata:field-value", {"max_detail_length_error": want_n},
                            {"max_detail_length_error": md.get("max_detail_length_error")}, feats_of(kind0, idx)))
        elif expected == ["metadata"]:
            if not _same(md.get("m%d" % idx), idx):
                out.append(("metadata:field-value", {"m%d" % idx: idx}, {"m%d" % idx: md.get("m%d" % idx)},
                            feats_of(kind0, idx)))
    if md_contrib and "metadata" in types_ and isinstance(md, dict) and \
            not any(_same(md.get("shared"), i) for i in md_contrib):
        out.append(("metadata:shared-field", {"shared": "one of %s" % md_contrib}, {"shared": md.get("shared")},
                    feats_of("metadata")))
    # an oversize metadata response is a stub of type + length: nothing else of it may reach system.metadata
    # (checked only when such a rule is present; a 'type' member is tolerated)
    if md_oversize and "metadata" in types_ and isinstance(md, dict):
        foreign = [k for k in md if k not in md_fields]
        if foreign:
            out.append(("metadata:stub-keeps-only-type-and-length", sorted(md_fields - set(["type"])),
                        sorted(map(repr, md)), feats_of("oversize_metadata")))
    # metadata keys: demanded where nothing filters the response (live drivers; every type selected; or no -S,
    # which only drops the 'none' heading)
    show = _impl_show(case)
    for k, vals in sorted(mk_contrib.items()):
        if not (driver in LIVE_DRIVERS or show_all or (not show and not case.get("fail_only") and k != "none")):
            continue
        if k in SECTION_NAMES:
            continue                         # a key that collides with a heading of the response: not judged (the
                                             # statement does not name metadata_key responses, the collision is the rule author's)
        if not any(_same(resp.get(k), v) for v in vals):
            out.append(("metadata_key:value", {k: "one of %s" % vals}, {k: resp.get(k)},
                        feats_of("metadata_key", key_is_section_name=k in SECTION_NAMES)))
        else:
            info["located"] += 1
            info["places"].add("metadata_key")
    return out, info


# ---- constructors -------------------------------------------------------------------------------

KEY_SHAPES = {"none": None, "empty": "", "str": "K", "int": 5, "bytes": b"K", "list": ["K"],
              "zero": 0, "false": False, "emptylist": [], "space": " ", "pct": "K%s", "uni": "Ké", "quote": "K'\"\\"}
KEY_ORDER = ["none", "empty", "str", "int", "bytes", "list", "zero", "false", "emptylist", "space", "pct", "uni", "quote"]
VALID_KEYS = ("str", "space", "pct", "uni", "quote")
B_CLASSES = ["make_response", "make_fail", "make_pass", "make_info", "make_fingerprint",
             "make_metadata_key", "make_metadata", "make_none"]
LIMIT = 96
FALSY_VALUES = {"v_zero": 0, "v_emptystr": "", "v_emptylist": [], "v_none": None, "v_false": False,
                "v_uni3": "\u00e9\u00e9\u00e9"}          # fixed small values: the falsy ones and a short non-ASCII string
SIZED = ("str", "int", "uni")


def _payload(kind, n):
    if kind in FALSY_VALUES:
        return FALSY_VALUES[kind]
    n = max(n, 1)
    if kind == "str":
        return "a" * n
    if kind == "uni":
        return "é" * n
    return int("1" * n)


def constructor_cases(cls):
    if cls == "make_none":
        yield {"part": "B", "cls": cls}
        yield {"part": "B", "cls": cls, "limit": 0}
        return
    sizes = [LIMIT + d for d in (-2, -1, 0, 1, 2)]

    def payloads(kw):
        for pk in SIZED:
            for L in sizes:
                yield {"kw": kw, "payload": pk, "length": L}
        for pk in sorted(FALSY_VALUES):
            yield {"kw": kw, "payload": pk}
        yield {"kw": kw, "payload": "str", "length": 120, "limit": 0}
    if cls == "make_metadata":
        yield {"part": "B", "cls": cls, "kw": None}
        yield {"part": "B", "cls": cls, "kw": None, "limit": 0}
        for kw in ("type", "x", "Type"):
            for p in payloads(kw):
                yield dict({"part": "B", "cls": cls}, **p)
        return
    if cls == "make_metadata_key":
        for key in KEY_ORDER:
            for p in payloads("value"):
                yield dict({"part": "B", "cls": cls, "key": key}, **p)
        return
    for key in KEY_ORDER:
        yield {"part": "B", "cls": cls, "key": key, "kw": None}
        yield {"part": "B", "cls": cls, "key": key, "kw": None, "limit": 0}
        for kw in ("type", "own", "x", "own_upper", "Type"):
            for p in payloads(kw):
                yield dict({"part": "B", "cls": cls, "key": key}, **p)


def check_constructor_case(case):
    """-> (violations, info)"""
    from insights import settings
    from insights.core import plugins as P
    cls = getattr(P, case["cls"])
    name = case["cls"]
    limit = case.get("limit", LIMIT)
    type_, key_name = cls.response_type, cls.key_name
    key_shape = case.get("key")
    key = KEY_SHAPES[key_shape] if key_shape is not None else None
    kw = case.get("kw")
    feats = {"cls": name, "key": key_shape, "kw": kw, "payload": case.get("payload")}
    out = []
    info = {"outcome": None, "fired": False}

    # the argument set and the dict a well-formed, unabridged response would be
    kwname = {"own": key_name, "value": "value", "own_upper": (key_name or "").upper()}.get(kw, kw)
    retained_kw = kw in ("x", "value", "own_upper", "Type")
    base = {"type": type_}
    if name == "make_none":
        base[key_name] = "NONE_KEY"
    elif key_name:
        base[key_name] = key
    payload = None
    if kw is not None:
        if case.get("length") is None:
            payload = _payload(case["payload"], 0)
        else:
            # size the payload so that len(str(<full response dict>)) is exactly the requested length
            probe = dict(base)
            probe[kwname if retained_kw else "x"] = _payload(case["payload"], 1)
            n = case["length"] - (len(str(probe)) - 1)
            payload = _payload(case["payload"], n)
    full = dict(base)
    if retained_kw:
        full[kwname] = payload
    chars = len(str(full))
    nbytes = len(str(full).encode("utf-8"))
    if retained_kw and case.get("length") is not None and key_shape in (None,) + VALID_KEYS and chars != case["length"]:
        raise RuntimeError("harness: payload sizing is off: %r != %r" % (chars, case["length"]))

    invalid = (key_shape is not None and key_shape not in VALID_KEYS) or kw in ("type", "own")

    saved = settings.defaults["max_detail_length"]
    settings.defaults["max_detail_length"] = limit
    try:
        try:
            if name == "make_none":
                got = cls()
            elif name == "make_metadata":
                got = cls(**({kwname: payload} if kw else {}))
            elif name == "make_metadata_key":
                got = cls(key, payload)
            else:
                got = cls(key, **({kwname: payload} if kw else {}))
            raised = None
        except Exception as ex:
            got, raised = None, type(ex).__name__
    finally:
        settings.defaults["max_detail_length"] = saved

    if raised is not None:
        info["outcome"] = "rejected:%s" % raised
        info["fired"] = True
        if not invalid:
            out.append(("constructor:valid-rejected", "a response", raised, feats))
        return out, info
    if invalid:
        info["outcome"] = "accepted-invalid"
        out.append(("constructor:invalid-accepted", "rejected as an error", dict(got), feats))
        return out, info
    if not isinstance(got, P.Response) or not isinstance(got, dict):
        out.append(("constructor:result-shape", "a Response (dict)", repr(type(got)), feats))
        return out, info
    g = dict(got)
    stubs = []
    for n in sorted(set([chars, nbytes])):
        s = dict(base)
        s["max_detail_length_error"] = n
        stubs.append(s)
    is_stub = any(_same(g, s) for s in stubs)
    is_full = _same(g, full)
    must_stub = chars > limit                    # over the limit in characters, hence also in bytes
    must_keep = nbytes <= limit                  # within the limit in bytes, hence also in characters
    if name == "make_metadata_key":
        # exempt from the limit by an explicit override: kept (the code's choice) or, when oversize, stubbed
        info["outcome"] = "stub" if is_stub and not is_full else "retained"
        if not is_full and not (is_stub and not must_keep):
            out.append(("constructor:kwargs-not-retained", full, g, feats))
        return out, info
    if must_stub:
        info["outcome"], info["fired"] = "stub", True
        if not is_stub:
            out.append(("constructor:oversize-not-stubbed", stubs[0], g, dict(feats, over_by=chars - limit)))
    elif must_keep:
        info["outcome"] = "retained"
        if not is_full:
            out.append(("constructor:kwargs-not-retained", full, g, dict(feats, under_by=limit - nbytes)))
    else:
        info["outcome"] = "stub" if is_stub else "retained"
        if not (is_stub or is_full):
            out.append(("constructor:kwargs-not-retained", full, g, dict(feats, between_chars_and_bytes=True)))
    if key_name and not _same(got.get_key(), base[key_name]):
        out.append(("constructor:get-key", base[key_name], got.get_key(), feats))
    return out, info


# ---- the enumerated spaces ---------------------------------------------------------------------

ALL_SHOWN = {"missing": True, "show": list(IMPL_TYPES)}


def _mixed_symbols(slot):
    return [None] + [[b, SLOT_DECO[slot]] for b in BEHS]


def _full_symbols(slot):
    return [None] + [[b, d] for b in LISTED_BEHS for d in DECO_ORDER] + [[b, "p"] for b in OTHER_BEHS + EXTRA_BEHS]


def _in_mixed_family(rules, mixed_slots):
    return len(rules) <= mixed_slots and all(r is None or (r[1] == SLOT_DECO[i] and r[0] in BEHS)
                                             for i, r in enumerate(rules))


def rule_sets(family, n, c0, lo, hi, mixed_slots):
    """Rule sets of one unit: slot 0 has symbol c0, slot 1 a symbol in [lo, hi), the rest everything.
    The empty set is skipped; the 'full' family skips what the 'mixed' family already contains."""
    sym = _mixed_symbols if family == "mixed" else _full_symbols
    tail = [sym(1)[lo:hi]] + [sym(s) for s in range(2, n)]
    for rest in itertools.product(*tail):
        rules = [sym(0)[c0]] + list(rest)
        if all(r is None for r in rules):
            continue
        if family == "full" and _in_mixed_family(rules, mixed_slots):
            continue
        yield rules


def select_multisets(max_size):
    out = []
    for k in range(1, max_size + 1):
        for combo in itertools.combinations_with_replacement(range(len(SELECT_KINDS)), k):
            out.append([[SELECT_KINDS[i], SLOT_DECO[s]] for s, i in enumerate(combo)])
    return out


def select_options(driver, n_rules):
    """Every (missing, show_rules subset).  The (missing, all six types) combination of the Impl
    drivers is part A's and is not repeated.  The adapters also get every combination together with the
    deprecated -F switch (the YAML adapter only on one-rule sets: the option logic is the shared base
    class's)."""
    opts = []
    for fail_only in ((False, True) if driver == "json-adapter" or (driver == "yaml-adapter" and n_rules == 1)
                      else (False,)):
        for missing in (False, True):
            for k in range(len(IMPL_TYPES) + 1):
                for sub in itertools.combinations(IMPL_TYPES, k):
                    if driver in ("json", "yaml") and missing and len(sub) == len(IMPL_TYPES):
                        continue
                    o = {"missing": missing, "show": list(sub)}
                    if fail_only:
                        o["fail_only"] = True
                    opts.append(o)
    return opts


def wide_sets():
    """10, 11, 12 rules with one behaviour each (all the same), and 12 rules failing with K1 except one."""
    for n in (10, 11, 12):
        for b in BEHS:
            yield [[i, b] for i in WIDE[:n]], True
    for pos in range(12):
        for b in BEHS:
            if b != "fail:K1":
                yield [[i, (b if k == pos else "fail:K1")] for k, i in enumerate(WIDE)], False


def small_cases(tier):
    """Families D, T, K, H (rule-set descriptors with their driver); same in both tiers."""
    def with_drivers(desc, drivers=A_DRIVERS):
        for d in drivers:
            c = dict(desc, driver=d)
            if d not in LIVE_DRIVERS:
                c.update(ALL_SHOWN)
            yield c
    # D: a rule that depends on a rule
    for bx in BEHS:
        for by in ("fail:K1", "none", "raise", "metadata"):
            for c in with_drivers({"part": "D", "rules": [[bx, "p"]], "extra": [[YDEP, by]]}):
                yield c
    # T: declaration shapes and odd keys
    for b in ("fail:K1", "fail:" + ODD_KEY, "pass:" + ODD_KEY, "none", "metadata_key:" + ODD_KEY):
        for idx in [NODEPS] + sorted(SHAPED):
            for c in with_drivers({"part": "T", "rules": [], "extra": [[idx, b]]}):
                yield c
        for c in with_drivers({"part": "T", "rules": [[b, "tl"], [b, "tl"]]}):
            yield c
    # K: metadata keys named like the sections of the response
    for name in SECTION_NAMES:
        for partner in (None, "fail:K1", "pass:K1", "info:K1", "none", "unmet_req"):
            rules = [["metadata_key:" + name, "p"], [partner, "tl"] if partner else None]
            for c in with_drivers({"part": "K", "rules": rules}):
                yield c
    # I: rules registered with dr.add_ignore x marker in the broker or not x every behaviour / dependency situation
    for bx in BEHS:
        for marker in (True, False):
            for rules, ignore, extra in (([[bx, "p"], None], [0], []), ([[bx, "p"], ["fail:K1", "tl"]], [0], []),
                                         ([[bx, "p"], ["fail:K1", "tl"]], [0, 1], []),
                                         ([["fail:K1", "p"], [bx, "tl"]], [1], []),
                                         ([[bx, "p"]], [0], [[YDEP, "fail:K1"]])):
                desc = {"part": "I", "rules": rules, "ignore": ignore, "marker": marker}
                if extra:
                    desc["extra"] = extra
                for c in with_drivers(desc):
                    yield c
    # H: two-step histories in one process
    for bx in BEHS:
        for by in BEHS:                      # fresh broker and evaluator: the second case must not see the first
            for d in ("single-serial", "json"):
                c = {"part": "H", "history": "fresh", "before": {"rules": [[bx, "p"]]}, "rules": [[by, "p"]], "driver": d}
                if d == "json":
                    c.update(ALL_SHOWN)
                yield c
        for by in ("fail:K1", "none", "unmet_req", "raise", "metadata"):
            for history in ("same-broker", "same-evaluator"):
                for second in ([[bx, "p"], [by, "tl"]], [None, [by, "tl"]]):
                    if history == "same-broker" and second[0] is None:
                        continue             # a new evaluator does not report what only the old graph contained
                    if history == "same-evaluator" and second[0] is not None:
                        continue             # an evaluator accumulates by design: re-evaluating the SAME rule on one
                                             # evaluator object is outside the statement (its quantifier has no histories)
                    for d in ("single-serial", "insights-serial", "json", "yaml"):
                        c = {"part": "H", "history": history, "before": {"rules": [[bx, "p"]]}, "rules": second, "driver": d}
                        if d not in LIVE_DRIVERS:
                            c.update(ALL_SHOWN)
                        yield c


C_DRIVERS = ["json-render", "json-adapter-render", "yaml-render", "json", "single-serial"]
C_MODULE_BEHS = LISTED_BEHS + ["metadata", "raise", "unmet_req", "skip"]
C_SHARDS = 16


def content_cases(tier):
    """Family C: rules that declare a content template, through the drivers that render content (JsonFormat with
    render_content, the JSON adapter with -r, YamlFormat with render_content) and two that do not (controls).
      C1  every (placement, template) content= declaration x every behaviour x {alone, after a plain rule, before a
          rule with a valid template}
      CP  every ordered pair of templates (first as a string, second looked up by key) x behaviours of both
      CM  every (placement, template) as the module's CONTENT x behaviour of a rule without content= x {alone, with a
          second such rule, with a rule of the module that declares a valid / an uncompilable template itself}"""
    def with_drivers(desc):
        # the two drivers that never look at content are controls: family C1 only
        for d in (C_DRIVERS if desc["sub"] == "C1" else [x for x in C_DRIVERS if x.endswith("-render")]):
            c = dict(desc, driver=d)
            if d not in LIVE_DRIVERS:
                c.update(ALL_SHOWN)
            yield c
    for idx in sorted(i for i in CONTENT_OF if i not in (GK, GB)):
        for b in BEHS:
            for rules, extra in (([], [[idx, b]]), ([None, ["fail:K1", "tl"]], [[idx, b]]),
                                 ([], [[idx, b], [GK, "pass:K1"]])):
                for c in with_drivers({"part": "C", "sub": "C1", "rules": rules, "extra": extra}):
                    yield c
    nt = len(TEMPLATE_ORDER)
    for t1 in range(nt):
        for t2 in range(nt):
            i1 = CONTENT_BASE + PLACEMENTS.index("str") * nt + t1
            i2 = CONTENT_BASE + PLACEMENTS.index("by-key") * nt + t2
            for b1 in ("fail:K1", "pass:K1", "none", "unmet_req"):
                for b2 in ("fail:K1", "info:K1", "fingerprint:K1"):
                    for c in with_drivers({"part": "C", "sub": "CP", "rules": [], "extra": [[i1, b1], [i2, b2]]}):
                        yield c
    for pl in PLACEMENTS:
        for tn in TEMPLATE_ORDER:
            for b in C_MODULE_BEHS:
                for extra in ([[G0, b]], [[G0, b], [G1, "pass:K1"]], [[G0, b], [GK, "fail:K1"]],
                              [[G0, b], [GB, "fail:K1"]]):
                    for c in with_drivers({"part": "C", "sub": "CM", "rules": [], "extra": extra,
                                           "module_content": [pl, tn]}):
                        yield c


def templated_rules(case):
    """Number of rules of the case whose response is assigned a (truthy) template by a content declaration."""
    n = 0
    for idx, beh, _ in present_rules(case):
        co = content_of_rule(idx, case)
        if co:
            kind, key = _split(beh)
            t = template_for(co[0], co[1], kind, key)
            if t is not None and TEMPLATES[t]:
                n += 1
    return n


def units(tier, seed):
    b = BOUNDS[tier]
    us = []
    for i in range(C_SHARDS):
        us.append({"part": "C", "shard": i, "of": C_SHARDS})
    for family, n in (("mixed", b["mixed_slots"]), ("full", b["full_slots"])):
        nsym0 = len(_mixed_symbols(0) if family == "mixed" else _full_symbols(0))
        nsym1 = len(_mixed_symbols(1) if family == "mixed" else _full_symbols(1))
        per_unit = 2000 if tier == "thorough" else 250             # rule sets per unit, roughly
        tail = 1
        for s in range(2, n):
            tail *= len(_mixed_symbols(s) if family == "mixed" else _full_symbols(s))
        step = max(1, min(nsym1, per_unit // max(1, tail)))
        for c0 in range(nsym0):
            for lo in range(0, nsym1, step):
                us.append({"part": "A", "family": family, "n": n, "c0": c0, "lo": lo, "hi": min(nsym1, lo + step)})
    for driver in S_DRIVERS:
        nms = len(select_multisets(b["select_multiset_max"][driver]))
        step = 8 if driver.startswith("yaml") else 24
        for lo in range(0, nms, step):
            us.append({"part": "S", "driver": driver, "lo": lo, "hi": min(nms, lo + step)})
    for i in range(4):
        us.append({"part": "W", "shard": i, "of": 4})
    for i in range(8):
        us.append({"part": "small", "shard": i, "of": 8})
    for cls in B_CLASSES:
        us.append({"part": "B", "cls": cls})
    return us


def unit_weight(u):
    if u["part"] == "A":
        return 5
    if u["part"] == "S":
        return 4 if u["driver"].startswith("yaml") else 2
    # the small families (W, D/T/K/I/H, B, C: 36 short units, each the only home of its dimension) go first, so that
    # a run cut by the wall-clock cap on an overloaded machine loses a slice of family A rather than a whole family
    return 6


# ---- exploration -------------------------------------------------------------------------------

def _record(res, case, vio, nontrivial, outcome):
    res.case(nontrivial=nontrivial, outcome=outcome)
    for v in vio:
        clause, exp, got = v[0], v[1], v[2]
        feats = v[3] if len(v) > 3 else {}
        res.violation(clause, case, _safe(exp), _safe(got), feats)


def run_unit(unit, tier):
    res = Result()
    b = BOUNDS[tier]
    part = unit["part"]
    if part == "A":
        n_sets = 0
        for rules in rule_sets(unit["family"], unit["n"], unit["c0"], unit["lo"], unit["hi"], b["mixed_slots"]):
            n_sets += 1
            n_present = sum(1 for r in rules if r is not None)
            for driver in A_DRIVERS:
                if driver in SECONDARY_DRIVERS and n_present > b["secondary_driver_max_rules_part_a"]:
                    continue            # these share handle_result with SingleEvaluator / JsonFormat
                case = {"part": "A", "rules": rules, "driver": driver}
                if driver not in LIVE_DRIVERS:
                    case.update(ALL_SHOWN)
                vio, info = check_rules_case(case)
                _record(res, case, vio, info["located"] >= 2, "A:" + ",".join(sorted(info["places"])))
                res.stat("rule_bodies_run", info["ran"])
                res.stat("cases_bodies_not_run_in_slot_order", 0 if info["in_slot_order"] else 1)
                res.maxi("max_rules_located_in_one_case", info["located"])
        res.stat("rule_sets_%s" % unit["family"], n_sets)
        if n_sets:
            res.samples.append({"part": "A", "rules": rules, "driver": "json", "missing": True, "show": list(IMPL_TYPES)})
        return res
    if part == "S":
        driver = unit["driver"]
        ms = select_multisets(b["select_multiset_max"][driver])[unit["lo"]:unit["hi"]]
        nopts = 0
        for rules in ms:
            opts = select_options(driver, len(rules))
            nopts = max(nopts, len(opts))
            for o in opts:
                case = {"part": "S", "rules": rules, "driver": driver}
                case.update(o)
                vio, info = check_rules_case(case)
                _record(res, case, vio, info["shown"] >= 1 and info["hidden"] >= 1,
                        "S:%s" % ("error" if "error" in info["places"] else "%d:%d" % (info["shown"], info["hidden"])))
        res.stat("select_rule_sets_%s" % driver, len(ms))
        res.maxi("select_options_%s" % driver, nopts)
        if ms:
            res.samples.append(dict({"part": "S", "rules": ms[0], "driver": driver}, **opts[len(opts) // 3]))
        return res
    if part == "W":
        k = 0
        for extra, uniform in wide_sets():
            k += 1
            if k % unit["of"] != unit["shard"]:
                continue
            for driver in A_DRIVERS:
                if driver in ("yaml", "json-render") and not uniform:
                    continue
                case = {"part": "W", "rules": [], "extra": extra, "driver": driver}
                if driver not in LIVE_DRIVERS:
                    case.update(ALL_SHOWN)
                vio, info = check_rules_case(case)
                _record(res, case, vio, info["located"] >= 2, "W:" + ",".join(sorted(info["places"])))
                res.stat("cases_bodies_not_run_in_slot_order", 0 if info["in_slot_order"] else 1)
                res.maxi("max_rules_located_in_one_case", info["located"])
            res.stat("rule_sets_wide", 1)
        return res
    if part == "small":
        for k, case in enumerate(small_cases(tier)):
            if k % unit["of"] != unit["shard"]:
                continue
            vio, info = check_rules_case(case)
            nontrivial = info["located"] >= 2 if case["part"] in ("D", "H") else \
                (bool(case.get("marker")) if case["part"] == "I" else True)
            _record(res, case, vio, nontrivial, "%s:%s" % (case["part"], ",".join(sorted(info["places"]))))
            res.stat("cases_family_%s" % case["part"], 1)
            if k < unit["of"]:
                res.samples.append(case)
        return res
    if part == "C":
        for k, case in enumerate(content_cases(tier)):
            if k % unit["of"] != unit["shard"]:
                continue
            vio, info = check_rules_case(case)
            renders = case["driver"].endswith("-render")
            _record(res, case, vio, renders and templated_rules(case) >= 1,
                    "%s:%s:%s" % (case["sub"], "r" if renders else "-", ",".join(sorted(info["places"]))))
            res.stat("cases_family_%s" % case["sub"], 1)
            res.stat("cases_bodies_not_run_in_slot_order", 0 if info["in_slot_order"] else 1)
            if k < unit["of"] and k % 5 == 0:
                res.samples.append(case)
        return res
    if part == "B":
        for case in constructor_cases(unit["cls"]):
            vio, info = check_constructor_case(case)
            _record(res, case, vio, info["fired"], "B:%s:%s" % (unit["cls"], info["outcome"]))
        res.samples.append(case)
        return res
    raise ValueError(part)


def replay(case):
    if case.get("part") == "B":
        vio, _ = check_constructor_case(case)
    else:
        vio, _ = check_rules_case(case)
    return [{"clause": v[0], "case": case, "expected": _safe(v[1]), "observed": _safe(v[2]),
             "features": v[3] if len(v) > 3 else {}}
            for v in vio]
