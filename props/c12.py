"""C12 - every evaluated rule yields exactly one well-formed, accounted outcome.

Part A (rule sets).  A fixed palette of real ``@rule``-decorated functions (4 slots x 4 decorations,
two synthetic modules, created once per process) whose bodies are driven by a per-case table.  A
case assigns a behaviour (or "absent") to every slot, picks a driver and the formatter options, runs
the real evaluator / formatter and locates every rule in the result by a counting argument:

    listed type (fail, pass, info, fingerprint, none)  -> exactly one entry, under the heading of
                                                          its type, carrying key / component / tags /
                                                          links / <type>_id as declared
    metadata                                           -> its fields in system.metadata
    unmet dependency                                   -> exactly one entry in ``skips`` naming the
                                                          missing dependencies
    raise / non-Response return / invalid response     -> broker.exceptions
    deliberate skip, disabled                          -> nowhere

and the formatter shows exactly the types its options select.

Part B (constructors).  Every response class x key shape x keyword name x payload size around a
patched ``max_detail_length``.

Weaker readings taken on purpose (the statement is loose there):
  * ``make_metadata_key`` is not among the statement's types: only "its value is visible at top level
    of an unfiltered response, and it is in no list / skips / exceptions" is demanded; when two rules
    use the same metadata key (or the same metadata field) either value is accepted.
  * an empty-string key may be rejected or accepted (the code documents it as "missing", the
    statement says "missing or non-string").
  * "rejected as an error" = the constructor raises an ``Exception`` (any class; the code raises
    ``ValidationException``); inside a rule that means an entry in ``broker.exceptions``.
  * ``make_metadata_key`` overrides ``adjust_for_length`` on purpose: for it an oversize value may
    be kept or stubbed.
  * ``links`` of a rule declared without links may be reported as ``{}`` or ``None``; extra keys in a
    report entry are allowed; a heading that is selected but empty may be present or absent.
  * the size of the details is what the code documents: ``len(str(<response dict>))``; "exceeds"
    is strict.
"""
import argparse
import io
import itertools
import json
import sys
import types

from mc.result import Result

ID = "C12"
LEVEL = "exploration"
RULE = ("Part A: every assignment of {absent, 22 behaviours (incl. required / at-least-one / both kinds of dependency missing)} to 3 (quick) / 4 (thorough) rule slots with slot-fixed "
        "decorations, plus every assignment over the full behaviour x {no tags/links, tag, link, both} alphabet (+ an oversize fail and an oversize metadata response) to "
        "2 / 3 slots, each run through SingleEvaluator serial + incremental, JsonFormat (plain, render_content) and "
        "YamlFormat (quick: rule sets of <= 2 rules) with everything shown; Part S: every multiset of <= 3 / <= 4 outcome kinds x every "
        "(missing, show_rules subset) x {JsonFormat, YamlFormat, JsonFormatterAdapter, YamlFormatterAdapter}; "
        "Part B: every response class x key shape x kwarg name x payload kind x size limit-2..limit+2. "
        "Non-trivial: A = at least two rules of the case were located in the result; S = the options hid at least "
        "one rule and showed at least one; B = validation or the length limit fired")
ASSUMPTIONS = [
    "rules of one case have no dependencies on each other; rule bodies are callables decorated by the real @rule "
    "whose hash is their slot number, so the engine runs them in slot order in every process (measured: counter "
    "cases_bodies_not_run_in_slot_order); the oracle is order-insensitive and every behaviour visits every slot, so "
    "every sequence of behaviours is executed",
    "components are a palette created once per process; behaviours come from a table that is rebuilt for every "
    "case, dr.ENABLED is restored after every case; nothing else in the dr registries is touched",
    "the default stdout sink of a formatter built by an adapter is replaced by a buffer; any other sink is left "
    "alone",
    "the empty rule set is excluded (an empty graph makes dr.run fall back to every registered component)",
    "bounded: no counterexample within the stated alphabets, nothing more",
]
BOUNDS = {
    "quick": {"mixed_slots": 3, "full_slots": 2, "behaviours": 23, "full_family_extra_behaviours": 2, "decorations": 4, "yaml_max_rules_part_a": 2,
              "select_multiset_max": {"json": 3, "json-adapter": 2, "yaml": 2, "yaml-adapter": 2},
              "select_options": 128, "constructor_limit": 64, "constructor_sizes": "limit-2..limit+2"},
    "thorough": {"mixed_slots": 4, "full_slots": 3, "behaviours": 23, "full_family_extra_behaviours": 2, "decorations": 4, "yaml_max_rules_part_a": 4,
                 "select_multiset_max": {"json": 4, "json-adapter": 4, "yaml": 4, "yaml-adapter": 3},
                 "select_options": 128, "constructor_limit": 64, "constructor_sizes": "limit-2..limit+2"},
}
CAP_S = {"quick": 150, "thorough": 1800}
TECHNIQUE = ("bounded exhaustive enumeration of rule sets x drivers x formatter options executed against the real "
             "evaluator and formatters; counting-argument oracle locating every rule in the output")
LEVEL_TEXT = ("Every rule set of <= 3 (quick) / <= 4 (thorough) rules over an alphabet with one symbol per kind of return "
              "value / dependency situation (shared keys, types, modules) is evaluated with every evaluator-based driver, "
              "and every (missing, show_rules) option combination is applied to every multiset of outcome kinds; every "
              "response constructor is called with every key shape, reserved name and payload size around the limit. "
              "The statement is 'no counterexample within the bound'.")
LEVEL_NOTE = ("Trusted: the harness' own locating of rules in the parsed JSON / YAML output (YAML python tags are read as "
              "plain data); one execution order per rule set (slot order; all behaviour sequences are covered by the tuples); other formatters "
              "(text, html, markdown, syslog, junit) do not derive from the evaluator and are out of scope.")

# ---- alphabets ---------------------------------------------------------------------------------

PKG = "verif_c12"
MOD = {"A": PKG + ".alpha", "B": PKG + ".beta"}
SLOTS = [("A", "r0"), ("A", "r1"), ("B", "r0"), ("B", "r1")]     # slot -> (module, simple-name stem)
LINKS = {"kcs": ["https://access.example.com/solutions/1"]}
DECOS = {"p": ([], None), "t": (["t1"], None), "l": ([], LINKS), "tl": (["t1"], LINKS)}
DECO_ORDER = ["p", "t", "l", "tl"]
SLOT_DECO = ["p", "tl", "t", "l"]                                # decoration of slot i in the "mixed" family

KEYED = {"fail": ("rule", "make_fail", "error_key"), "pass": ("pass", "make_pass", "pass_key"),
         "info": ("info", "make_info", "info_key"), "fingerprint": ("fingerprint", "make_fingerprint", "fingerprint_key")}
HEADING = {"rule": "reports", "fingerprint": "fingerprints", "pass": "pass", "info": "info", "none": "none"}
LISTED_BEHS = ["fail:K1", "fail:K2", "pass:K1", "pass:K2", "info:K1", "info:K2",
               "fingerprint:K1", "fingerprint:K2", "none"]
OTHER_BEHS = ["metadata", "metadata_key:K1", "metadata_key:K2", "nonresp_dict", "nonresp_str", "nonresp_zero",
              "raise", "invalid", "skip", "unmet_req", "unmet_any", "unmet_both", "disabled"]
BEHS = LISTED_BEHS + OTHER_BEHS                                  # 22 + "absent" = 23 symbols per slot
# responses just over the *configured* max_detail_length flowing through the evaluator ('full' family only)
OVERSIZE_BEHS = ["oversize_fail:K1", "oversize_metadata"]
UNMET_KINDS = ("unmet_req", "unmet_any", "unmet_both")
ERROR_KINDS = ("nonresp_dict", "nonresp_str", "nonresp_zero", "raise", "invalid")
SELECT_KINDS = ["fail:K1", "pass:K1", "info:K1", "fingerprint:K1", "none", "metadata", "metadata_key:K1",
                "unmet_req", "raise"]                            # one representative per place in the output
IMPL_TYPES = ["rule", "info", "pass", "none", "metadata", "fingerprint"]     # values of show_rules at the Impl level
CLI_OF = {"rule": "fail"}                                                  # '-S fail' is spelt 'rule' at the Impl level
A_DRIVERS = ["single-serial", "single-incremental", "json", "json-render", "yaml"]
S_DRIVERS = ["json", "json-adapter", "yaml", "yaml-adapter"]

_ST = {"beh": {}, "dep": {}, "calls": []}
_PAL = None


def _split(beh):
    kind, _, key = beh.partition(":")
    return kind, (key or None)


def rule_name(slot, deco):
    m, stem = SLOTS[slot]
    return "%s.%s_%s" % (MOD[m], stem, deco)


def dep_names(slot):
    m = SLOTS[slot][0]
    return {"req": "%s.req%d" % (MOD[m], slot), "alt": "%s.alt%d" % (MOD[m], slot), "never": "%s.never" % MOD[m]}


# ---- the palette of real components -----------------------------------------------------------

def _oversize_kwargs(slot):
    """Keyword arguments whose rendering alone is one character over the configured limit."""
    from insights import settings
    return {"slot": slot, "pad": "a" * (int(settings.defaults["max_detail_length"]) + 1)}


def _oversize_stub(slot, base):
    full = dict(_oversize_kwargs(slot))
    full.update(base)
    stub = dict(base)
    stub["max_detail_length_error"] = len(str(full))
    return stub


def _safe(x):
    """JSON-safe rendering of expected / observed values (non-string keys, bytes, objects -> repr)."""
    if isinstance(x, dict):
        return dict((k if isinstance(k, str) else "<%r>" % (k,), _safe(v)) for k, v in x.items())
    if isinstance(x, (list, tuple, set, frozenset)):
        return [_safe(v) for v in x]
    if x is None or isinstance(x, (str, int, float, bool)):
        return x
    return repr(x)


def _act(slot):
    from insights.core import plugins as P
    from insights.core.exceptions import SkipComponent
    beh = _ST["beh"].get(slot)
    kind, key = _split(beh) if beh else (None, None)
    if kind in KEYED:
        return getattr(P, KEYED[kind][1])(key, slot=slot)
    if kind == "metadata":
        return P.make_metadata(**{"m%d" % slot: slot, "shared": slot})
    if kind == "oversize_fail":
        return P.make_fail(key, **_oversize_kwargs(slot))
    if kind == "oversize_metadata":
        return P.make_metadata(**_oversize_kwargs(slot))
    if kind == "metadata_key":
        return P.make_metadata_key(key, "v%d" % slot)
    if kind == "none":
        return None
    if kind == "nonresp_dict":
        return {"type": "rule", "error_key": "K1", "slot": slot}      # response-shaped, but not a Response
    if kind == "nonresp_str":
        return "K1"
    if kind == "nonresp_zero":
        return 0
    if kind == "raise":
        raise ValueError("rule body failed")
    if kind == "invalid":
        return P.make_pass(5, slot=slot)                             # non-string key: the constructor must refuse
    if kind == "skip":
        raise SkipComponent("deliberate skip")
    # unmet_*, disabled, or no table entry: the engine must not have invoked this body at all
    return P.make_info("BODY_RAN_UNEXPECTEDLY", slot=slot)


class _Body(object):
    """The body of a palette rule: a callable decorated by the real ``@rule``.  Its hash is the slot
    number, so the engine's set iteration (toposort levels, subgraph frontier) visits the rules of a
    case in slot order in every process - an order-dependent defect then reproduces from the case
    descriptor alone.  (Plain functions hash by address.)"""

    def __init__(self, slot, name, module):
        self.slot = slot
        self.__name__ = self.__qualname__ = name
        self.__module__ = module
        self.__doc__ = None

    def __call__(self, req, alt, never):
        _ST["calls"].append(self.slot)
        return _act(self.slot)

    def __hash__(self):
        return self.slot + 1

    def __eq__(self, other):
        return self is other

    def __ne__(self, other):
        return self is not other

    def __repr__(self):
        return "<rule %s.%s>" % (self.__module__, self.__name__)


def _pal():
    """Creates (once per process) the synthetic modules, the dependency components and one real
    @rule-decorated callable per (slot, decoration).  Rule i is declared ``@rule(req_i, [alt_i, never_M])``:
    never_M always skips (shared by the slots of a module, which also joins them into one subgraph
    for the incremental driver), req_i / alt_i are present unless the case table says otherwise."""
    global _PAL
    if _PAL is not None:
        return _PAL
    from insights.core import dr
    from insights.core.plugins import rule, component
    from insights.core.exceptions import SkipComponent
    pkg = types.ModuleType(PKG)
    pkg.__path__ = []
    sys.modules[PKG] = pkg
    mods = {}
    for m, name in MOD.items():
        mod = types.ModuleType(name)
        sys.modules[name] = mod
        setattr(pkg, name.rsplit(".", 1)[1], mod)
        mods[m] = mod

    def mkdep(m, full, always_absent=False):
        name = full.rsplit(".", 1)[1]

        def f():
            if always_absent or not _ST["dep"].get(full, True):
                raise SkipComponent("absent by case table")
            return full
        f.__name__ = f.__qualname__ = name
        f.__module__ = MOD[m]
        setattr(mods[m], name, f)
        return component()(f)

    def mkrule(slot, deco, req, alt, never):
        m = SLOTS[slot][0]
        f = _Body(slot, rule_name(slot, deco).rsplit(".", 1)[1], MOD[m])
        setattr(mods[m], f.__name__, f)
        tags, links = DECOS[deco]
        kw = {}
        if tags:
            kw["tags"] = list(tags)
        if links:
            kw["links"] = dict((k, list(v)) for k, v in links.items())
        return rule(req, [alt, never], **kw)(f)

    never = dict((m, mkdep(m, "%s.never" % MOD[m], True)) for m in MOD)
    rules, graphs = {}, {}
    for slot in range(len(SLOTS)):
        m = SLOTS[slot][0]
        dn = dep_names(slot)
        req, alt = mkdep(m, dn["req"]), mkdep(m, dn["alt"])
        for deco in DECO_ORDER:
            fn = mkrule(slot, deco, req, alt, never[m])
            rules[(slot, deco)] = fn
            graphs[(slot, deco)] = dr.get_dependency_graph(fn)
    _PAL = {"rules": rules, "graphs": graphs}
    return _PAL


# ---- running one case --------------------------------------------------------------------------

_YAML_LOADER = None


def _yaml_load(text):
    """Reads the YAML document as plain data: python object tags become their dict items / lists /
    names, so nothing is imported or constructed from the document."""
    global _YAML_LOADER
    import yaml
    if _YAML_LOADER is None:
        base = getattr(yaml, "CSafeLoader", yaml.SafeLoader)

        class Loader(base):
            pass

        def plain(loader, suffix, node):
            if isinstance(node, yaml.MappingNode):
                m = loader.construct_mapping(node, deep=True)
                if suffix.startswith("object/new:") or suffix.startswith("object/apply:"):
                    return m.get("dictitems") or {}
                return m
            if isinstance(node, yaml.SequenceNode):
                return loader.construct_sequence(node, deep=True)
            return suffix
        Loader.add_multi_constructor("tag:yaml.org,2002:python/", plain)
        _YAML_LOADER = Loader
    return yaml.load(text, Loader=_YAML_LOADER)


def _impl_show(case):
    return list(case.get("show") or [])


def _execute(case):
    """Runs the driver of the case on a fresh broker. -> (response or None, exceptions-by-name, error or None)"""
    from insights.core import dr
    pal = _pal()
    rules = case["rules"]
    driver = case["driver"]
    missing = bool(case.get("missing"))
    show = _impl_show(case)
    _ST["beh"], _ST["dep"], _ST["calls"] = {}, {}, []
    graph = {}
    disabled = []
    for slot, r in enumerate(rules):
        if r is None:
            continue
        beh, deco = r
        kind = _split(beh)[0]
        fn = pal["rules"][(slot, deco)]
        _ST["beh"][slot] = beh
        if kind == "unmet_req":
            _ST["dep"][dep_names(slot)["req"]] = False
        elif kind == "unmet_any":
            _ST["dep"][dep_names(slot)["alt"]] = False
        elif kind == "unmet_both":
            _ST["dep"][dep_names(slot)["req"]] = False
            _ST["dep"][dep_names(slot)["alt"]] = False
        elif kind == "disabled":
            disabled.append(fn)
        for k, v in pal["graphs"][(slot, deco)].items():
            graph.setdefault(k, set()).update(v)
    if not graph:
        raise ValueError("the empty rule set is outside the space (dr.run would fall back to every component)")
    broker = dr.Broker()
    resp, err = None, None
    try:
        for fn in disabled:
            dr.set_enabled(fn, False)
        try:
            resp = _drive(driver, broker, graph, missing, show, case)
        except Exception as ex:
            err = "%s: %s" % (type(ex).__name__, ex)
    finally:
        for fn in disabled:
            dr.ENABLED.pop(fn, None)
        _ST["beh"], _ST["dep"] = {}, {}
    exc = dict((dr.get_name(k), len(v)) for k, v in broker.exceptions.items() if v)
    return resp, exc, err


def _drive(driver, broker, graph, missing, show, case):
    from insights.core import dr
    if driver == "single-serial" or driver == "single-incremental":
        from insights.core.evaluators import SingleEvaluator
        ev = SingleEvaluator(broker, stream=io.StringIO(), incremental=(driver == "single-incremental"))
        return ev.process(graph)
    buf = io.StringIO()
    if driver in ("json", "json-render"):
        from insights.formats._json import JsonFormat
        fmt = JsonFormat(broker, missing, driver == "json-render", show, stream=buf)
        with fmt:
            dr.run(graph, broker=broker)
        return json.loads(buf.getvalue())
    if driver == "yaml":
        from insights.formats._yaml import YamlFormat
        fmt = YamlFormat(broker, missing, show, stream=buf)
        with fmt:
            dr.run(graph, broker=broker)
        return _yaml_load(buf.getvalue())
    if driver in ("json-adapter", "yaml-adapter"):
        # the way insights.run() uses a formatter: Adapter(args); preprocess(broker); run; postprocess(broker)
        if driver == "json-adapter":
            from insights.formats._json import JsonFormatterAdapter as Adapter, JsonFormat as Impl
        else:
            from insights.formats._yaml import YamlFormatterAdapter as Adapter, YamlFormat as Impl
        cli = [CLI_OF.get(t, t) for t in show] or None
        args = argparse.Namespace(missing=missing, render_content=False, show_rules=cli, fail_only=False,
                                  plugins=None)
        ad = Adapter(args)
        ad.preprocess(broker)
        import inspect
        default_sink = inspect.signature(Impl.__init__).parameters["stream"].default   # the sys.stdout captured by the signature
        if ad.formatter.stream is default_sink:
            ad.formatter.stream = buf                          # only the default sink is redirected
        dr.run(graph, broker=broker)
        ad.postprocess(broker)
        text = buf.getvalue()
        return json.loads(text) if driver == "json-adapter" else _yaml_load(text)
    raise ValueError(driver)


def shown_types(case):
    """What the options select, as documented by the option help and the comments of
    get_response_of_types: no -S = every type except 'none'; -S = exactly the listed types;
    skips iff -m."""
    driver = case["driver"]
    if driver.startswith("single"):
        return set(IMPL_TYPES), True
    missing = bool(case.get("missing"))
    show = _impl_show(case)
    if not show:
        return set(IMPL_TYPES) - {"none"}, missing
    return set(show), missing


def _is_show_all(case):
    types_, skips = shown_types(case)
    return skips and types_ == set(IMPL_TYPES)


def check_rules_case(case):
    """-> (violations [(clause, expected, observed, features)], info dict)"""
    rules = case["rules"]
    driver = case["driver"]
    present = [(slot, r[0], r[1]) for slot, r in enumerate(rules) if r is not None]
    resp, exc, err = _execute(case)
    out = []
    info = {"located": 0, "shown": 0, "hidden": 0, "places": set(), "ran": len(_ST["calls"]),
            "in_slot_order": _ST["calls"] == sorted(_ST["calls"])}
    if err is not None or not isinstance(resp, dict):
        feats = {"driver": driver, "error": err if err is not None else "output is not a mapping"}
        out.append(("formatter:raises" if not driver.startswith("single") else "evaluator:raises",
                    "the driver reports the evaluation", feats["error"], feats))
        info["places"].add("error")
        return out, info
    types_, skips_shown = shown_types(case)
    mode = "accounting" if _is_show_all(case) else "selection"
    names = dict((rule_name(slot, deco), slot) for slot, _, deco in present)

    comp_hits, skip_hits, phantom = {}, {}, []
    for heading, val in resp.items():
        if not isinstance(val, list):
            continue
        for e in val:
            if not isinstance(e, dict):
                continue
            if "component" in e:
                tgt, who = comp_hits, e.get("component")
            elif "rule_fqdn" in e:
                tgt, who = skip_hits, e.get("rule_fqdn")
            else:
                continue
            if who in names:
                tgt.setdefault(who, []).append((heading, e))
            else:
                phantom.append([heading, who])
    if phantom:
        out.append(("accounting:phantom-entry", "every entry belongs to a rule of the evaluation", phantom,
                    {"driver": driver}))
    system = resp.get("system")
    md = system.get("metadata") if isinstance(system, dict) else None

    md_contrib, mk_contrib = [], {}
    md_fields, md_oversize = set(["type"]), False
    for slot, beh, deco in present:
        kind0, key = _split(beh)
        oversize = kind0.startswith("oversize_")
        kind = kind0[len("oversize_"):] if oversize else kind0     # an oversize response is accounted like a small one
        name = rule_name(slot, deco)
        found = ["list:%s" % h for h, _ in comp_hits.get(name, [])]
        found += ["skip:%s" % h for h, _ in skip_hits.get(name, [])]
        if name in exc:
            found.append("exception")
        if isinstance(md, dict) and ("max_detail_length_error" if oversize else "m%d" % slot) in md and \
                (kind == "metadata" or not oversize):
            found.append("metadata")
        found.sort()
        if kind in KEYED or kind == "none":
            type_ = KEYED[kind][0] if kind in KEYED else "none"
            expected = ["list:%s" % HEADING[type_]] if type_ in types_ else []
        elif kind == "metadata":
            expected = ["metadata"] if "metadata" in types_ else []
            if oversize:
                md_oversize = True
                md_fields.add("max_detail_length_error")
            else:
                md_contrib.append(slot)
                md_fields.update(["m%d" % slot, "shared"])
        elif kind in UNMET_KINDS:
            expected = ["skip:skips"] if skips_shown else []
        elif kind in ERROR_KINDS:
            expected = ["exception"]
        else:                               # metadata_key (checked below), deliberate skip, disabled
            expected = []
            if kind == "metadata_key":
                mk_contrib.setdefault(key, []).append("v%d" % slot)
        hideable = kind in KEYED or kind in ("none", "metadata") or kind in UNMET_KINDS
        if found:
            info["located"] += 1
            info["places"].update(f.split(":")[0] + ":" + kind.split("_")[0] if f.startswith("list") else f for f in found)
        if hideable:
            info["shown" if expected else "hidden"] += 1
        if found != expected:
            feats = {"driver": driver, "kind": kind0}
            if mode == "selection" and hideable and not expected and found:
                clause = "selection:shown-though-unselected"
            elif mode == "selection" and hideable and expected and not found:
                clause = "selection:hidden-though-selected"
            elif not found:
                clause = "accounting:lost"
            elif not expected:
                clause = "accounting:unexpected-outcome"
            elif all(f in found for f in expected):
                clause = "accounting:duplicate"
            else:
                clause = "accounting:wrong-place"
            out.append((clause, {"rule": name, "places": expected}, {"rule": name, "places": found}, feats))
            continue
        # ---- well-formedness of the one entry -------------------------------------------------
        if expected and expected[0].startswith("list:"):
            e = comp_hits[name][0][1]
            tags, links = DECOS[deco]
            want_key = key if kind in KEYED else "NONE_KEY"
            key_name = KEYED[kind][2] if kind in KEYED else "none_key"
            base = MOD[SLOTS[slot][0]].rsplit(".", 1)[1]
            checks = [("key", want_key, e.get("key")),
                      ("type", type_, e.get("type")),
                      ("tags", sorted(tags), sorted(e.get("tags") or [])),
                      ("links", links or {}, e.get("links") or {}),
                      ("id", "%s|%s" % (base, want_key), e.get("%s_id" % type_))]
            if "details" in e:
                want_d = {"type": type_, key_name: want_key}
                if oversize:            # the stub keeps only type, key and the offending length
                    want_d = _oversize_stub(slot, want_d)
                elif kind in KEYED:
                    want_d["slot"] = slot
                got_d = dict(e["details"]) if isinstance(e["details"], dict) else e["details"]
                checks.append(("details", want_d, got_d))
            for field, want, got in checks:
                if want != got:
                    out.append(("entry:%s" % field, {"rule": name, field: want}, {"rule": name, field: got},
                                {"driver": driver, "kind": kind0, "field": field}))
        elif expected and expected[0].startswith("skip:"):
            e = skip_hits[name][0][1]
            dn = dep_names(slot)
            m_req = [dn["req"]] if kind in ("unmet_req", "unmet_both") else []
            m_any = [[dn["alt"], dn["never"]]] if kind in ("unmet_any", "unmet_both") else []
            miss = m_req + [d for g in m_any for d in g]
            met = [d for d in (dn["req"], dn["alt"]) if d not in miss]
            text = e.get("details") if isinstance(e.get("details"), str) else json.dumps(
                dict((k, v) for k, v in e.items() if k != "rule_fqdn"), default=repr, sort_keys=True)
            bad = [d for d in miss if d not in text] + ["+" + d for d in met if d in text]
            if bad:
                out.append(("skip:names-missing-dependencies", {"rule": name, "missing": miss},
                            {"rule": name, "entry": text, "wrong": bad}, {"driver": driver, "kind": kind}))
            attr = getattr(e, "missing", None)          # the live skip object (SingleEvaluator drivers only)
            if attr is not None:
                from insights.core import dr
                try:
                    got_m = [[dr.get_name(d) for d in attr[0]], [sorted(dr.get_name(d) for d in g) for g in attr[1]]]
                except Exception as ex:
                    got_m = repr(ex)
                want_m = [m_req, [sorted(g) for g in m_any]]
                if got_m != want_m:
                    out.append(("skip:missing-attribute", {"rule": name, "missing": want_m},
                                {"rule": name, "missing": got_m}, {"driver": driver, "kind": kind}))
        elif expected == ["metadata"] and oversize:
            want_n = _oversize_stub(slot, {"type": "metadata"})["max_detail_length_error"]
            if md.get("max_detail_length_error") != want_n:
                out.append(("metadata:field-value", {"max_detail_length_error": want_n},
                            {"max_detail_length_error": md.get("max_detail_length_error")},
                            {"driver": driver, "kind": kind0}))
        elif expected == ["metadata"]:
            if md.get("m%d" % slot) != slot:
                out.append(("metadata:field-value", {"m%d" % slot: slot}, {"m%d" % slot: md.get("m%d" % slot)},
                            {"driver": driver, "kind": kind}))
    if md_contrib and "metadata" in types_ and isinstance(md, dict) and md.get("shared") not in md_contrib:
        out.append(("metadata:shared-field", {"shared": "one of %s" % md_contrib}, {"shared": md.get("shared")},
                    {"driver": driver, "kind": "metadata"}))
    # an oversize metadata response is a stub of type + length: nothing else of it may reach system.metadata
    # (checked only when such a rule is present; a 'type' member is tolerated)
    if md_oversize and "metadata" in types_ and isinstance(md, dict):
        foreign = [k for k in md if k not in md_fields]
        if foreign:
            out.append(("metadata:stub-keeps-only-type-and-length", sorted(md_fields - set(["type"])),
                        sorted(map(repr, md)), {"driver": driver, "kind": "oversize_metadata"}))
    # metadata keys: demanded only where nothing filters the response (see module docstring)
    if driver.startswith("single") or not _impl_show(case):
        for k, vals in sorted(mk_contrib.items()):
            if resp.get(k) not in vals:
                out.append(("metadata_key:value", {k: "one of %s" % vals}, {k: resp.get(k)},
                            {"driver": driver, "kind": "metadata_key"}))
            else:
                info["located"] += 1
                info["places"].add("metadata_key")
    return out, info


# ---- Part B: constructors ----------------------------------------------------------------------

KEY_SHAPES = {"none": None, "empty": "", "str": "K", "int": 5, "bytes": b"K", "list": ["K"]}
KEY_ORDER = ["none", "empty", "str", "int", "bytes", "list"]
B_CLASSES = ["make_response", "make_fail", "make_pass", "make_info", "make_fingerprint",
             "make_metadata_key", "make_metadata", "make_none"]
LIMIT = 64


def _payload(kind, n):
    n = max(n, 1)
    return "a" * n if kind == "str" else int("1" * n)


def constructor_cases(cls):
    if cls == "make_none":
        yield {"part": "B", "cls": cls}
        return
    sizes = [LIMIT + d for d in (-2, -1, 0, 1, 2)]
    if cls == "make_metadata":
        for kw in (None, "type", "x"):
            if kw is None:
                yield {"part": "B", "cls": cls, "kw": None}
                continue
            for pk in ("str", "int"):
                for L in sizes:
                    yield {"part": "B", "cls": cls, "kw": kw, "payload": pk, "length": L}
        return
    if cls == "make_metadata_key":
        for key in KEY_ORDER:
            for pk in ("str", "int"):
                for L in sizes:
                    yield {"part": "B", "cls": cls, "key": key, "kw": "value", "payload": pk, "length": L}
        return
    for key in KEY_ORDER:
        for kw in (None, "type", "own", "x"):
            if kw is None:
                yield {"part": "B", "cls": cls, "key": key, "kw": None}
                continue
            for pk in ("str", "int"):
                for L in sizes:
                    yield {"part": "B", "cls": cls, "key": key, "kw": kw, "payload": pk, "length": L}


def check_constructor_case(case):
    """-> (violations, info)"""
    from insights import settings
    from insights.core import plugins as P
    cls = getattr(P, case["cls"])
    name = case["cls"]
    type_, key_name = cls.response_type, cls.key_name
    key_shape = case.get("key")
    key = KEY_SHAPES[key_shape] if key_shape is not None else None
    kw = case.get("kw")
    feats = {"cls": name, "key": key_shape, "kw": kw}
    out = []
    info = {"outcome": None, "fired": False}

    # the argument set and the dict a well-formed, unabridged response would be
    kwname = {"own": key_name, "value": "value"}.get(kw, kw)
    base = {"type": type_}
    if name == "make_none":
        base[key_name] = "NONE_KEY"
    elif key_name:
        base[key_name] = key
    payload = None
    if kw is not None:
        # size the payload so that len(str(<full response dict>)) is exactly the requested length
        probe = dict(base)
        probe[kwname if kw in ("x", "value") else "x"] = _payload(case["payload"], 1)
        n = case["length"] - (len(str(probe)) - 1)
        payload = _payload(case["payload"], n)
    full = dict(base)
    if kw in ("x", "value"):
        full[kwname] = payload
    measured = len(str(full))
    if kw in ("x", "value") and key_shape in (None, "str", "empty") and measured != case["length"]:
        raise RuntimeError("harness: payload sizing is off: %r != %r" % (measured, case["length"]))

    invalid = key_shape in ("none", "int", "bytes", "list") or kw in ("type", "own")
    either = key_shape == "empty" and not invalid

    saved = settings.defaults["max_detail_length"]
    settings.defaults["max_detail_length"] = LIMIT
    try:
        try:
            if name == "make_none":
                got = cls()
            elif name == "make_metadata":
                got = cls(**({kwname: payload} if kw else {}))
            elif name == "make_metadata_key":
                got = cls(key, payload)
            else:
                got = cls(key, **({kwname: payload} if kw else {}))
            raised = None
        except Exception as ex:
            got, raised = None, type(ex).__name__
    finally:
        settings.defaults["max_detail_length"] = saved

    if raised is not None:
        info["outcome"] = "rejected:%s" % raised
        info["fired"] = True
        if not invalid and not either:
            out.append(("constructor:valid-rejected", "a response", raised, feats))
        return out, info
    if invalid:
        info["outcome"] = "accepted-invalid"
        out.append(("constructor:invalid-accepted", "rejected as an error", dict(got), feats))
        return out, info
    if not isinstance(got, P.Response) or not isinstance(got, dict):
        out.append(("constructor:result-shape", "a Response (dict)", repr(type(got)), feats))
        return out, info
    stub = dict(base)
    stub["max_detail_length_error"] = measured
    g = dict(got)
    oversize = measured > LIMIT
    if name == "make_metadata_key":
        # exempt from the limit by an explicit override: either form is accepted
        info["outcome"] = "stub" if g == stub and oversize else "retained"
        if g != full and not (oversize and g == stub):
            out.append(("constructor:kwargs-not-retained", full, g, feats))
        return out, info
    if oversize:
        info["outcome"] = "stub"
        info["fired"] = True
        if g != stub:
            out.append(("constructor:oversize-not-stubbed", stub, g, dict(feats, over_by=measured - LIMIT)))
    else:
        info["outcome"] = "retained"
        if g != full:
            out.append(("constructor:kwargs-not-retained", full, g, dict(feats, under_by=LIMIT - measured)))
    if key_name and got.get_key() != base[key_name]:
        out.append(("constructor:get-key", base[key_name], got.get_key(), feats))
    return out, info


# ---- the enumerated spaces ---------------------------------------------------------------------

ALL_SHOWN = {"missing": True, "show": list(IMPL_TYPES)}


def _mixed_symbols(slot):
    return [None] + [[b, SLOT_DECO[slot]] for b in BEHS]


def _full_symbols(slot):
    return [None] + [[b, d] for b in LISTED_BEHS for d in DECO_ORDER] + [[b, "p"] for b in OTHER_BEHS + OVERSIZE_BEHS]


def _in_mixed_family(rules, mixed_slots):
    return len(rules) <= mixed_slots and all(r is None or (r[1] == SLOT_DECO[i] and r[0] in BEHS)
                                             for i, r in enumerate(rules))


def rule_sets(family, n, c0, lo, hi, mixed_slots):
    """Rule sets of one unit: slot 0 has symbol c0, slot 1 a symbol in [lo, hi), the rest everything.
    The empty set is skipped; the 'full' family skips what the 'mixed' family already contains."""
    sym = _mixed_symbols if family == "mixed" else _full_symbols
    tail = [sym(1)[lo:hi]] + [sym(s) for s in range(2, n)]
    for rest in itertools.product(*tail):
        rules = [sym(0)[c0]] + list(rest)
        if all(r is None for r in rules):
            continue
        if family == "full" and _in_mixed_family(rules, mixed_slots):
            continue
        yield rules


def select_multisets(max_size):
    out = []
    for k in range(1, max_size + 1):
        for combo in itertools.combinations_with_replacement(range(len(SELECT_KINDS)), k):
            out.append([[SELECT_KINDS[i], SLOT_DECO[s]] for s, i in enumerate(combo)])
    return out


def select_options(driver):
    """Every (missing, show_rules subset).  The (missing, all six types) combination of the Impl
    drivers is part A's and is not repeated.  The deprecated -F switch is left out of the alphabet:
    its option help ("dropped with -m") and the man page ("dropped with -m or -f") disagree on what
    it means together with a format."""
    opts = []
    for missing in (False, True):
        for k in range(len(IMPL_TYPES) + 1):
            for sub in itertools.combinations(IMPL_TYPES, k):
                if driver in ("json", "yaml") and missing and len(sub) == len(IMPL_TYPES):
                    continue
                opts.append({"missing": missing, "show": list(sub)})
    return opts


def units(tier, seed):
    b = BOUNDS[tier]
    us = []
    for family, n in (("mixed", b["mixed_slots"]), ("full", b["full_slots"])):
        nsym0 = len(_mixed_symbols(0) if family == "mixed" else _full_symbols(0))
        nsym1 = len(_mixed_symbols(1) if family == "mixed" else _full_symbols(1))
        per_unit = 2000 if tier == "thorough" else 250             # rule sets per unit, roughly
        tail = 1
        for s in range(2, n):
            tail *= len(_mixed_symbols(s) if family == "mixed" else _full_symbols(s))
        step = max(1, min(nsym1, per_unit // max(1, tail)))
        for c0 in range(nsym0):
            for lo in range(0, nsym1, step):
                us.append({"part": "A", "family": family, "n": n, "c0": c0, "lo": lo, "hi": min(nsym1, lo + step)})
    for driver in S_DRIVERS:
        nms = len(select_multisets(b["select_multiset_max"][driver]))
        step = 8 if driver == "yaml" else 24
        for lo in range(0, nms, step):
            us.append({"part": "S", "driver": driver, "lo": lo, "hi": min(nms, lo + step)})
    for cls in B_CLASSES:
        us.append({"part": "B", "cls": cls})
    return us


def unit_weight(u):
    if u["part"] == "A":
        return 5
    if u["part"] == "S":
        return 4 if u["driver"] == "yaml" else 2
    return 1


# ---- exploration -------------------------------------------------------------------------------

def _record(res, case, vio, nontrivial, outcome):
    res.case(nontrivial=nontrivial, outcome=outcome)
    for v in vio:
        clause, exp, got = v[0], v[1], v[2]
        feats = v[3] if len(v) > 3 else {}
        res.violation(clause, case, _safe(exp), _safe(got), feats)


def run_unit(unit, tier):
    res = Result()
    b = BOUNDS[tier]
    part = unit["part"]
    if part == "A":
        n_sets = 0
        for rules in rule_sets(unit["family"], unit["n"], unit["c0"], unit["lo"], unit["hi"], b["mixed_slots"]):
            n_sets += 1
            n_present = sum(1 for r in rules if r is not None)
            for driver in A_DRIVERS:
                if driver == "yaml" and n_present > b["yaml_max_rules_part_a"]:
                    continue            # YamlFormat shares handle_result with SingleEvaluator; only the dump differs
                case = {"part": "A", "rules": rules, "driver": driver}
                if not driver.startswith("single"):
                    case.update(ALL_SHOWN)
                vio, info = check_rules_case(case)
                _record(res, case, vio, info["located"] >= 2, "A:" + ",".join(sorted(info["places"])))
                res.stat("rule_bodies_run", info["ran"])
                res.stat("cases_bodies_not_run_in_slot_order", 0 if info["in_slot_order"] else 1)
                res.maxi("max_rules_located_in_one_case", info["located"])
        res.stat("rule_sets_%s" % unit["family"], n_sets)
        if n_sets:
            res.samples.append({"part": "A", "rules": rules, "driver": "json", "missing": True, "show": list(IMPL_TYPES)})
        return res
    if part == "S":
        driver = unit["driver"]
        ms = select_multisets(b["select_multiset_max"][driver])[unit["lo"]:unit["hi"]]
        opts = select_options(driver)
        for rules in ms:
            for o in opts:
                case = {"part": "S", "rules": rules, "driver": driver}
                case.update(o)
                vio, info = check_rules_case(case)
                _record(res, case, vio, info["shown"] >= 1 and info["hidden"] >= 1,
                        "S:%s" % ("error" if "error" in info["places"] else "%d:%d" % (info["shown"], info["hidden"])))
        res.stat("select_rule_sets_%s" % driver, len(ms))
        res.maxi("select_options_%s" % driver, len(opts))
        if ms:
            res.samples.append(dict({"part": "S", "rules": ms[0], "driver": driver}, **opts[len(opts) // 3]))
        return res
    if part == "B":
        for case in constructor_cases(unit["cls"]):
            vio, info = check_constructor_case(case)
            _record(res, case, vio, info["fired"], "B:%s:%s" % (unit["cls"], info["outcome"]))
        res.samples.append(case)
        return res
    raise ValueError(part)


def replay(case):
    if case.get("part") == "B":
        vio, _ = check_constructor_case(case)
    else:
        vio, _ = check_rules_case(case)
    return [{"clause": v[0], "case": case, "expected": _safe(v[1]), "observed": _safe(v[2]),
             "features": v[3] if len(v) > 3 else {}}
            for v in vio]
