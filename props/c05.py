"""C05 - the latest implementation for the active context is the one that supplies a spec.

Model checking over registration histories: every sequence of <= L implementations of one
registry point (each bound to HostContext, HostArchiveContext, either, or reached through a
helper datasource; each with an outcome), registered through the REAL SpecSet metaclass in
several class layouts, evaluated under each active context and compared with the reference
resolution rule.
"""
import itertools
import os

from mc.result import Result
from mc import enumx

ID = "C05"
LEVEL = "model_checking"
TECHNIQUE = ("exhaustive enumeration of registration histories (sequences of spec implementations x context bindings x outcomes x "
             "class layouts) through the real SpecSet metaclass, each evaluated under every active context against a reference resolution rule")
LEVEL_TEXT = ("All registration sequences of <= 3 (quick) / <= 4 (thorough) implementations of a registry point - bound to context A, B, "
              "at-least-one [A,B] or transitively through a helper datasource; function datasources and simple_file objects over real "
              "present/missing files; outcomes value / falsy value 0 / skip / content error / crash - in four class layouts (siblings, deeper subclass, two "
              "registry points, a LAYERED spec set that re-declares the point with implementations registered against either level, and ONE CLASS BODY that "
              "defines two specs of which the later one is bound to the other registry point - both alphabetical name orders) are registered with the real metaclass and evaluated under each active context. The value of the point, the "
              "set of implementation bodies executed, the value a consuming parser receives and the propagated flags are compared with the "
              "reference rule 'last registered implementation whose context set contains the active context, or nothing' - after the whole "
              "history and, in one process on the same objects, after every registration prefix.")
LEVEL_NOTE = ("Histories are enumerated completely up to L; the state after each history is the real dr/SpecSet registry state. Context-free "
              "implementations are outside the alphabet (the statement speaks of implementations declared for a context).")
RULE = ("sequence of implementations (binding x outcome) x layout x active context; non-trivial = at least two implementations are declared "
        "for the active context (an override actually happens); states = distinct registration histories (prefix-closed), transitions = "
        "implementation registrations performed, traces = complete evaluate-and-compare executions")
ASSUMPTIONS = ["reference resolution rule as stated in the property"]
BOUNDS = {"quick": {"max_impls": 3}, "thorough": {"max_impls": 4}}
CAP_S = {"quick": 200, "thorough": 3600}

BINDINGS = ["A", "B", "AB", "viaA", "viaB", "free"]
OUTCOMES = ["value", "zero", "skip", "content", "error"]      # "zero": a falsy but real value (0)
FILE_IMPLS = [("A", "file:present"), ("A", "file:missing"), ("B", "file:present")]
LAYOUTS = ["siblings", "deeper-last", "two-points"]

_counter = [0]


def impl_alphabet():
    return [(b, o) for b in BINDINGS for o in OUTCOMES] + FILE_IMPLS


def units(tier, seed):
    L = BOUNDS[tier]["max_impls"]
    alpha = impl_alphabet()
    us = []
    for layout in LAYOUTS:
        for first in range(len(alpha)):
            for n in range(1, L + 1):
                if n >= 3:
                    for second in range(len(alpha)):
                        us.append({"layout": layout, "n": n, "first": first, "second": second})
                else:
                    us.append({"layout": layout, "n": n, "first": first})
    # layered spec sets: small alphabet (A / B / AB x value / skip) x the level each implementation is registered against
    for n in range(1, 4):
        for layer_at in range(0, min(n, 2)):
            us.append({"layout": "layered", "n": n, "layer_at": layer_at})
    # one class BODY that defines two specs: the implementation of `point` is bound to ANOTHER REGISTRY POINT whose
    # implementation (which brings the context) stands earlier in the same body; both alphabetical name orders
    for n in range(0, 3):
        for helper_name in ("aux", "zaux"):
            us.append({"layout": "same-body", "n": n, "helper_name": helper_name})
    return us


def unit_weight(u):
    return u["n"] + (2 if u["layout"] == "layered" else 0)


def ctx_set(binding):
    # "free" = an implementation bound to no context at all (it runs under every context and takes no
    # part in the ignore mechanism); only the positive resolution clause is applied to it, see check_case
    return {"A": {"A"}, "B": {"B"}, "AB": {"A", "B"}, "viaA": {"A"}, "viaB": {"B"}, "free": {"A", "B"}}[binding]


def check_case(case):
    """case = {"impls": [[binding, outcome], ...], "layout": ..., "active": "A"|"B"}"""
    from insights.core import dr, plugins
    from insights.core.context import HostContext, HostArchiveContext
    from insights.core.exceptions import ContentException, SkipComponent
    from insights.core.spec_factory import RegistryPoint, SpecSet, SpecSetMeta, simple_file
    from insights.core.plugins import datasource
    from harness import graphs as G
    from harness.tmp import scratch

    CTX = {"A": HostContext, "B": HostArchiveContext}
    _counter[0] += 1
    tag = "c05_%d" % _counter[0]
    impls = case["impls"]
    layout = case["layout"]
    active = case["active"]
    vio = []
    log = []
    created = []
    classes = []
    with scratch("c05") as root:
        with open(os.path.join(root, "present.txt"), "w") as fh:
            fh.write("line1\nline2\n")
        try:
            flags = dict(multi_output=False, raw=False, filterable=False, no_obfuscate=["hostname"], no_redact=True, prio=7)
            point = RegistryPoint(**flags)
            created.append(point)
            base_dct = {"point": point, "__module__": G.MODNAME}
            other = None
            if layout == "two-points":
                other = RegistryPoint()
                created.append(other)
                base_dct["other"] = other
            Base = SpecSetMeta(tag + "_Base", (SpecSet,), base_dct)
            classes.append(Base)
            # a consuming parser-like component
            got = []

            def consumer(v):
                got.append(v)
                return ("parsed", v)
            consumer.__name__ = tag + "_consumer"
            consumer.__module__ = G.MODNAME
            plugins.parser(point)(consumer)
            created.append(consumer)

            impl_objs = []
            wired = []
            layer = []
            parent = Base

            def register(k):
                binding, outcome = impls[k]
                def make_body(k=k, outcome=outcome):
                    def body(broker):
                        log.append(k)
                        if outcome == "value":
                            return "value-%d" % k
                        if outcome == "zero":
                            return 0
                        if outcome == "skip":
                            raise SkipComponent("skip %d" % k)
                        if outcome == "content":
                            raise ContentException("content %d" % k)
                        raise ValueError("crash %d" % k)
                    body.__name__ = "%s_body%d" % (tag, k)
                    body.__module__ = G.MODNAME
                    return body
                if outcome.startswith("file:"):
                    rel = "present.txt" if outcome == "file:present" else "missing.txt"
                    sf = simple_file(rel, context=CTX[binding])
                    orig_call = sf.__class__.__call__

                    class logged_simple_file(simple_file):
                        def __call__(self, broker, _k=k):
                            log.append(_k)
                            return simple_file.__call__(self, broker)
                    # the instance was registered under its own identity; re-class it so the body logs
                    sf.__class__ = logged_simple_file
                    ds = sf
                elif binding in ("A", "B"):
                    ds = datasource(CTX[binding])(make_body())
                elif binding == "AB":
                    ds = datasource([HostContext, HostArchiveContext])(make_body())
                elif binding == "free":
                    ds = datasource()(make_body())
                else:
                    c = CTX[binding[-1]]

                    def helper(broker, _k=k):
                        return "helper-%d" % _k
                    helper.__name__ = "%s_helper%d" % (tag, k)
                    helper.__module__ = G.MODNAME
                    datasource(c)(helper)
                    created.append(helper)
                    ds = datasource(helper)(make_body())
                created.append(ds)
                impl_objs.append(ds)
                is_last = (k == len(impls) - 1)
                if layout == "deeper-last" and is_last and k > 0:
                    # a subclass of an implementation class: by design NOT wired to the registry point
                    cls = SpecSetMeta("%s_Deep%d" % (tag, k), (classes[-1],), {"point": ds, "__module__": G.MODNAME})
                    wired.append(False)
                else:
                    dct = {"point": ds, "__module__": G.MODNAME}
                    if layout == "two-points" and k == 0:
                        def obody(broker):
                            log.append("other")
                            return "other-value"
                        obody.__name__ = tag + "_obody"
                        obody.__module__ = G.MODNAME
                        ods = datasource(CTX[active])(obody)
                        created.append(ods)
                        dct["other"] = ods
                    parent_cls = Base
                    if layout == "layered":
                        # a spec set that re-declares the registry point under the same name (the re-declared point is
                        # itself wired onto the parent's point); implementations are registered against either level
                        if k == case.get("layer_at", 0) and not layer:
                            lp = RegistryPoint(**flags)
                            created.append(lp)
                            layer.append(SpecSetMeta(tag + "_Layer", (Base,), {"point": lp, "__module__": G.MODNAME}))
                            classes.append(layer[0])
                        if case["levels"][k] == "layer" and layer:
                            parent_cls = layer[0]
                    cls = SpecSetMeta("%s_Impl%d" % (tag, k), (parent_cls,), dct)
                    wired.append(True)
                classes.append(cls)

            def same(a, b):
                return type(a) is type(b) and a == b     # 0 is not False is not None

            def judge(m):
                """evaluate the registry as it stands after the first m registrations and compare with the reference"""
                vio_ = []
                del log[:]
                del got[:]
                # ---- reference resolution -------------------------------------------------------------
                cand = [k for k, (b, o) in enumerate(impls[:m]) if wired[k] and active in ctx_set(b)]
                handler = cand[-1] if cand else None

                def yields(k):
                    o = impls[k][1]
                    return o in ("value", "zero", "file:present")
                exp_present = handler is not None and yields(handler)
                # Context-free implementations are only loosely covered by the statement ("declared for the
                # execution context that is active"): with one among the candidates the check demands only
                # that a yielding handler's value is the one supplied (weaker reading, never an alarm on the
                # fall-back / execution behaviour the ignore mechanism cannot provide for them).
                free_involved = any(impls[k][0] == "free" for k in cand)
                # ---- evaluate ---------------------------------------------------------------------------
                broker = dr.Broker()
                broker[CTX[active]] = CTX[active](root=root) if active == "A" else CTX[active](root=root)
                graph = dr.get_dependency_graph(consumer)
                if other is not None:
                    graph.update(dr.get_dependency_graph(other))
                for k, ds in enumerate(impl_objs[:m]):
                    if not wired[k]:
                        graph.update(dr.get_dependency_graph(ds))    # the unwired datasource is evaluated too, on its own
                try:
                    dr.run(graph, broker)
                except Exception as ex:
                    return [("run:raises", "dr.run returns", repr(ex), {})]

                def val(v):
                    if hasattr(v, "content"):
                        try:
                            return ["provider", list(v.content)]
                        except Exception as ex:
                            return ["provider-unreadable", type(ex).__name__]
                    return v
                exp_val = None
                if exp_present:
                    exp_val = (["provider", ["line1", "line2"]] if impls[handler][1] == "file:present" else
                               0 if impls[handler][1] == "zero" else "value-%d" % handler)
                feats = {"layout": layout}
                if exp_present:
                    if point not in broker:
                        vio_.append(("resolution:handler-value-supplied", {"handler": handler, "value": exp_val}, {"absent": True}, feats))
                    elif not same(val(broker[point]), exp_val):
                        vio_.append(("resolution:handler-value-supplied", {"handler": handler, "value": exp_val}, {"value": val(broker[point])}, feats))
                    if len(got) != 1 or not same(val(got[0]), exp_val):
                        vio_.append(("resolution:parser-receives-handler-value", [exp_val], [val(g) for g in got], feats))
                elif not free_involved:
                    if point in broker:
                        vio_.append(("resolution:absent-when-handler-yields-nothing", {"handler": handler, "absent": True},
                                    {"value": val(broker[point])}, feats))
                    if got:
                        vio_.append(("resolution:parser-not-fed", [], [val(g) for g in got], feats))
                # executed implementation bodies (wired ones)
                ran = [k for k in log if k != "other"]
                for k, (b, o) in enumerate(impls[:m]):
                    if not wired[k]:
                        continue
                    n = ran.count(k)
                    if free_involved:
                        if n > 1:
                            vio_.append(("execution:handler-runs-once", {"impl": k, "runs": "<=1"}, {"impl": k, "runs": n}, feats))
                    elif k == handler:
                        if n != 1:
                            vio_.append(("execution:handler-runs-once", {"impl": k, "runs": 1}, {"impl": k, "runs": n}, feats))
                    elif active in ctx_set(b):
                        if n != 0:
                            vio_.append(("execution:overridden-implementation-not-run", {"impl": k, "runs": 0}, {"impl": k, "runs": n}, feats))
                    else:
                        if n != 0:
                            vio_.append(("execution:other-context-implementation-not-run", {"impl": k, "runs": 0}, {"impl": k, "runs": n}, feats))
                # flags copied onto every wired implementation
                for k, ds in enumerate(impl_objs[:m]):
                    if not wired[k]:
                        continue
                    d = dr.get_delegate(ds)
                    for f, v in flags.items():
                        if f == "raw" and impls[k][1].startswith("file:"):
                            pass
                        if getattr(d, f, None) != v or getattr(ds, f, None) != v:
                            vio_.append(("flags:copied-to-implementation", {"impl": k, f: v},
                                        {"impl": k, "delegate": getattr(d, f, None), "component": getattr(ds, f, None)}, feats))
                # second registry point is independent
                if other is not None:
                    if broker.get(other) != "other-value" or log.count("other") != 1:
                        vio_.append(("resolution:points-independent", {"other": "other-value", "runs": 1},
                                    {"other": val(broker.get(other)), "runs": log.count("other")}, feats))
                case["_outcome"] = "handler=%s:%s:bodies-run=%d" % (handler, "value" if exp_present else "absent", len(ran))
                return vio_
            every = case.get("steps") == "every-prefix"
            for k in range(len(impls)):
                register(k)
                if every or k == len(impls) - 1:
                    for v in judge(k + 1):
                        vio.append((v[0], v[1], v[2], dict(v[3], after_registrations=k + 1) if every else v[3]))
            return vio
        finally:
            G.cleanup_components(created)
            for ctx in (HostContext, HostArchiveContext):
                s = dr.DEPENDENTS.get(ctx)
                if s is not None:
                    s.difference_update(created)


LAYERED_ALPHA = [(b, o) for b in ("A", "B", "AB") for o in ("value", "skip")]


def run_layered(unit, res):
    n = unit["n"]
    for impls in itertools.product(LAYERED_ALPHA, repeat=n):
        for levels in itertools.product(("base", "layer"), repeat=n):
            if "layer" not in levels or any(lv == "layer" and k < unit["layer_at"] for k, lv in enumerate(levels)):
                continue                      # an implementation cannot be registered against a level that does not exist yet
            for active, steps in itertools.product(("A", "B"), ("final", "every-prefix")):
                if steps == "every-prefix" and n < 2:
                    continue
                case = {"impls": [list(x) for x in impls], "layout": "layered", "active": active, "levels": list(levels),
                        "layer_at": unit["layer_at"]}
                if steps == "every-prefix":
                    case["steps"] = steps
                try:
                    vio = check_case(case)
                except Exception:
                    import traceback
                    vio = [("harness:raises", "no exception", traceback.format_exc()[-900:], {})]
                declared = sum(1 for (b, o) in impls if active in ctx_set(b))
                oc = case.pop("_outcome", "?")
                res.case(nontrivial=declared >= 2 and len(set(levels)) == 2,
                         outcome="layered|" + (",".join(sorted(set(v[0] for v in vio))) or "ok") + "|" + oc,
                         sample=case if res.evals % 900 == 5 else None)
                res.transitions += n
                res.traces += 1
                for v in vio:
                    res.violation(v[0], case, v[1], v[2], v[3])
    res.maxi("max_history_length", n)
    return res


def check_body_case(case):
    """case = {"layout": "same-body", "impls": [[binding, outcome] x n earlier implementations, one class each],
               "helper_name": "aux"|"zaux", "helper_ctx": "A"|"B", "helper_where": "same-body"|"earlier-class",
               "last_outcome": "value"|"skip", "active": "A"|"B"}
    The LAST implementation of `point` is `datasource(Base.<helper_name>)`: it is declared for the contexts of the
    implementations registered on that other registry point - here exactly one, defined BEFORE it (in the same class
    body, in definition order, or in an earlier class)."""
    from insights.core import dr, plugins
    from insights.core.context import HostContext, HostArchiveContext
    from insights.core.exceptions import SkipComponent
    from insights.core.spec_factory import RegistryPoint, SpecSet, SpecSetMeta
    from insights.core.plugins import datasource
    from harness import graphs as G
    from harness.tmp import scratch

    CTX = {"A": HostContext, "B": HostArchiveContext}
    _counter[0] += 1
    tag = "c05b_%d" % _counter[0]
    active, hname, hctx = case["active"], case["helper_name"], case["helper_ctx"]
    impls = [tuple(x) for x in case["impls"]] + [("via-point:" + hctx, case["last_outcome"])]
    log, got, created = [], [], []
    with scratch("c05") as root:
        try:
            point, hpoint = RegistryPoint(), RegistryPoint()
            created += [point, hpoint]
            Base = SpecSetMeta(tag + "_Base", (SpecSet,), {"point": point, hname: hpoint, "__module__": G.MODNAME})

            def consumer(v):
                got.append(v)
                return ("parsed", v)
            consumer.__name__ = tag + "_consumer"
            consumer.__module__ = G.MODNAME
            plugins.parser(point)(consumer)
            created.append(consumer)

            def make_body(k, outcome):
                def body(broker):
                    log.append(k)
                    if outcome == "value":
                        return "value-%d" % k
                    raise SkipComponent("skip %d" % k)
                body.__name__ = "%s_body%d" % (tag, k)
                body.__module__ = G.MODNAME
                return body
            for k, (b, o) in enumerate(impls[:-1]):
                deco = datasource([HostContext, HostArchiveContext]) if b == "AB" else datasource(CTX[b])
                ds = deco(make_body(k, o))
                created.append(ds)
                SpecSetMeta("%s_Impl%d" % (tag, k), (Base,), {"point": ds, "__module__": G.MODNAME})

            def hbody(broker):
                log.append("helper")
                return "helper-value"
            hbody.__name__ = tag + "_hbody"
            hbody.__module__ = G.MODNAME
            hds = datasource(CTX[hctx])(hbody)
            created.append(hds)
            last = len(impls) - 1
            if case["helper_where"] == "earlier-class":
                SpecSetMeta(tag + "_HelperImpl", (Base,), {hname: hds, "__module__": G.MODNAME})
            lds = datasource(getattr(Base, hname))(make_body(last, case["last_outcome"]))
            created.append(lds)
            body = {"__module__": G.MODNAME}
            if case["helper_where"] == "same-body":
                body[hname] = hds                      # definition order: the helper's implementation stands first
            body["point"] = lds
            SpecSetMeta("%s_Impl%d" % (tag, last), (Base,), body)

            def cset(b):
                return {"A": {"A"}, "B": {"B"}, "AB": {"A", "B"}}.get(b) or {b[-1]}
            cand = [k for k, (b, o) in enumerate(impls) if active in cset(b)]
            handler = cand[-1] if cand else None
            exp_present = handler is not None and impls[handler][1] == "value"
            broker = dr.Broker()
            broker[CTX[active]] = CTX[active](root=root)
            graph = dr.get_dependency_graph(consumer)
            try:
                dr.run(graph, broker)
            except Exception as ex:
                return [("run:raises", "dr.run returns", repr(ex), {})]
            vio = []
            feats = {"layout": "same-body", "helper_name": hname, "helper_where": case["helper_where"]}
            if exp_present:
                ev = "value-%d" % handler
                if point not in broker or broker[point] != ev:
                    vio.append(("resolution:handler-value-supplied", {"handler": handler, "value": ev},
                                {"value": broker.get(point), "present": point in broker}, feats))
                if got != [ev]:
                    vio.append(("resolution:parser-receives-handler-value", [ev], list(got), feats))
            else:
                if point in broker:
                    vio.append(("resolution:absent-when-handler-yields-nothing", {"handler": handler, "absent": True},
                                {"value": broker[point]}, feats))
                if got:
                    vio.append(("resolution:parser-not-fed", [], list(got), feats))
            for k, (b, o) in enumerate(impls):
                n = log.count(k)
                if k == handler:
                    if n != 1:
                        vio.append(("execution:handler-runs-once", {"impl": k, "runs": 1}, {"impl": k, "runs": n}, feats))
                elif n != 0:
                    vio.append(("execution:overridden-implementation-not-run" if active in cset(b) else
                                "execution:other-context-implementation-not-run", {"impl": k, "runs": 0}, {"impl": k, "runs": n}, feats))
            exp_h = 1 if active == hctx else 0
            if log.count("helper") != exp_h:
                vio.append(("execution:helper-point-implementation-runs-under-its-context", {"runs": exp_h},
                            {"runs": log.count("helper")}, feats))
            case["_outcome"] = "handler=%s:%s:bodies-run=%d" % (handler, "value" if exp_present else "absent", len(log))
            return vio
        finally:
            G.cleanup_components(created)
            for ctx in (HostContext, HostArchiveContext):
                s = dr.DEPENDENTS.get(ctx)
                if s is not None:
                    s.difference_update(created)


def run_same_body(unit, res):
    n = unit["n"]
    for impls in itertools.product(LAYERED_ALPHA, repeat=n):
        for hctx, where, lo, active in itertools.product(("A", "B"), ("same-body", "earlier-class"), ("value", "skip"), ("A", "B")):
            case = {"layout": "same-body", "impls": [list(x) for x in impls], "helper_name": unit["helper_name"], "helper_ctx": hctx,
                    "helper_where": where, "last_outcome": lo, "active": active}
            try:
                vio = check_body_case(case)
            except Exception:
                import traceback
                vio = [("harness:raises", "no exception", traceback.format_exc()[-900:], {})]
            declared = sum(1 for (b, o) in impls if active in ctx_set(b)) + (1 if hctx == active else 0)
            oc = case.pop("_outcome", "?")
            res.case(nontrivial=declared >= 2 and hctx == active,
                     outcome="same-body|" + (",".join(sorted(set(v[0] for v in vio))) or "ok") + "|" + oc,
                     sample=case if res.evals % 300 == 5 else None)
            res.transitions += n + 2
            res.traces += 1
            for v in vio:
                res.violation(v[0], case, v[1], v[2], v[3])
    res.maxi("max_history_length", n + 1)
    return res


def run_unit(unit, tier):
    res = Result()
    if unit["layout"] == "layered":
        return run_layered(unit, res)
    if unit["layout"] == "same-body":
        return run_same_body(unit, res)
    alpha = impl_alphabet()
    n = unit["n"]
    fixed = [alpha[unit["first"]]]
    if "second" in unit:
        fixed.append(alpha[unit["second"]])
    rest = n - len(fixed)
    prefixes = set()
    for tail in itertools.product(alpha, repeat=rest):
        impls = [list(x) for x in fixed + list(tail)]
        for k in range(1, len(impls) + 1):
            prefixes.add(tuple(map(tuple, impls[:k])))
        for active, steps in itertools.product(("A", "B"), ("final", "every-prefix")):
            case = {"impls": impls, "layout": unit["layout"], "active": active}
            if steps == "every-prefix":
                # history in ONE process: evaluate after every registration (an evaluation must not influence
                # what a later registration resolves to, and every prefix state is judged on the same objects)
                if len(impls) < 2 or len(impls) > 3 or unit["layout"] == "deeper-last":
                    continue
                case["steps"] = steps
            try:
                vio = check_case(case)
            except Exception:
                import traceback
                vio = [("harness:raises", "no exception", traceback.format_exc()[-900:], {})]
            declared = sum(1 for (b, o) in impls if active in ctx_set(b))
            oc = case.pop("_outcome", "?")
            res.case(nontrivial=declared >= 2, outcome=(",".join(sorted(set(v[0] for v in vio))) or "ok") + "|" + oc,
                     sample=case if res.evals % 700 == 3 else None)
            res.transitions += len(impls)
            res.traces += 1
            for v in vio:
                res.violation(v[0], case, v[1], v[2], v[3])
    res.states += len(prefixes) if "second" in unit or n < 3 else len(prefixes)
    res.maxi("max_history_length", n)
    return res


def replay(case):
    if case.get("layout") == "same-body":
        return [{"clause": v[0], "case": case, "expected": v[1], "observed": v[2], "features": v[3]} for v in check_body_case(case)]
    return [{"clause": v[0], "case": case, "expected": v[1], "observed": v[2], "features": v[3]} for v in check_case(case)]
